"""C01 — every 1-D quadrature rule is exact on its polynomial class, for every size."""
import importlib
import math
import traceback
import warnings
from fractions import Fraction
from pathlib import Path

import numpy as np

from ..common import Ctx, DriverError, Tokens, b2f, close, driver_batch, f2b, fvec

LEVEL = "proof"
LEVEL_TEXT = (
    "Lean theorems over the reals, for every admissible n: trapezoid/midpoint (degree <= 1) and Simpson (degree <= 3, odd n) "
    "integrate every polynomial of that degree exactly -- stated about the constructors as regenerated entry by entry from the "
    "source (every assignment, slice update, guard, length, domain of Trapezoidal, Simpson, MidPoint, UniformInteger, "
    "GaussChebyshevLobatto, RectangleRuleSineEndPoints); Fejer-1 and Clenshaw-Curtis as coded (series length, denominators, "
    "frequencies and the last-coefficient patch taken from the regenerated source) integrate every polynomial of degree <= n-1 "
    "exactly; Gauss-Chebyshev-1 under the closed-form chebgauss contract and Gauss-Chebyshev-2 under the closed-form "
    "roots_chebyu contract (nodes cos(k pi/(n+1)), weights pi/(n+1) sin^2; discrete sine orthogonality) are exact up to degree "
    "2n-1; the weight division / reversal the repository adds to any Gauss rule (Legendre, Laguerre, alpha > -1) keeps "
    "exactness up to degree 2n-1 (external nodes by contract GaussExact); for the 7 variable-substitution rules the generated "
    "weight expression is step x derivative of the generated node map at the node (HasDerivAt), nodes strictly ascending and "
    "inside the declared domain; closed-form rules have n ascending nodes in the domain; _derg2/_derg3/_dergstrip are the "
    "derivatives of _g2/_g3/_gstrip, g(+-1)=+-1, g'>0; the strip map fixes +-1, is strictly increasing on [-1,1] for every "
    "rho > 1 and the np.isclose branch of _dergstrip is the one-sided limit of the derivative (gstrip_shape), so the strip "
    "transformations keep n ascending nodes in [-1,1]. Fejer-2 (known finding) is characterised for every n: the hand-written "
    "rule with the complete sine series is exact on degree <= n-1 (fejer2_corrected_exact); the weights of the code are those "
    "minus the contribution of the term j = (n+1)//2 (fejer2_code_weights_defect); on the Chebyshev-U basis the code loses "
    "exactly the component of degree m* = 2((n+1)//2) - 2 (fejer2_code_defect), hence is not exact for any n >= 2 "
    "(fejer2_code_not_exact) and exact below m* (fejer2_code_exact_below). Round 3: all 26 constructor bodies and "
    "OneDGrid.__init__ are regenerated statement by statement (Gen/OneDCtor.lean: argument guards with their exception class, the "
    "warning, the call of leggauss / chebgauss / roots_chebyu / roots_genlaguerre as named primitives, the element-wise "
    "post-processing of nodes and weights, reversal, the d == 1/5/9 chain, default parameters, the domain tuple, the arguments of "
    "super().__init__; Clenshaw-Curtis / Fejer 1 / Fejer 2 additionally entry by entry in Gen/OneDFormulas.lean) and proved equal "
    "to the model constructors the other theorems are about (*_ctor_eq_make, for every npoints and every parameter; wrappers and "
    "...General classes under 'the routine returns a non-empty array'); OneDGrid.__init__ accepts exactly the grids whose points "
    "lie in [lo - 1e-7, hi + 1e-7] with the regenerated constant and comparisons (onedgrid_init_accepts_iff, _rejects_below, "
    "_rejects_above, _no_domain, _empty, _descending); every npoints guard: the regenerated constructors accept exactly the "
    "admissible sizes (*_ctor_accepts_iff: npoints >= 2; Simpson and Tanh-Sinh odd >= 3; the six other substitution rules odd >= 1 "
    "and h > 0)."
)
TECHNIQUE = "Lean 4 proof over R on constructors (all 26 bodies and OneDGrid.__init__ statement by statement) / formulas / bounds regenerated from the source + differential correspondence of all 26 constructors (repeated, interleaved, mutated, typed inputs, fresh process, threshold neighbourhoods) + exact-moment and exact-rational domain oracle"
GEN = ["onedgrid", "onedctor"]
LEAN_MODULES = [
    "GridVerif.Props.C01.NewtonCotes",
    "GridVerif.Props.C01.Fejer",
    "GridVerif.Props.C01.Fejer2",
    "GridVerif.Props.C01.ClenshawCurtis",
    "GridVerif.Props.C01.Gauss",
    "GridVerif.Props.C01.GaussCheb2",
    "GridVerif.Props.C01.Subst",
    "GridVerif.Props.C01.Closed",
    "GridVerif.Props.C01.Strip",
    "GridVerif.Props.C01.Shape",
    "GridVerif.Props.C01.StripShape",
    "GridVerif.Props.C01.Ctor",
    "GridVerif.Props.C01.CtorSeries",
    "GridVerif.Props.C01.Init",
    "GridVerif.Props.C01.Clauses",
]
_T = {
    "NewtonCotes": ["trapezoid_exact", "midpoint_exact", "simpson_exact"],
    "Fejer": ["fejer1_gen_facts", "fejer1_exact_T", "fejer1_exact", "fejer2_weights_two", "fejer2_fails_at_2"],
    "Fejer2": ["fejer2_series_U", "fejer2_corrected_exact_U", "fejer2_corrected_exact", "fejer2_corrected_make",
               "fejer2_gen_facts", "fejer2_code_weights_defect", "fejer2_code_U", "fejer2_code_defect",
               "fejer2_code_not_exact", "fejer2_code_exact_below"],
    "ClenshawCurtis": ["cc_gen_facts", "clenshawcurtis_exact_T", "clenshawcurtis_exact"],
    "Gauss": ["gauss_weight_division", "quad_reverse_points_only", "gausslegendre_exact", "gausscheb2_exact",
              "gausslaguerre_exact", "gausscheb1_exact"],
    "GaussCheb2": ["integral_sqrt_mul_U", "chebyu_gaussExact", "gausscheb2_closed_exact"],
    "Subst": [f"{c}_{t}" for c in ("tanhsinh", "expsinh", "logexpsinh", "expexp", "singletanh", "singleexp", "singlearcsinhexp")
              for t in ("weight_is_step_times_deriv", "strictMono", "shape")] + ["tanhsinh_in_domain"],
    "Closed": ["derg2_is_deriv_g2", "derg3_is_deriv_g3", "g2_endpoints", "g3_endpoints", "derg2_pos", "derg3_pos",
               "dergstrip_is_deriv_gstrip"],
    "Strip": ["gstrip_cn_pos", "gstrip_endpoints", "gstrip_strictMonoOn", "dergstrip_end_is_limit",
              "dergstrip_end_is_limit_left", "gstrip_shape", "dergstripMask_iff", "dergstrip_eq_interior",
              "dergstrip_is_deriv_outside_window", "dergstrip_eq_end"],
    "Shape": ["trapezoidal_shape", "simpson_shape", "midpoint_shape", "rectanglesine_shape", "uniforminteger_shape",
              "chebyshevlobatto_shape", "clenshawcurtis_shape", "fejerfirst_shape", "fejersecond_shape",
              "chebyshevlobatto_weights_formula", "rectanglesine_weights_formula",
              "trefethen_poly_shape", "trefethen_poly_reject", "trefethencc_shape"],
    "StripShape": ["trefethen_strip_shape", "trefethenstripcc_shape"],
    # round 3: the constructors regenerated statement by statement (Gen/OneDCtor.lean) are the model constructors
    "Ctor": [f"{c}_ctor_eq_make" for c in ("trapezoidal", "simpson", "midpoint", "uniforminteger", "chebyshevlobatto", "rectanglesine",
                                           "tanhsinh", "expsinh", "logexpsinh", "expexp", "singletanh", "singleexp", "singlearcsinhexp",
                                           "gausslegendre", "gausschebyshev", "gausschebyshevtype2", "gausslaguerre",
                                           "trefethengeneral", "trefethenstripgeneral")] + ["dergstripAt_eq"],
    "CtorSeries": ["cc_gen_points_eq", "cc_gen_weights_eq", "clenshawcurtis_ctor_eq_make", "fejer1_gen_points_eq", "fejer1_gen_weights_eq",
                   "fejerfirst_ctor_eq_make", "fejer2_gen_points_eq", "fejer2_gen_weights_eq", "fejersecond_ctor_eq_make"],
    "Init": ["onedgrid_init_eq_model", "oneDGrid_ok_iff", "onedgrid_init_accepts_iff", "onedgrid_init_rejects_below",
             "onedgrid_init_rejects_above", "onedgrid_init_no_domain", "onedgrid_init_empty", "onedgrid_init_descending"]
            + [f"{c}_ctor_accepts_iff" for c in ("trapezoidal", "midpoint", "uniforminteger", "chebyshevlobatto", "rectanglesine",
                                                 "clenshawcurtis", "fejerfirst", "fejersecond", "simpson", "tanhsinh", "expsinh",
                                                 "logexpsinh", "expexp", "singletanh", "singleexp", "singlearcsinhexp")]
            + ["trefethencc_ctor_eq_make", "trefethenstripcc_ctor_eq_make", "trefethengc2_ctor_eq_make", "trefethenstripgc2_ctor_eq_make"],
    # round 6: clauses of the property over the regenerated constructors (stored changes C01-e, C01-h)
    "Clauses": ["gausslaguerre_gen_exact", "init_ok_eq", "trefethenstripgeneral_gen_clause", "trefethengeneral_gen_clause"],
}
THEOREMS = [f"GridVerif.C01.{t}" for ts in _T.values() for t in ts]
RULE = (
    "correspondence: each of the 26 constructors x every npoints in -1..40 plus sampled npoints <= 400 (odd and even) and "
    "npoints = 2000/2001 for the rules without an eigenvalue solve x default and random extra parameters (delta, h, alpha, d, "
    "rho, base quadrature) incl. rejected ones and the edges of their ranges (h from 5e-324 to 800, alpha from -1+1ulp to 1000, "
    "rho from 1+1ulp to 1e300 and <= 1, d of every kind), constructor vs Lean model at Float (Gauss nodes of NumPy/SciPy fed to "
    "the model); npoints as np.int64/int32/intp/bool/float/np.float64/0-d array, parameters as np.float64/np.int64/bool/0-d "
    "array, keyword and positional; a schedule in which every constructor call occurs three times, interleaved with the other "
    "classes and other sizes, every object compared when built and again at the end, no two objects sharing memory, and a "
    "rebuild after the arrays of an earlier object were overwritten in place; plus every generated function/bound vs the "
    "Python expression it came from and the hand-written corrected Fejer-2 vs exact moments and vs implementation + missing "
    "term; round 3: every constructor call also through the constructor regenerated statement by statement (C01.ctor), the "
    "regenerated default parameters against the signatures, OneDGrid.__init__ itself against its regeneration with the extreme "
    "point 0 / 0.01 / 0.5 / 0.99 / 1-1ulp / 1 / 1+1ulp / 1.01 / 2 / 100 / 1e4 slacks (1e-7) outside either end of nine domains, "
    "NaN / inf points, empty / mismatched / integer / float32 / read-only / reversed arrays, descending and degenerate domains, no "
    "domain; the first calls of a fresh interpreter with a non-default parameter before any default call; "
    "non-trivial = accepted rule with n >= 3 and, for parametrised rules, a non-default parameter"
)
TRUSTED_BASE = [
    "Lean 4.33 kernel; axioms propext, Classical.choice, Quot.sound only (audited per theorem)",
    "translator harness/translate/onedgrid.py (AST -> Gen/OneDFormulas.lean; self-checked at Float against the source expressions on every run; the six entry-wise constructors through the constructor comparison)",
    "hand model Model/OneD.lean: assembly of the generated entries, the series rules, Gauss wrappers, Trefethen dispatch and OneDGrid.__init__, tied by correspondence and (round 3) proved equal to the constructors regenerated statement by statement",
    "translator harness/translate/onedctor.py (AST -> Gen/OneDCtor.lean) and the named primitives of Model/OneDPy.lean (np.min / np.max with NaN propagation, comparisons with an upper end that may be np.inf, Grid.__init__'s length test, issubclass / class call, warnings.warn as a no-op); every generated constructor is run by the driver against the implementation on every case of the correspondence",
    "hand-written FejerSecondCorrected (the complete sine series): not a model of the code; tied to its definition by exact moments and to the implementation by 'implementation + missing term'",
    "Elem R instance (which real function each NumPy name denotes)",
    "NumPy/SciPy Gauss nodes: leggauss, roots_genlaguerre by contract GaussExact (not verified); chebgauss, roots_chebyu by their closed forms (stated as hypotheses, compared numerically by the oracle)",
]
ASSUMPTIONS = [
    "npoints is an integer (Python or NumPy signed integer of at least 32 bits, bool) -- a float is either rejected or treated as its integer value; extra parameters are real numbers held in binary64 (NumPy float32 scalars lose precision: listed finding)",
    "rounding is not modelled: theorems are exact over R, the correspondence uses rtol 1e-11..1e-9 (1e-6 where |k*h| > 6 saturates tanh/exp)",
    "a NaN among the points disables OneDGrid's domain check in NumPy (np.min): the regenerated OneDGrid.__init__ (np.min / np.max primitives with NaN propagation) follows it and is compared on such inputs; the hand model's check does not, it is used only where every point is NaN or inside the domain",
    "domain tuples have a finite lower end; the upper end is finite or +inf (all 26 constructors: (-1, 1) or (0, inf))",
]

# ----------------------------------------------------------------------------------------------
NOARG = ["UniformInteger", "GaussChebyshevLobatto", "Trapezoidal", "RectangleRuleSineEndPoints", "Simpson",
         "MidPoint", "ClenshawCurtis", "FejerFirst", "FejerSecond"]
STEP = ["TanhSinh", "ExpSinh", "LogExpSinh", "ExpExp", "SingleTanh", "SingleExp", "SingleArcSinhExp"]
GAUSS = ["GaussLegendre", "GaussChebyshev", "GaussChebyshevType2"]
ALL26 = NOARG + STEP + GAUSS + ["GaussLaguerre", "TrefethenCC", "TrefethenGC2", "TrefethenGeneral",
                                "TrefethenStripCC", "TrefethenStripGC2", "TrefethenStripGeneral"]
BASES = NOARG + STEP + GAUSS + ["GaussLaguerre", "TrefethenCC", "TrefethenGC2", "TrefethenStripCC", "TrefethenStripGC2"]
STEP_DEFAULT = {"TanhSinh": 0.1, "ExpSinh": 1.0}


def _og():
    return importlib.import_module("grid.onedgrid")


def _gauss_for(cls, n, alpha=0.0):
    """Output of the NumPy/SciPy call the constructor `cls` makes (empty when that call is not reached)."""
    from scipy.special import roots_chebyu, roots_genlaguerre
    try:
        if cls == "GaussLegendre" and n > 1:
            return np.polynomial.legendre.leggauss(n)
        if cls == "GaussChebyshev" and n > 1:
            return np.polynomial.chebyshev.chebgauss(n)
        if cls in ("GaussChebyshevType2", "TrefethenGC2", "TrefethenStripGC2") and n >= 1:
            return roots_chebyu(n)
        if cls == "GaussLaguerre" and n > 1 and alpha > -1:
            return roots_genlaguerre(n, alpha)
    except Exception:
        pass
    return np.array([]), np.array([])


def _impl(fn):
    with warnings.catch_warnings():
        warnings.simplefilter("ignore")
        try:
            g = fn()
        except ValueError:
            return "value-error"
        except TypeError:
            return "type-error"
        except RuntimeError:
            return "runtime-error"
        except IndexError:
            return "index-error"
        except Exception as e:   # anything else the library raises is an answer as well (the model has no such answer)
            return "raises-" + type(e).__name__
    dom = g.domain
    if dom is None or len(dom) != 2:
        return "no-domain"          # (no constructor of onedgrid.py leaves the domain out: differs from every model answer)
    return (np.asarray(g.points, dtype=float), np.asarray(g.weights, dtype=float), float(dom[0]), float(dom[1]))


def _parse(ans):
    if not ans.startswith("ok"):
        return ans
    t = Tokens(ans)
    t.tok()
    p = t.fvec()
    w = t.fvec()
    lo = t.flt()
    hi = t.tok()
    hi = math.inf if hi == "inf" else b2f(hi)
    return (np.array(p), np.array(w), lo, hi)


def _vec_close(a, b, rtol, elementwise):
    if len(a) != len(b):
        return False, "length"
    if len(a) == 0:
        return True, ""
    fin = [abs(x) for x in list(a) + list(b) if np.isfinite(x)]
    scale = max(fin) if fin else 1.0
    for i, (x, y) in enumerate(zip(a, b)):
        ok = close(float(x), float(y), rtol=rtol) if elementwise else close(float(x), float(y), rtol=rtol, scale=scale)
        if not ok and elementwise and abs(x) < 1e-300 and abs(y) < 1e-300:
            ok = True  # subnormal range
        if not ok:
            return False, f"entry {i}: implementation {float(x)!r}, model {float(y)!r}"
    return True, ""


def _cases(ctx: Ctx):
    """-> list of dict(cls, n, line, call, nontrivial, tag, rtol, elementwise)"""
    og = _og()
    rng = ctx.rng
    ns = list(range(-1, 41))
    extra = ctx.n(10, 400)
    big = sorted({rng.randrange(41, 401) for _ in range(extra)} | {rng.randrange(20, 200) * 2 + 1 for _ in range(extra // 2)})
    cases = []

    def add(cls, n, line, call, nontrivial, tag, rtol=1e-10, elementwise=False):
        cases.append(dict(cls=cls, n=n, line=line, call=call, nontrivial=nontrivial, tag=tag, rtol=rtol, elementwise=elementwise))

    def gv(pw):
        return fvec(pw[0]) + " " + fvec(pw[1])

    for n in ns + big:
        small = n <= 40
        for cls in NOARG:
            add(cls, n, f"C01.make {cls} {n}", (lambda c=cls, n=n: getattr(og, c)(n)), n >= 3, cls)
        # substitution rules
        for cls in STEP:
            dflt = STEP_DEFAULT.get(cls, 0.1)
            hs = [dflt]
            if small or ctx.thorough or rng.random() < 0.5:
                hs.append(round(rng.uniform(0.01, 0.6), 3))
            if n in (3, 4, 7) and cls != "TanhSinh":
                hs += [0.0, -0.25]
            if n == 5 and cls == "TanhSinh":
                hs += [-0.1]
            for h in hs:
                kh = abs(h) * max(abs(n), 1) / 2
                add(cls, n, f"C01.make {cls} {n} {f2b(h)}", (lambda c=cls, n=n, h=h: getattr(og, c)(n, h)),
                    n >= 3 and h != dflt, cls, rtol=(1e-11 if kh <= 6 else 1e-6), elementwise=True)
        # Gauss wrappers
        # eigenvalue solves (leggauss, roots_genlaguerre) are O(n^3): quick tier keeps them at n <= 160
        eig_ok = ctx.thorough or n <= 160
        for cls in GAUSS:
            if cls == "GaussLegendre" and not eig_ok:
                continue
            add(cls, n, f"C01.make {cls} {n} " + gv(_gauss_for(cls, n)), (lambda c=cls, n=n: getattr(og, c)(n)), n >= 3, cls, rtol=1e-11)
        if n <= 200 and eig_ok:
            alphas = [0.0]
            if small or ctx.thorough or rng.random() < 0.5:
                alphas.append(round(rng.uniform(-0.95, 6.0), 3))
                alphas.append(round(rng.uniform(-0.99, -0.01), 3))      # (-1, 0): where x^(-alpha) is a positive power
            if n in (3, 8, 21):
                alphas += [1e-3, -1e-3, 1e-12, -1e-12]                   # either side of alpha = 0
            if n in (2, 5):
                alphas += [-1.0, -2.5]
            for a in alphas:
                add("GaussLaguerre", n, f"C01.make GaussLaguerre {n} {f2b(a)} " + gv(_gauss_for("GaussLaguerre", n, a)),
                    (lambda n=n, a=a: og.GaussLaguerre(n, a)), n >= 3 and a != 0.0, "GaussLaguerre", rtol=1e-11, elementwise=True)
        # Trefethen polynomial maps
        ds = [9, 5, 1] if small else [rng.choice([1, 5, 9])]
        if n in (3, 6):
            ds += [3, 0, 7]
        for d in ds:
            add("TrefethenCC", n, f"C01.make TrefethenCC {n} {d}", (lambda n=n, d=d: og.TrefethenCC(n, d)), n >= 3 and d != 9, "TrefethenCC")
            add("TrefethenGC2", n, f"C01.make TrefethenGC2 {n} {d} " + gv(_gauss_for("TrefethenGC2", n)),
                (lambda n=n, d=d: og.TrefethenGC2(n, d)), n >= 3 and d != 9, "TrefethenGC2")
        rhos = [1.1] + ([round(rng.uniform(1.02, 4.0), 3)] if small or ctx.thorough or rng.random() < 0.5 else [])
        for rho in rhos:
            add("TrefethenStripCC", n, f"C01.make TrefethenStripCC {n} {f2b(rho)}", (lambda n=n, r=rho: og.TrefethenStripCC(n, r)),
                n >= 3 and rho != 1.1, "TrefethenStripCC", rtol=1e-9)
            add("TrefethenStripGC2", n, f"C01.make TrefethenStripGC2 {n} {f2b(rho)} " + gv(_gauss_for("TrefethenStripGC2", n)),
                (lambda n=n, r=rho: og.TrefethenStripGC2(n, r)), n >= 3 and rho != 1.1, "TrefethenStripGC2", rtol=1e-9)
        # general versions over a base rule
        for _ in range(2 if small else 1):
            base = rng.choice(BASES if eig_ok else [b for b in BASES if b not in ("GaussLegendre", "GaussLaguerre")])
            d = rng.choice([1, 5, 9, 9])
            rho = round(rng.uniform(1.02, 4.0), 3)
            gb = "GaussChebyshevType2" if base in ("TrefethenGC2", "TrefethenStripGC2") else base
            pw = _gauss_for(gb, n)
            elementwise = False  # mapped values of tiny/huge base nodes cancel in the strip map: compare on the scale of the vector
            add("TrefethenGeneral", n, f"C01.make TrefethenGeneral {n} {base} {d} " + gv(pw),
                (lambda n=n, b=base, d=d: og.TrefethenGeneral(n, getattr(og, b), d)), n >= 3, f"TrefethenGeneral:{base}", rtol=1e-9,
                elementwise=elementwise)
            add("TrefethenStripGeneral", n, f"C01.make TrefethenStripGeneral {n} {base} {f2b(rho)} " + gv(pw),
                (lambda n=n, b=base, r=rho: og.TrefethenStripGeneral(n, getattr(og, b), r)), n >= 3, f"TrefethenStripGeneral:{base}",
                rtol=1e-9, elementwise=elementwise)
        if n == 4:
            add("TrefethenGeneral", n, "C01.make TrefethenGeneral 4 - 9 0 0", (lambda: og.TrefethenGeneral(4, int, 9)), False, "TrefethenGeneral:not-a-grid")
    return cases


def _selfcheck_translation(ctx: Ctx):
    """Every generated definition evaluated by the driver against the source expression it came from."""
    from ..translate import onedgrid as tr
    og = _og()
    rng = ctx.rng
    try:
        series, subst = tr.python_side()
    except tr.Untranslatable as e:
        # the source left the vocabulary of the translator: the generated definitions no longer describe it.  Reported
        # here; the constructor comparison and the oracle below still run and look for a concrete failing input.
        ctx.fail("corr", "gen:translator", f"translator cannot carry the current source: {e}")
        return
    lines, want, what = [], [], []
    for cls, exprs in series.items():
        for n in list(range(2, 30)) + [rng.randrange(30, 500) for _ in range(6)]:
            env = {"npoints": n, "np": np}
            for name in ("jmed", "nsum"):
                if name in exprs:
                    env[name] = eval(exprs[name], {}, env)
            for name, e in exprs.items():
                if name in ("denom", "freq"):
                    j0 = int(eval(exprs["jOff"], {}, env))
                    for j in (j0, j0 + 1, j0 + 2, j0 + 5, j0 + rng.randrange(1, 300)):
                        v = eval(e, {}, {**env, "j": j})
                        lines.append(f"C01.nat {cls}.{name} {n} {j}")
                        want.append(f"ok {int(v)}")
                        what.append(f"{cls}.{name}(n={n}, j={j}) = {e}")
                else:
                    v = eval(e, {}, env)
                    if int(v) < 0:
                        continue  # Python would raise on a negative length; covered by the constructor comparison
                    lines.append(f"C01.nat {cls}.{name} {n}")
                    want.append(f"ok {int(v)}")
                    what.append(f"{cls}.{name}(n={n}) = {e}")
    for cls, r in subst.items():
        for n in list(range(1, 26, 2)) + [2 * rng.randrange(13, 300) + 1]:
            env = {"npoints": n, "np": np}
            exec(r["py_index"], {}, env)
            k = env["__k"]
            lines += [f"C01.int {cls}.kFirst {n}", f"C01.nat {cls}.kLen {n}"]
            want += [f"ok {int(k[0])}", f"ok {len(k)}"]
            what += [f"{cls} first index (n={n}): {r['py_index']}"] * 2
    model = driver_batch(lines)
    for ln, w, m, wh in zip(lines, want, model, what):
        ctx.count(ln.split(), nontrivial=False, tag="gen:int")
        if w != m:
            ctx.fail("corr", "gen:" + ln.split()[1], f"generated definition differs from the source expression {wh}: source {w}, Lean {m}",
                     witness={"op": ln, "source": w, "lean": m})
    # float-valued generated functions
    lines, want, what = [], [], []
    for f in ("g2", "derg2", "g3", "derg3"):
        for x in [-1.0, 1.0, 0.0] + [rng.uniform(-1, 1) for _ in range(12)]:
            lines.append(f"C01.fn {f} {f2b(x)}")
            want.append(float(getattr(og, "_" + f)(np.float64(x))))
            what.append((f, x))
    for _ in range(25):
        rho = rng.uniform(1.02, 5.0)
        for s in [rng.uniform(-1, 1), rng.choice([-1.0, 1.0, 1 - 1e-9, -1 + 5e-9, 1 - 1e-7])]:
            lines.append(f"C01.fn gstrip {f2b(rho)} {f2b(s)}")
            want.append(float(og._gstrip(rho, np.array([s]))[0]))
            what.append(("gstrip", rho, s))
            lines.append(f"C01.fn dergstrip {f2b(rho)} {f2b(s)}")
            with np.errstate(all="ignore"):
                want.append(float(og._dergstrip(rho, np.array([s]))[0]))
            what.append(("dergstrip", rho, s))
    with warnings.catch_warnings():
        warnings.simplefilter("ignore")
        for cls, r in subst.items():
            for _ in range(4):
                n = 2 * rng.randrange(0, 12) + 1
                if cls == "TanhSinh":
                    n = max(n, 3)
                h = rng.uniform(0.02, 0.5)
                g = getattr(og, cls)(n, h)
                k0 = -(n - 1) // 2
                for i in range(n):
                    lines.append(f"C01.fn {cls}.node {f2b(float(k0 + i))} {f2b(h)}")
                    want.append(float(g.points[i]))
                    what.append((cls + ".node", k0 + i, h))
                    lines.append(f"C01.fn {cls}.weight {f2b(float(k0 + i))} {f2b(h)}")
                    want.append(float(g.weights[i]))
                    what.append((cls + ".weight", k0 + i, h))
    model = driver_batch(lines)
    for ln, w, m, wh in zip(lines, want, model, what):
        ctx.count([wh[0]] + [float(x) for x in wh[1:]], nontrivial=False, tag="gen:float")
        got = Tokens(m)
        ok = got.tok() == "ok"
        v = got.flt() if ok else float("nan")
        if not ok or not close(w, v, rtol=1e-11, atol=1e-300):
            ctx.fail("corr", "gen:" + wh[0], f"generated {wh[0]}{tuple(wh[1:])}: source gives {w!r}, Lean {v!r}",
                     witness={"op": ln, "source": w, "lean": v})


# ----------------------------------------------------------------------------------------------
# constructor calls as source text: `src` is evaluated with {og, np}; (cls, args) is the canonical
# reading (Python int / float / class name) that the model line and the reference are built from
# ----------------------------------------------------------------------------------------------
PARAM_KW = {"TanhSinh": "delta", "GaussLaguerre": "alpha", "TrefethenCC": "d", "TrefethenGC2": "d",
            "TrefethenStripCC": "rho", "TrefethenStripGC2": "rho", **{c: "h" for c in STEP[1:]}}
PARAM_DEFAULT = {"TanhSinh": 0.1, "ExpSinh": 1.0, "GaussLaguerre": 0.0, "TrefethenCC": 9, "TrefethenGC2": 9,
                 "TrefethenStripCC": 1.1, "TrefethenStripGC2": 1.1, "TrefethenGeneral": 9, "TrefethenStripGeneral": 1.1,
                 **{c: 0.1 for c in STEP[2:]}}


def _gv(pw):
    return fvec(pw[0]) + " " + fvec(pw[1])


def _model_line(cls, n, *par):
    """Driver line of the constructor `cls(n, *par)` (canonical values; missing parameter = the default of the source)."""
    n = int(n)
    if cls in NOARG:
        return f"C01.make {cls} {n}"
    if cls in STEP or cls == "TrefethenStripCC":
        return f"C01.make {cls} {n} {f2b(par[0] if par else PARAM_DEFAULT[cls])}"
    if cls in GAUSS:
        return f"C01.make {cls} {n} " + _gv(_gauss_for(cls, n))
    if cls == "GaussLaguerre":
        a = float(par[0]) if par else 0.0
        return f"C01.make GaussLaguerre {n} {f2b(a)} " + _gv(_gauss_for("GaussLaguerre", n, a))
    if cls == "TrefethenCC":
        return f"C01.make TrefethenCC {n} {int(par[0]) if par else 9}"
    if cls == "TrefethenGC2":
        return f"C01.make TrefethenGC2 {n} {int(par[0]) if par else 9} " + _gv(_gauss_for("TrefethenGC2", n))
    if cls == "TrefethenStripGC2":
        return f"C01.make TrefethenStripGC2 {n} {f2b(par[0] if par else 1.1)} " + _gv(_gauss_for("TrefethenStripGC2", n))
    if cls in ("TrefethenGeneral", "TrefethenStripGeneral"):
        base = par[0]
        gb = "GaussChebyshevType2" if base in ("TrefethenGC2", "TrefethenStripGC2") else base
        pw = _gauss_for(gb, n)
        if cls == "TrefethenGeneral":
            return f"C01.make TrefethenGeneral {n} {base} {int(par[1]) if len(par) > 1 else 9} " + _gv(pw)
        return f"C01.make TrefethenStripGeneral {n} {base} {f2b(par[1] if len(par) > 1 else 1.1)} " + _gv(pw)
    raise KeyError(cls)


def _src(cls, n_src, *par_src):
    return f"og.{cls}({', '.join([n_src, *par_src])})"


def _canon_d(d):
    """what `d == 1 / 5 / 9` decides for the value d: the integer, or 0 (rejected)"""
    try:
        return int(d) if d == int(d) else 0
    except (TypeError, ValueError):
        return 0


def _compare(ctx, key, label, impl, mod, rtol, elementwise, witness, allow=()):
    """one constructor result against the model's; -> True iff they agree"""
    if isinstance(impl, str) and impl in allow:
        return True
    if isinstance(impl, str) or isinstance(mod, str):
        if impl is not mod and impl != mod:
            ctx.fail("corr", key, f"{label}: implementation {impl if isinstance(impl, str) else 'ok'}, model {mod if isinstance(mod, str) else 'ok'}",
                     witness=witness)
            return False
        return True
    if (impl[2], impl[3]) != (mod[2], mod[3]):
        ctx.fail("corr", key, f"{label}: domain {impl[2:]} vs model {mod[2:]}", witness=witness)
        return False
    for nm, a, b in (("points", impl[0], mod[0]), ("weights", impl[1], mod[1])):
        ok, why = _vec_close(a, b, rtol, elementwise)
        if not ok:
            ctx.fail("corr", key, f"{label}: {nm} differ, {why}", witness={**witness, "which": nm, "detail": why})
            return False
    return True


def _tol(cls, n, par):
    """(rtol, elementwise) of the comparison for the class (same policy as `_cases`)"""
    if cls in STEP:
        h = par[0] if par else PARAM_DEFAULT[cls]
        return (1e-11 if abs(h) * max(abs(n), 1) / 2 <= 6 else 1e-6), True
    if cls in GAUSS:
        return 1e-11, False
    if cls == "GaussLaguerre":
        return 1e-11, True
    if "Strip" in cls or "General" in cls:
        return 1e-9, False
    return 1e-10, False


def _kind_cases(ctx: Ctx):
    """Classes 2, 4, 6 of the round-2 guide: `npoints` as NumPy integer / bool / float / 0-d array, the extra
    parameter as NumPy scalar / bool / 0-d array and at the edges of its range, keyword instead of positional.
    -> list of dict(cls, args, src, line, rtol, elementwise, allow, tag, nontrivial)"""
    rng = ctx.rng
    out = []

    def add(cls, args, src, tag, allow=(), nontrivial=True, rtol=None, elementwise=None):
        r, e = _tol(cls, args[0], args[1:])
        out.append(dict(cls=cls, args=list(args), src=src, line=_model_line(cls, *args), rtol=rtol or r,
                        elementwise=e if elementwise is None else elementwise, allow=tuple(allow), tag=tag, nontrivial=nontrivial))

    int_kinds = [("np.int64({})", ()), ("np.int32({})", ()), ("np.intp({})", ()), ("np.int16({})", ()), ("np.array({})", ("value-error",))]
    float_kinds = [("{}.0", ("type-error", "index-error")), ("np.float64({})", ("type-error", "index-error"))]
    for cls in ALL26:
        odd = cls in STEP or cls == "Simpson"
        n = 2 * rng.randrange(1, 6) + 1 if odd else rng.randrange(2, 12)
        extra_src, extra = (), ()
        if cls == "TrefethenGeneral":
            extra_src, extra = ("og.MidPoint", "5"), ("MidPoint", 5)
        elif cls == "TrefethenStripGeneral":
            extra_src, extra = ("og.FejerFirst", "1.3"), ("FejerFirst", 1.3)
        for m in (5, n):
            for fmt, allow in int_kinds + float_kinds:
                add(cls, (m, *extra), _src(cls, fmt.format(m), *extra_src), "npoints:" + fmt.split("(")[0].format("float"), allow)
        # bool is an int: True == 1
        add(cls, (1, *extra), _src(cls, "True", *extra_src), "npoints:bool", nontrivial=False)
        # keyword instead of positional
        kw = [f"npoints={n}"]
        if cls in PARAM_KW:
            kw_par = {"d": 5, "rho": 1.25, "alpha": 0.5}.get(PARAM_KW[cls], 0.25)
            add(cls, (n, kw_par), _src(cls, *kw, f"{PARAM_KW[cls]}={kw_par!r}"), "keyword")
            add(cls, (n, kw_par), _src(cls, f"{PARAM_KW[cls]}={kw_par!r}", *kw), "keyword")
        elif cls == "TrefethenGeneral":
            add(cls, (n, "Trapezoidal", 5), _src(cls, "d=5", "quadrature=og.Trapezoidal", *kw), "keyword")
        elif cls == "TrefethenStripGeneral":
            add(cls, (n, "Trapezoidal", 1.25), _src(cls, "rho=1.25", "quadrature=og.Trapezoidal", *kw), "keyword")
        else:
            add(cls, (n,), _src(cls, *kw), "keyword")
    # extra parameters: NumPy scalar kinds (value exactly representable) and the edges of the admissible range
    for cls in STEP:
        for n in (7, 1 if cls != "TanhSinh" else 3):
            kinds = ["np.float64(0.25)", "np.int64(1)", "True", "np.array(0.25)"]
            if cls != "TanhSinh":
                kinds += ["np.float32(0.25)", "np.float16(0.25)"]   # TanhSinh: a float32 step loses precision (listed finding, oracle)
            for k in kinds:
                add(cls, (n, float(eval(k, {"np": np}))), _src(cls, str(n), k), "param:kind")
            for h in (0.5, 1e-8, 2.0, 5.0, 5e-324, 1e-300, 800.0, 0.0, -0.25):   # the moderate ones first (failure cap per key)
                add(cls, (n, h), _src(cls, str(n), repr(h)), "param:edge", nontrivial=h > 0)
    for n in (2, 7):
        for k in ("np.float64(0.5)", "np.int64(2)", "True", "np.array(0.5)"):
            add("GaussLaguerre", (n, float(eval(k, {"np": np}))), _src("GaussLaguerre", str(n), k), "param:kind")
        for a in (-0.995, 50.0, -0.999999, -1 + 1e-12, float(np.nextafter(-1.0, 0.0)), -1.0, 170.0, 1000.0):
            add("GaussLaguerre", (n, a), _src("GaussLaguerre", str(n), repr(a)), "param:edge", nontrivial=a > -1, rtol=1e-9)
    for cls in ("TrefethenStripCC", "TrefethenStripGC2"):
        for n in (3, 8):
            for k in ("np.float64(1.5)", "np.int64(2)", "np.array(1.5)"):
                add(cls, (n, float(eval(k, {"np": np}))), _src(cls, str(n), k), "param:kind")
            for rho in (1.02, 10.0, 1.0001, 1e6, 1 + 1e-9, float(np.nextafter(1.0, 2.0)), 1e300, 1.0, 0.5):
                add(cls, (n, rho), _src(cls, str(n), repr(rho)), "param:edge", nontrivial=rho > 1, rtol=1e-8)
    for n in (3, 8):
        add("TrefethenStripGeneral", (n, "MidPoint", 1.0001), _src("TrefethenStripGeneral", str(n), "og.MidPoint", "1.0001"), "param:edge", rtol=1e-8)
        add("TrefethenStripGeneral", (n, "ClenshawCurtis", 1e6), _src("TrefethenStripGeneral", str(n), "og.ClenshawCurtis", "np.float64(1e6)"), "param:edge", rtol=1e-8)
    for cls in ("TrefethenCC", "TrefethenGC2"):
        for k in ("np.int64(5)", "np.int32(9)", "5.0", "np.float64(9.0)", "True", "np.array(5)", "5.5", "'5'", "None", "3", "-9"):
            add(cls, (6, _canon_d(eval(k, {"np": np}))), _src(cls, "6", k), "param:kind:d", nontrivial=_canon_d(eval(k, {"np": np})) in (1, 5, 9))
    for k in ("np.int64(5)", "9.0", "True", "5.5", "None"):
        add("TrefethenGeneral", (6, "FejerFirst", _canon_d(eval(k, {"np": np}))), _src("TrefethenGeneral", "6", "og.FejerFirst", k), "param:kind:d")
    return out


def _large_cases(ctx: Ctx):
    """very large n for the rules that need no eigenvalue solve (class 4)"""
    out = []
    N = 2000
    for cls in NOARG + ["GaussChebyshev", "GaussChebyshevType2"]:
        n = N + 1 if cls == "Simpson" else N
        out.append((cls, (n,)))
    for cls in STEP:
        out.append((cls, (N + 1, 0.002 if cls in ("TanhSinh", "LogExpSinh") else 0.004)))
    out += [("TrefethenCC", (N, 9)), ("TrefethenGC2", (N, 5)), ("TrefethenStripCC", (N, 1.1)), ("TrefethenStripGC2", (N, 1.4)),
            ("TrefethenGeneral", (N, "Trapezoidal", 9)), ("TrefethenStripGeneral", (N, "MidPoint", 1.1))]
    if ctx.thorough:
        out += [("GaussLaguerre", (150, 0.5))]   # (leggauss(2000) alone takes minutes: Gauss-Legendre stays at n <= 400)
    # round 5, class 21: sizes just above a power of two that are no multiple of 2^k or {1,2,5} 10^k
    for cls in ["UniformInteger", "GaussChebyshevLobatto", "Trapezoidal", "Simpson", "MidPoint", "GaussChebyshev", "GaussChebyshevType2"]:
        out.append((cls, (4099,)))
    for cls in ["RectangleRuleSineEndPoints", "ClenshawCurtis", "FejerFirst", "FejerSecond"]:
        out.append((cls, (1031,)))
    for cls in STEP:
        out.append((cls, (4099, 0.001 if cls in ("TanhSinh", "LogExpSinh") else 0.002)))
    out += [("TrefethenGC2", (4099, 9)), ("TrefethenStripGC2", (4099, 1.3)), ("TrefethenCC", (1031, 5)), ("TrefethenStripCC", (1031, 1.2)),
            ("TrefethenGeneral", (4099, "GaussChebyshev", 5)), ("TrefethenStripGeneral", (4099, "Trapezoidal", 1.7))]
    res = []
    for cls, args in out:
        src = _src(cls, *[f"og.{a}" if isinstance(a, str) else repr(a) for a in args])
        r, e = _tol(cls, args[0], args[1:])
        res.append(dict(cls=cls, args=list(args), src=src, line=_model_line(cls, *args), rtol=max(r, 1e-10), elementwise=e,
                        allow=(), tag="large-n", nontrivial=True))
    return res


def _eval_src(og, src):
    return eval(src, {"og": og, "np": np})


def _ctor_line(line):
    """the same constructor call, answered by the constructor regenerated statement by statement (Gen/OneDCtor.lean)"""
    assert line.startswith("C01.make ")
    return "C01.ctor " + line[len("C01.make "):]


def _run_src_cases(ctx: Ctx, cases):
    og = _og()
    lines = [c["line"] for c in cases]
    answers = driver_batch(lines + [_ctor_line(l) for l in lines])
    model, gen = answers[:len(lines)], answers[len(lines):]
    for c, ans, gans in zip(cases, model, gen):
        impl = _impl(lambda: _eval_src(og, c["src"]))
        mod = _parse(ans)
        rejected = isinstance(impl, str)
        ctx.count([c["src"]], nontrivial=c["nontrivial"] and not rejected and c["args"][0] >= 3,
                  tag=c["tag"] + (":" + impl if rejected else ""))
        w = {"cls": c["cls"], "args": c["args"], "src": c["src"], "prelude": []}
        _compare(ctx, f"make:{c['cls']}", c["src"], impl, mod, c["rtol"], c["elementwise"], w, allow=c["allow"])
        ctx.count(["ctor", c["src"]], nontrivial=False, tag="gen:ctor")
        _compare(ctx, f"ctor:{c['cls']}", c["src"] + " [regenerated constructor]", impl, _parse(gans), c["rtol"], c["elementwise"], w,
                 allow=c["allow"])


def _repeat_specs(ctx: Ctx):
    """the constructor calls of the repeated-construction schedule: every class at two sizes (the small one shared by all
    classes), parametrised classes with the default and with another parameter"""
    rng = ctx.rng
    specs = []
    for cls in ALL26:
        odd = cls in STEP or cls == "Simpson"
        sizes = [7, 2 * rng.randrange(4, 16) + 1 if odd else rng.randrange(8, 33)]
        for n in sizes:
            if cls in NOARG or cls in GAUSS:
                specs.append((cls, (n,)))
            elif cls in STEP:
                specs += [(cls, (n,)), (cls, (n, round(rng.uniform(0.05, 0.3), 3)))]
            elif cls == "GaussLaguerre":
                specs += [(cls, (n,)), (cls, (n, round(rng.uniform(-0.9, 3.0), 2)))]
            elif cls in ("TrefethenCC", "TrefethenGC2"):
                specs += [(cls, (n,)), (cls, (n, rng.choice([1, 5])))]
            elif cls in ("TrefethenStripCC", "TrefethenStripGC2"):
                specs += [(cls, (n,)), (cls, (n, round(rng.uniform(1.05, 3.0), 3)))]
            elif cls == "TrefethenGeneral":
                specs.append((cls, (n, rng.choice(["GaussChebyshev", "GaussChebyshevType2", "ClenshawCurtis", "MidPoint", "GaussLegendre"]), rng.choice([1, 5, 9]))))
            else:
                specs.append((cls, (n, rng.choice(["GaussChebyshev", "GaussChebyshevType2", "FejerFirst", "Trapezoidal", "GaussLegendre"]), round(rng.uniform(1.05, 3.0), 3))))
    return specs


def _spec_src(cls, args):
    return _src(cls, *[f"og.{a}" if isinstance(a, str) else repr(a) for a in args])


def _corr_repeated(ctx: Ctx):
    """Class 1 and 3 of the round-2 guide (state carried between calls, object identity): every constructor call of
    `_repeat_specs` is made three times in one process, in three different orders, interleaved with the other classes and
    the other sizes; each result is compared with the (stateless) model when it is built and once more after the whole
    schedule; no two live objects may share memory; finally the arrays of an earlier object are overwritten in place and
    the same call is made again."""
    og = _og()
    rng = ctx.rng
    specs = _repeat_specs(ctx)
    lines = [_model_line(cls, *args) for cls, args in specs]
    model = [_parse(a) for a in driver_batch(lines)]
    order = []
    for _ in range(3):
        idx = list(range(len(specs)))
        rng.shuffle(idx)
        order += idx
    built = []     # (spec index, object, position in the schedule)
    history = []   # constructor sources in call order
    for pos, k in enumerate(order):
        cls, args = specs[k]
        src = _spec_src(cls, args)
        with warnings.catch_warnings():
            warnings.simplefilter("ignore")
            try:
                g = _eval_src(og, src)
            except Exception as e:  # every spec is admissible
                ctx.fail("corr", f"make:{cls}", f"{src} (call {pos} of the repeated schedule) raised {type(e).__name__}: {e}",
                         witness={"cls": cls, "args": list(args), "src": src, "prelude": _prelude(history, cls)})
                history.append(src)
                continue
        r, e = _tol(cls, args[0], args[1:])
        impl = (np.asarray(g.points, dtype=float), np.asarray(g.weights, dtype=float), float(g.domain[0]), float(g.domain[1]))
        nth = sum(1 for kk in order[:pos] if kk == k) + 1
        ctx.count([src, nth], nontrivial=True, tag=f"repeat:{nth}")
        _compare(ctx, f"make:{cls}", f"{src}, construction no. {nth} of this call in one process (call {pos} of the schedule)",
                 impl, model[k], r, e, {"cls": cls, "args": list(args), "src": src, "prelude": _prelude(history, cls), "nth": nth})
        built.append((k, g, pos))
        history.append(src)
    # every object once more, after everything else was built
    for k, g, pos in built:
        cls, args = specs[k]
        src = _spec_src(cls, args)
        r, e = _tol(cls, args[0], args[1:])
        impl = (np.asarray(g.points, dtype=float), np.asarray(g.weights, dtype=float), float(g.domain[0]), float(g.domain[1]))
        ctx.count([src, "recheck", pos], nontrivial=False, tag="repeat:recheck")
        _compare(ctx, f"make:{cls}", f"{src} built at call {pos}, read again after the later constructions", impl, model[k], r, e,
                 {"cls": cls, "args": list(args), "src": src, "prelude": history[:pos], "later": history[pos + 1:][:60], "recheck": True})
    # independent arrays
    arrays = [(i, nm, np.asarray(getattr(g, nm))) for i, (k, g, pos) in enumerate(built) for nm in ("points", "weights")]
    bb = np.byte_bounds if hasattr(np, "byte_bounds") else np.lib.array_utils.byte_bounds
    bounds = sorted((bb(a), i, nm) for i, nm, a in arrays if a.size)
    cur = None   # the interval reaching furthest to the right so far
    for b1, i1, n1 in bounds:
        if cur is not None and b1[0] < cur[0][1]:
            b0, i0, n0 = cur
            if np.shares_memory(np.asarray(getattr(built[i0][1], n0)), np.asarray(getattr(built[i1][1], n1))):
                s0, s1 = _spec_src(*specs[built[i0][0]]), _spec_src(*specs[built[i1][0]])
                ctx.fail("corr", f"make:{specs[built[i0][0]][0]}", f"{n0} of {s0} (call {built[i0][2]}) and {n1} of {s1} (call {built[i1][2]}) share memory",
                         witness={"cls": specs[built[i1][0]][0], "args": list(specs[built[i1][0]][1]), "src": s1, "prelude": [s0], "mutate": True})
        if cur is None or b1[1] > cur[0][1]:
            cur = (b1, i1, n1)
    # overwrite the arrays of one object per spec in place, then build the same rule again
    seen = set()
    for k, g, pos in built:
        if k in seen:
            continue
        seen.add(k)
        cls, args = specs[k]
        src = _spec_src(cls, args)
        for nm in ("points", "weights"):
            a = getattr(g, nm)
            try:
                a[...] = -7 if a.dtype.kind in "iu" else np.nan
            except ValueError:
                pass  # read-only arrays cannot be corrupted through the object
        with warnings.catch_warnings():
            warnings.simplefilter("ignore")
            try:
                g2 = _eval_src(og, src)
            except Exception as e:
                ctx.fail("corr", f"make:{cls}", f"{src} raised {type(e).__name__} after the arrays of an earlier {cls} object were overwritten",
                         witness={"cls": cls, "args": list(args), "src": src, "prelude": [src], "mutate": True})
                continue
        r, e = _tol(cls, args[0], args[1:])
        impl = (np.asarray(g2.points, dtype=float), np.asarray(g2.weights, dtype=float), float(g2.domain[0]), float(g2.domain[1]))
        ctx.count([src, "after-mutation"], nontrivial=True, tag="repeat:after-mutation")
        _compare(ctx, f"make:{cls}", f"{src} built after points/weights of an earlier object of the same call were overwritten in place",
                 impl, model[k], r, e, {"cls": cls, "args": list(args), "src": src, "prelude": [src], "mutate": True})


def _prelude(history, cls):
    """the earlier constructor calls that can matter for a call of `cls`: same class, its base classes, and the last few"""
    keep = [h for h in history if f"og.{cls}(" in h or (cls.startswith("Trefethen") and any(b in h for b in ("ClenshawCurtis", "GaussChebyshevType2")))]
    return (keep + history[-5:])[-40:]


def _corr_fejer2_corrected(ctx: Ctx):
    """The hand-written complete Fejer-2 series (`FejerSecondCorrected`, Lean, not the code): (a) exact on x^k, k <= n-1,
    against rationals -- the independent reading of its definition; (b) implementation weights + contribution of the
    missing term (`C01.fejer2missing`) = corrected weights, same nodes -- ties `fejer2_code_weights_defect` to the code."""
    og = _og()
    ns = list(range(2, 41)) + sorted({ctx.rng.randrange(41, 300) for _ in range(ctx.n(4, 40))})
    ans = driver_batch([f"C01.make FejerSecondCorrected {n}" for n in ns] + [f"C01.fejer2missing {n}" for n in ns])
    for i, n in enumerate(ns):
        cor = _parse(ans[i])
        t = Tokens(ans[len(ns) + i])
        ctx.count(["FejerSecondCorrected", n], nontrivial=n >= 3, tag="fejer2-corrected")
        if isinstance(cor, str) or t.tok() != "ok":
            ctx.fail("corr", "fejer2:corrected", f"FejerSecondCorrected({n}): model answered {ans[i][:40]} / {ans[len(ns) + i][:40]}")
            continue
        miss = np.array(t.fvec())
        pts, wts = [float(x) for x in cor[0]], [float(x) for x in cor[1]]
        for k in range(min(n, 90)):
            got = math.fsum(w * x**k for w, x in zip(wts, pts))
            want = Fraction(0) if k % 2 else Fraction(2, k + 1)
            if not abs(got - float(want)) <= 2e-12 * max(1, n / 64):
                ctx.fail("corr", "fejer2:corrected", f"hand-written FejerSecondCorrected({n}) does not integrate x^{k}: {got!r} vs {want}",
                         witness={"n": n, "k": k})
                break
        g = og.FejerSecond(n)
        ok1, why1 = _vec_close(np.asarray(g.points, dtype=float), cor[0], 1e-11, False)
        ok2, why2 = _vec_close(np.asarray(g.weights, dtype=float) + miss, cor[1], 1e-10, False)
        if not (ok1 and ok2):
            ctx.fail("corr", "fejer2:corrected",
                     f"FejerSecond({n}): implementation + missing term differs from the complete series ({'nodes ' + why1 if not ok1 else 'weights ' + why2})",
                     witness={"cls": "FejerSecond", "args": [n], "src": f"og.FejerSecond({n})", "prelude": []})


# ----------------------------------------------------------------------------------------------
# round 3: OneDGrid.__init__ itself (regenerated: Gen.OneD.OneDGrid.init), next to its 1e-7 slack
# ----------------------------------------------------------------------------------------------
def _bits_equal(a, b):
    a, b = np.asarray(a, dtype=float), np.asarray(b, dtype=float)
    return a.shape == b.shape and all((x == y) or (x != x and y != y) for x, y in zip(a.tolist(), b.tolist()))


def _init_cases(ctx: Ctx):
    """-> list of (points, weights, domain or None, tag).  Class 7: the extreme point at the offsets 0, 0.01, 0.5, 0.99, 1 - 1ulp,
    1 (the very float `lo - 1e-7`), 1 + 1ulp, 1.01, 2, 100, 1e4 times the slack outside either end of the declared domain,
    alone and among interior points at a random position; NaN / +-inf points; empty and mismatched arrays; descending and
    degenerate domains; no domain."""
    rng = ctx.rng
    cases = []
    domains = [(-1.0, 1.0), (0.0, math.inf), (0.0, 5.0), (2.0, 2.0), (-3.5, -1.25), (1.0e6, 1.0e6 + 1), (-1.0e-3, 1.0e-3), (0, 1), (-1, 1)]
    facs = [0.0, 0.01, 0.5, 0.99, 1.01, 2.0, 100.0, 1.0e4]

    def interior(lo, hi, k):
        top = hi if math.isfinite(hi) else lo + 50.0
        return [lo + (top - lo) * rng.random() for _ in range(k)]

    for lo, hi in domains:
        for side in ("below", "above"):
            if side == "above" and not math.isfinite(hi):
                continue
            edge = (lo - 1e-7) if side == "below" else (hi + 1e-7)       # the float the code compares with
            specials = [(f, (lo - f * 1e-7) if side == "below" else (hi + f * 1e-7)) for f in facs]
            specials += [("edge", edge), ("edge-1ulp", float(np.nextafter(edge, -math.inf))), ("edge+1ulp", float(np.nextafter(edge, math.inf)))]
            for f, x in specials:
                k = rng.choice([0, 0, 1, 3, 8])
                pts = interior(lo, hi, k)
                pts.insert(rng.randrange(len(pts) + 1), x)
                cases.append((np.array(pts), np.array([rng.uniform(-1, 2) for _ in pts]), (lo, hi), f"init:{side}:{f}"))
    lo, hi = -1.0, 1.0
    base = interior(lo, hi, 4)
    cases += [
        (np.array(base + [math.nan]), np.ones(5), (lo, hi), "init:nan"),
        (np.array([math.nan] + base + [7.0]), np.ones(6), (lo, hi), "init:nan+outside"),
        (np.array([math.nan, math.nan]), np.ones(2), (lo, hi), "init:nan"),
        (np.array(base + [math.inf]), np.ones(5), (lo, hi), "init:inf"),
        (np.array(base + [math.inf]), np.ones(5), (0.0, math.inf), "init:inf"),
        (np.array(base + [-math.inf]), np.ones(5), (0.0, math.inf), "init:-inf"),
        (np.array([]), np.array([]), (lo, hi), "init:empty"),
        (np.array([]), np.array([]), None, "init:empty"),
        (np.array([]), np.array([1.0]), None, "init:mismatch"),
        (np.array(base), np.ones(3), (lo, hi), "init:mismatch"),
        (np.array(base), np.ones(5), None, "init:mismatch"),
        (np.array(base), np.ones(4), (1.0, -1.0), "init:descending"),
        (np.array(base), np.ones(4), (1.0, float(np.nextafter(1.0, 0.0))), "init:descending"),
        (np.array([0.5]), np.ones(1), (0.5, 0.5), "init:degenerate"),
        (np.array(base) * 100.0, np.ones(4), None, "init:none"),
        (np.array([3, 1, 2, 0]), np.array([1, 1, 1, 1]), (0, math.inf), "init:int"),
        (np.array([3, 1, 2, -1]), np.array([1.0, 1, 1, 1]), (0, math.inf), "init:int"),
        (np.array(sorted(base))[::-1], np.ones(4), (lo, hi), "init:reversed-view"),
        (np.array(base + [1.0 + 3e-7], dtype=np.float32), np.ones(5, dtype=np.float32), (lo, hi), "init:float32"),
    ]
    ro = np.array(base)
    ro.flags.writeable = False
    cases.append((ro, np.ones(4), (lo, hi), "init:read-only"))
    return cases


def _corr_init(ctx: Ctx):
    from grid.basegrid import OneDGrid
    cases = _init_cases(ctx)
    lines = []
    for p, w, dom, tag in cases:
        d = "none" if dom is None else f"dom {f2b(float(dom[0]))} " + ("inf" if dom[1] == math.inf else f2b(float(dom[1])))
        lines.append(f"C01.init {fvec(np.asarray(p, dtype=float))} {fvec(np.asarray(w, dtype=float))} {d}")
    for (p, w, dom, tag), ans in zip(cases, driver_batch(lines)):
        try:
            g = OneDGrid(p, w, dom)
            impl = (g.points, g.weights, g.domain)
        except ValueError:
            impl = "value-error"
        ctx.count([tag, [float(x) for x in np.asarray(p, dtype=float)], None if dom is None else [float(dom[0]), float(dom[1])]],
                  nontrivial=isinstance(impl, tuple) and len(p) >= 1 and dom is not None, tag=tag.rsplit(":", 1)[0] if tag.count(":") > 1 else tag)
        witness = {"points": [float(x) for x in np.asarray(p, dtype=float)], "weights": [float(x) for x in np.asarray(w, dtype=float)],
                   "domain": None if dom is None else [float(dom[0]), float(dom[1])], "case": tag}
        if not ans.startswith("ok"):
            if impl != ans:
                ctx.fail("corr", "init:OneDGrid", f"OneDGrid.__init__ ({tag}): implementation {'ok' if isinstance(impl, tuple) else impl}, "
                         f"regenerated constructor {ans[:30]}", witness=witness)
            continue
        t = Tokens(ans)
        t.tok()
        mp, mw = t.fvec(), t.fvec()
        lo_t, hi_t = t.tok(), t.tok()
        mdom = None if lo_t == "none" else (b2f(lo_t), math.inf if hi_t == "inf" else b2f(hi_t))
        ok = isinstance(impl, tuple) and _bits_equal(impl[0], mp) and _bits_equal(impl[1], mw) and \
            ((impl[2] is None and mdom is None) or (impl[2] is not None and mdom is not None and tuple(float(x) for x in impl[2]) == mdom))
        if not ok:
            ctx.fail("corr", "init:OneDGrid", f"OneDGrid.__init__ ({tag}): implementation {'rejects' if not isinstance(impl, tuple) else 'differs'}, "
                     f"regenerated constructor accepts", witness=witness)


def _corr_defaults(ctx: Ctx):
    """default values of the extra parameters: the regenerated ones against the signatures"""
    import inspect
    og = _og()
    names = [c for c in ALL26 if c in PARAM_DEFAULT]
    for cls, ans in zip(names, driver_batch([f"C01.default {c}" for c in names])):
        pars = [p for p in inspect.signature(getattr(og, cls).__init__).parameters.values() if p.default is not inspect.Parameter.empty]
        ctx.count(["default", cls], nontrivial=False, tag="gen:default")
        t = Tokens(ans)
        good = t.tok() == "ok" and len(pars) == 1
        if good:
            v = pars[0].default
            tok = t.tok()
            good = (int(tok) == v) if pars[0].name == "d" else (b2f(tok) == float(v))
        if not good:
            ctx.fail("corr", f"ctor:{cls}", f"default parameter of {cls}: signature {[(p.name, p.default) for p in pars]}, regenerated {ans[:40]}",
                     witness={"cls": cls, "args": [7], "src": f"og.{cls}(7" + (", og.MidPoint" if "General" in cls else "") + ")", "prelude": []})


FRESH = """import warnings, json, struct, sys; warnings.filterwarnings('ignore')
import numpy as np
from grid import onedgrid as og
out = []
for src in json.loads(sys.argv[1]):
    try:
        g = eval(src, {'og': og, 'np': np})
        out.append([[struct.unpack('>Q', struct.pack('>d', float(x)))[0] for x in g.points],
                    [struct.unpack('>Q', struct.pack('>d', float(x)))[0] for x in g.weights], [float(g.domain[0]), float(g.domain[1])]])
    except Exception as e:
        out.append(type(e).__name__)
print('@@' + json.dumps(out))
"""


def _corr_fresh_process(ctx: Ctx):
    """Class 11: the *first* constructor calls of a fresh interpreter, each class with a non-default parameter before any
    default call was made (then the default call, then the first again), against the stateless model."""
    import json
    import os
    import subprocess
    import sys
    rng = ctx.rng
    specs = []
    for cls in ALL26:
        n = 2 * rng.randrange(2, 9) + 1 if (cls in STEP or cls == "Simpson") else rng.randrange(4, 17)
        if cls in NOARG or cls in GAUSS:
            specs.append((cls, (n,)))
            continue
        if cls in STEP:
            nd = (n, round(rng.uniform(0.05, 0.3), 3))
        elif cls == "GaussLaguerre":
            nd = (n, round(rng.uniform(-0.9, 3.0), 2))
        elif cls in ("TrefethenCC", "TrefethenGC2"):
            nd = (n, rng.choice([1, 5]))
        elif cls in ("TrefethenStripCC", "TrefethenStripGC2"):
            nd = (n, round(rng.uniform(1.05, 3.0), 3))
        elif cls == "TrefethenGeneral":
            nd = (n, rng.choice(["GaussChebyshev", "ClenshawCurtis", "MidPoint"]), rng.choice([1, 5]))
        else:
            nd = (n, rng.choice(["GaussChebyshevType2", "FejerFirst", "Trapezoidal"]), round(rng.uniform(1.05, 3.0), 3))
        specs += [(cls, nd), (cls, nd[:2] if "General" in cls else nd[:1]), (cls, nd)]
    order = list(range(len(specs)))
    # keep the three calls of one class in their order, shuffle the classes
    groups = {}
    for k, (cls, _) in enumerate(specs):
        groups.setdefault(cls, []).append(k)
    gl = list(groups.values())
    rng.shuffle(gl)
    order = [k for g in gl for k in g]
    srcs = [_spec_src(*specs[k]) for k in order]
    env = dict(os.environ)
    if os.environ.get("GRID_REPO"):
        env["PYTHONPATH"] = os.path.join(os.environ["GRID_REPO"], "src") + os.pathsep + env.get("PYTHONPATH", "")
    try:
        p = subprocess.run([sys.executable, "-c", FRESH, json.dumps(srcs)], env=env, cwd="/", capture_output=True, text=True, timeout=300)
        res = next(json.loads(l[2:]) for l in p.stdout.splitlines() if l.startswith("@@"))
    except Exception as e:
        ctx.fail("corr", "fresh-process", f"fresh interpreter run failed: {type(e).__name__}: {e}")
        return
    model = [_parse(a) for a in driver_batch([_model_line(specs[k][0], *specs[k][1]) for k in order])]
    for pos, (k, r, m) in enumerate(zip(order, res, model)):
        cls, args = specs[k]
        src = srcs[pos]
        ctx.count(["fresh", src, pos], nontrivial=True, tag="fresh-process")
        if isinstance(r, str):
            ctx.fail("corr", f"make:{cls}", f"{src} as call {pos} of a fresh interpreter raised {r}",
                     witness={"cls": cls, "args": list(args), "src": src, "prelude": srcs[:pos][-40:]})
            continue
        impl = (np.array([b2f(str(x)) for x in r[0]]), np.array([b2f(str(x)) for x in r[1]]), r[2][0], r[2][1])
        rt, ew = _tol(cls, args[0], args[1:])
        _compare(ctx, f"make:{cls}", f"{src} as call {pos} of a fresh interpreter", impl, m, rt, ew,
                 {"cls": cls, "args": list(args), "src": src, "prelude": [h for h in srcs[:pos] if f"og.{cls}(" in h]})


def _corr_constructors(ctx: Ctx):
    cases = _cases(ctx)
    lines = [c["line"] for c in cases]
    answers = driver_batch(lines + [_ctor_line(l) for l in lines])
    model, gen = answers[:len(lines)], answers[len(lines):]
    for c, ans, gans in zip(cases, model, gen):
        impl = _impl(c["call"])
        mod = _parse(ans)
        cls, n = c["cls"], c["n"]
        rejected = isinstance(impl, str)
        ctx.count(c["line"].split()[1:5], nontrivial=c["nontrivial"] and not rejected,
                  tag=c["tag"] + (":" + impl if rejected else ""))
        _compare(ctx, f"make:{cls}", " ".join(c["line"].split()[1:5]), impl, mod, c["rtol"], c["elementwise"],
                 {"op": c["line"][:300], "cls": cls, "n": n})
        # the constructor regenerated statement by statement (guards, routine call, post-processing, domain, OneDGrid.__init__)
        ctx.count(["ctor"] + c["line"].split()[1:5], nontrivial=False, tag="gen:ctor")
        _compare(ctx, f"ctor:{cls}", " ".join(c["line"].split()[1:5]) + " [regenerated constructor]", impl, _parse(gans), c["rtol"],
                 c["elementwise"], {"op": c["line"][:300], "cls": cls, "n": n})


def corr(ctx: Ctx):
    """independent parts (`_run_parts`): a translator / driver problem in one does not abort the others"""
    _run_parts(ctx, "corr", [
        ("selfcheck-translation", lambda: _selfcheck_translation(ctx)),
        ("fejer2-corrected", lambda: _corr_fejer2_corrected(ctx)),
        ("defaults", lambda: _corr_defaults(ctx)),
        ("init", lambda: _corr_init(ctx)),
        ("constructors", lambda: _corr_constructors(ctx)),
        ("kinds", lambda: _run_src_cases(ctx, _kind_cases(ctx))),
        ("step-grid", lambda: _run_src_cases(ctx, _step_grid_cases(ctx))),
        ("fresh-process", lambda: _corr_fresh_process(ctx)),
        ("large-n", lambda: _run_src_cases(ctx, _large_cases(ctx))),
        ("repeated", lambda: _corr_repeated(ctx)),
    ])


# ----------------------------------------------------------------------------------------------
# oracle
# ----------------------------------------------------------------------------------------------
SNIP_MOMENT = """import warnings; warnings.filterwarnings('ignore')
import numpy as np, math
from fractions import Fraction
from grid import onedgrid as og
g = og.{cls}({n})
k = {k}
got = math.fsum(float(w) * float(x) ** k for w, x in zip(g.weights, g.points))
want = Fraction(0) if k % 2 else Fraction(2, k + 1)          # integral of x^k over [-1, 1]
assert abs(got - float(want)) <= {tol}, f'{cls}({n}): sum w_i x_i^{{k}} = {{got!r}}, exact integral {{want}}'
"""

INTERP = {  # class -> nominal degree as a function of n
    "GaussLegendre": lambda n: 2 * n - 1,
    "ClenshawCurtis": lambda n: n - 1,
    "FejerFirst": lambda n: n - 1,
    "FejerSecond": lambda n: n - 1,
    "Simpson": lambda n: 3,
    "Trapezoidal": lambda n: 1,
    "MidPoint": lambda n: 1,
}


def _build(og, cls, *a):
    with warnings.catch_warnings():
        warnings.simplefilter("ignore")
        try:
            return getattr(og, cls)(*a)
        except ValueError:
            return None


SNIP_INTEGRATE = """import warnings; warnings.filterwarnings('ignore')
import numpy as np, math
from grid import onedgrid as og
g = og.{cls}({n})
k = {k}
got = float(g.integrate(g.points ** k))
want = math.fsum(float(w) * float(x) ** k for w, x in zip(g.weights, g.points))
assert abs(got - want) <= 1e-13 * max(1.0, abs(want)), f'{cls}({n}).integrate(x^{{k}}) = {{got!r}}, sum w_i x_i^{{k}} = {{want!r}}'
"""


def _oracle_moments(ctx, og, nmax):
    tol = 2e-12
    for cls, deg in INTERP.items():
        for n in range(1, nmax + 1):
            g = _build(og, cls, n)
            if g is None:
                if n >= 2 and not (cls == "Simpson" and n % 2 == 0):
                    ctx.fail("oracle", f"onedgrid.{cls}", f"{cls}({n}) rejected although npoints={n} is admissible")
                continue
            pts = [float(x) for x in g.points]
            wts = [float(w) for w in g.weights]
            if n <= 12:
                # the other observation point of the property: OneDGrid.integrate is the sum the moments are taken with
                for k in (0, 1, deg(n)):
                    got = float(g.integrate(g.points ** k))
                    want = math.fsum(w * x**k for w, x in zip(wts, pts))
                    if not abs(got - want) <= 1e-13 * max(1.0, abs(want)) and want == want:
                        ctx.fail("oracle", f"onedgrid.{cls}:integrate", f"{cls}({n}).integrate(x^{k}) = {got!r} but sum w_i x_i^{k} = {want!r}",
                                 witness={"class": cls, "npoints": n, "k": k}, snippet=SNIP_INTEGRATE.format(cls=cls, n=n, k=k))
                        break
            for k in range(deg(n) + 1):
                got = math.fsum(w * x**k for w, x in zip(wts, pts))
                want = Fraction(0) if k % 2 else Fraction(2, k + 1)
                if not abs(got - float(want)) <= tol:
                    # FejerSecond: the listed finding loses the U-component of degree m* = 2((n+1)//2) - 2 and nothing
                    # below it (Lean: fejer2_code_exact_below); a failure below m* is a different defect
                    below = cls == "FejerSecond" and k < 2 * ((n + 1) // 2) - 2
                    ctx.fail("oracle", f"onedgrid.{cls}" + (":below-known-defect" if below else ""),
                             f"{cls}({n}) does not integrate x^{k} exactly: sum w_i x_i^{k} = {got!r}, integral over [-1,1] = {want} (nominal degree {deg(n)})",
                             witness={"class": cls, "npoints": n, "k": k, "quadrature": got, "exact": str(want)},
                             snippet=SNIP_MOMENT.format(cls=cls, n=n, k=k, tol=tol))
                    break


SNIP_WEIGHTED = """import warnings; warnings.filterwarnings('ignore')
import numpy as np, mpmath as mp
from grid import onedgrid as og
mp.mp.dps = 40
cls, n, alpha, k = {cls!r}, {n}, {alpha!r}, {k}
g = og.GaussLaguerre(n, alpha) if cls == 'GaussLaguerre' else getattr(og, cls)(n)
x = g.points
if cls == 'GaussChebyshev':
    om, want = 1 / np.sqrt(1 - x**2), (0 if k % 2 else mp.pi * mp.binomial(k, k // 2) / 2**k)
elif cls == 'GaussChebyshevType2':
    om, want = np.sqrt(1 - x**2), (0 if k % 2 else mp.pi * mp.binomial(k, k // 2) / 2**k / (k + 2))
else:
    om, want = x**alpha * np.exp(-x), mp.gamma(k + alpha + 1)
got = float(np.sum(g.weights * om * x**k))
assert abs(got - float(want)) <= {tol} * max(1.0, abs(float(want))), f'{{cls}}({{n}}): sum w_i omega(x_i) x_i^{{k}} = {{got!r}}, exact {{float(want)!r}}'
"""


def _oracle_weighted(ctx, og, nmax, rng):
    import mpmath as mp
    mp.mp.dps = 40
    tol = 5e-12
    c1 = [0.0 if k % 2 else float(mp.pi * mp.binomial(k, k // 2) / 2**k) for k in range(2 * nmax)]
    c2 = [0.0 if k % 2 else float(mp.pi * mp.binomial(k, k // 2) / 2**k / (k + 2)) for k in range(2 * nmax)]
    alphas = [0.0, -0.5, 0.5, round(rng.uniform(-0.95, 4.0), 2)]
    # round 4: alpha in (-1, 0) and next to 0 from either side (n <= 24 for the additional ones)
    more = [-0.9, -0.25, -1e-3, 1e-3, round(rng.uniform(-0.99, -0.01), 3), round(rng.uniform(0.01, 0.99), 3)]
    gam = {a: [float(mp.gamma(k + a + 1)) for k in range(2 * nmax)] for a in alphas + more}
    for n in range(1, nmax + 1):
        jobs = []
        if n >= 2:
            jobs.append(("GaussChebyshev", None, c1, lambda x: 1 / np.sqrt(1 - x**2)))
            jobs += [("GaussLaguerre", a, gam[a], (lambda x, a=a: x**a * np.exp(-x))) for a in alphas + (more if n <= 24 else [])]
        jobs.append(("GaussChebyshevType2", None, c2, lambda x: np.sqrt(1 - x**2)))
        for cls, a, exact, omega in jobs:
            g = _build(og, cls, n) if a is None else _build(og, cls, n, a)
            if g is None:
                ctx.fail("oracle", f"onedgrid.{cls}", f"{cls}({n}{'' if a is None else ', ' + str(a)}) rejected although admissible")
                continue
            x = g.points
            wo = g.weights * omega(x)
            for k in range(2 * n):
                got = float(np.sum(wo * x**k))
                if not abs(got - exact[k]) <= tol * max(1.0, abs(exact[k])):
                    ctx.fail("oracle", f"onedgrid.{cls}",
                             f"{cls}({n}{'' if a is None else ', alpha=' + str(a)}): sum w_i omega(x_i) x_i^{k} = {got!r}, integral of omega*x^{k} = {exact[k]!r}",
                             witness={"class": cls, "npoints": n, "alpha": a, "k": k, "quadrature": got, "exact": exact[k]},
                             snippet=SNIP_WEIGHTED.format(cls=cls, n=n, alpha=a, k=k, tol=tol))
                    break
    # class 19: where what the wrapper consumes is extreme -- roots_genlaguerre weights underflow towards 1e-300 while
    # exp(points) grows towards 1e298 (measured envelope on the pinned tree: finite and accurate to 3e-14 up to npoints = 184,
    # the largest node then passes log(DBL_MAX) = 709.78 and exp(points) * 0 is NaN from npoints = 186 on: outside binary64)
    # Degrees up to 2n-1 weigh the far nodes (x^k e^-x peaks at x = k), so the moments are taken in logarithms relative to
    # Gamma(k + alpha + 1) (which overflows from k = 171): measured <= 2e-13 for every degree up to 2n-1 and n <= 184.
    for n in (100, 150, 180, 184):
        for a in (-0.5, 0.0, 1.5, round(rng.uniform(-0.9, -0.1), 2)):
            g = _build(og, "GaussLaguerre", n, a)
            if g is None:
                ctx.fail("oracle", "onedgrid.GaussLaguerre", f"GaussLaguerre({n}, {a}) rejected although admissible")
                continue
            x, w = np.asarray(g.points, dtype=float), np.asarray(g.weights, dtype=float)
            for k in (0, 1, 5, n // 2, n, 3 * n // 2, 2 * n - 1):
                with np.errstate(all="ignore"):
                    t = np.log(w) + a * np.log(x) - x + k * np.log(x) - math.lgamma(k + a + 1)
                    got = math.fsum(np.exp(t).tolist())
                if not abs(got - 1.0) <= 5e-12:
                    ctx.fail("oracle", "onedgrid.GaussLaguerre",
                             f"GaussLaguerre({n}, alpha={a}): sum w_i omega(x_i) x_i^{k} / Gamma({k} + alpha + 1) = {got!r} instead of 1",
                             witness={"class": "GaussLaguerre", "npoints": n, "alpha": a, "k": k, "relative_moment": got},
                             snippet=SNIP_LAGLOG.format(n=n, alpha=a, k=k))
                    break


SNIP_LAGLOG = """import warnings; warnings.filterwarnings('ignore')
import numpy as np, math
from grid import onedgrid as og
n, alpha, k = {n}, {alpha!r}, {k}
g = og.GaussLaguerre(n, alpha)
x, w = g.points, g.weights
with np.errstate(all='ignore'):
    got = math.fsum(np.exp(np.log(w) + alpha * np.log(x) - x + k * np.log(x) - math.lgamma(k + alpha + 1)).tolist())
assert abs(got - 1.0) <= 5e-12, f'GaussLaguerre({{n}}, {{alpha}}): sum w_i x_i^alpha e^-x_i x_i^{{k}} / Gamma(k + alpha + 1) = {{got!r}} instead of 1'
"""


def _check_shape(ctx, cls, g, n, lo, hi, strict, label):
    """n nodes, ascending, inside the declared domain."""
    key = f"onedgrid.{cls}"
    p = np.asarray(g.points, dtype=float)
    if len(p) != n or len(g.weights) != n:
        ctx.fail("oracle", key, f"{label}: {len(p)} nodes / {len(g.weights)} weights instead of {n}")
        return False
    if tuple(float(v) for v in g.domain) != (lo, hi):
        ctx.fail("oracle", key, f"{label}: declared domain {g.domain}, expected {(lo, hi)}")
    d = np.diff(p)
    bad = (d <= 0) if strict else (d < 0)
    if np.any(bad) or np.any(np.isnan(p)):
        i = int(np.argmax(bad)) if np.any(bad) else -1
        ctx.fail("oracle", key, f"{label}: nodes not in {'strictly ' if strict else ''}ascending order at index {i}: {p[max(i,0):i+2].tolist()}",
                 witness={"class": cls, "npoints": n, "index": i})
        return False
    slack = 1e-12 if strict else 1e-7   # 1e-12: rounding of the map at the end points (g(1) = 1 + 2 ulp)
    if p[0] < lo - slack or p[-1] > hi + slack:
        ctx.fail("oracle", key, f"{label}: nodes [{p[0]!r}, {p[-1]!r}] outside the declared domain ({lo}, {hi})",
                 witness={"class": cls, "npoints": n})
        return False
    return True


SNIP_SUBST = """import warnings; warnings.filterwarnings('ignore')
import numpy as np, mpmath as mp
from grid import onedgrid as og
mp.mp.dps = 40
cls, n, h, i = {cls!r}, {n}, {h!r}, {i}
phi = {{
 'TanhSinh': lambda t: mp.tanh(mp.pi / 2 * mp.sinh(t)),
 'ExpSinh': lambda t: mp.exp(mp.pi / 2 * mp.sinh(t)),
 'LogExpSinh': lambda t: mp.log(mp.exp(mp.pi / 2 * mp.sinh(t)) + 1),
 'ExpExp': lambda t: mp.exp(t) * mp.exp(-mp.exp(-t)),
 'SingleTanh': mp.tanh, 'SingleExp': mp.exp,
 'SingleArcSinhExp': lambda t: mp.asinh(mp.exp(t)),
}}[cls]
g = getattr(og, cls)(n, h)
t = (i - (n - 1) // 2) * mp.mpf(h)
assert abs(float(g.points[i]) - float(phi(t))) <= 1e-10 * abs(float(phi(t))) + 1e-14, 'node'
want = float(mp.mpf(h) * mp.diff(phi, t))
assert abs(float(g.weights[i]) - want) <= 1e-9 * abs(want), f'{{cls}}({{n}}, {{h}}): weight[{{i}}] = {{float(g.weights[i])!r}}, step * derivative of the node map = {{want!r}}'
"""


def _phi():
    import mpmath as mp
    return {
        "TanhSinh": (lambda t: mp.tanh(mp.pi / 2 * mp.sinh(t)), (-1.0, 1.0)),
        "ExpSinh": (lambda t: mp.exp(mp.pi / 2 * mp.sinh(t)), (0.0, math.inf)),
        "LogExpSinh": (lambda t: mp.log(mp.exp(mp.pi / 2 * mp.sinh(t)) + 1), (0.0, math.inf)),
        "ExpExp": (lambda t: mp.exp(t) * mp.exp(-mp.exp(-t)), (0.0, math.inf)),
        "SingleTanh": (mp.tanh, (-1.0, 1.0)),
        "SingleExp": (mp.exp, (0.0, math.inf)),
        "SingleArcSinhExp": (lambda t: mp.asinh(mp.exp(t)), (0.0, math.inf)),
    }


def _oracle_subst(ctx, og, rng, nmax, large):
    """weights = step x derivative of the node map at the node (mpmath), order, domain."""
    import mpmath as mp
    mp.mp.dps = 40
    for cls, (phi, (lo, hi)) in _phi().items():
        dflt = STEP_DEFAULT.get(cls, 0.1)
        ns = [n for n in range(1, nmax + 1, 2) if not (cls == "TanhSinh" and n == 1)]
        for n in ns:
            for h in {dflt, round(rng.uniform(0.02, 0.4), 3)}:
                g = _build(og, cls, n, h)
                label = f"{cls}({n}, {h})"
                if g is None:
                    ctx.fail("oracle", f"onedgrid.{cls}", f"{label} rejected although admissible")
                    continue
                # tanh(pi/2 sinh t) is 1.0 in binary64 from t ~ 3.2 on; the other maps stay resolved up to |t| = 6
                # and log(exp(pi/2 sinh t) + 1) is 0.0 below t ~ -3.8
                strict = h * (n - 1) / 2 <= {"TanhSinh": 2.9, "LogExpSinh": 3.5}.get(cls, 6)
                if not _check_shape(ctx, cls, g, n, lo, hi, strict, label):
                    continue
                if not strict:
                    continue
                m = (n - 1) // 2
                idx = range(n) if (n <= 9 or large) else sorted({0, n - 1, m, rng.randrange(n), rng.randrange(n)})
                for i in idx:
                    t = (i - m) * mp.mpf(h)
                    node = float(phi(t))
                    want = float(mp.mpf(h) * mp.diff(phi, t))
                    # nodes: absolute 1e-14 (log(1 + tiny) of LogExpSinh is only absolutely accurate)
                    if not (abs(float(g.points[i]) - node) <= 1e-10 * abs(node) + 1e-14 and abs(float(g.weights[i]) - want) <= 1e-9 * abs(want)):
                        ctx.fail("oracle", f"onedgrid.{cls}",
                                 f"{label}: node/weight {i} = ({float(g.points[i])!r}, {float(g.weights[i])!r}); node map gives {node!r}, step x derivative {want!r}",
                                 witness={"class": cls, "npoints": n, "h": h, "index": i},
                                 snippet=SNIP_SUBST.format(cls=cls, n=n, h=h, i=i))
                        break


SNIP_CLOSED = """import warnings; warnings.filterwarnings('ignore')
import numpy as np, mpmath as mp
from grid import onedgrid as og
mp.mp.dps = 40
cls, n = {cls!r}, {n}
g = getattr(og, cls)(n)
if cls == 'GaussChebyshevLobatto':
    x = [-mp.cos(i * mp.pi / (n - 1)) for i in range(n)]
    w = [mp.pi * mp.sin(i * mp.pi / (n - 1)) / (n - 1) / (2 if i in (0, n - 1) else 1) for i in range(n)]
elif cls == 'RectangleRuleSineEndPoints':
    x0 = [mp.mpf(i) / (n + 1) for i in range(1, n + 1)]
    x = [2 * t - 1 for t in x0]
    w = [2 * mp.mpf(2) / (n + 1) * mp.fsum(mp.sin(m * mp.pi * t) * (1 - (-1) ** m) / (m * mp.pi) for m in range(1, n + 1)) for t in x0]
else:
    x, w = [mp.mpf(i) for i in range(n)], [mp.mpf(1)] * n
for i in range(n):
    assert abs(float(g.points[i]) - float(x[i])) <= 1e-12 and abs(float(g.weights[i]) - float(w[i])) <= 1e-12, f'{{cls}}({{n}}) entry {{i}}'
"""


def _oracle_closed(ctx, og, rng, nmax):
    """closed-form rules: documented nodes and weights (mpmath / rationals), order, domain."""
    import mpmath as mp
    mp.mp.dps = 40
    for n in range(2, nmax + 1):
        ref = {}
        ref["GaussChebyshevLobatto"] = ([-mp.cos(i * mp.pi / (n - 1)) for i in range(n)],
                                        [mp.pi * mp.sin(i * mp.pi / (n - 1)) / (n - 1) / (2 if i in (0, n - 1) else 1) for i in range(n)], (-1.0, 1.0))
        x0 = [mp.mpf(i) / (n + 1) for i in range(1, n + 1)]
        ref["RectangleRuleSineEndPoints"] = ([2 * t - 1 for t in x0],
                                             [2 * mp.mpf(2) / (n + 1) * mp.fsum(mp.sin(m * mp.pi * t) * (1 - (-1) ** m) / (m * mp.pi) for m in range(1, n + 1, 2)) for t in x0],
                                             (-1.0, 1.0))
        ref["UniformInteger"] = ([mp.mpf(i) for i in range(n)], [mp.mpf(1)] * n, (0.0, math.inf))
        # nodes only (weights are decided by the moment test)
        nodes = {
            "Trapezoidal": [mp.mpf(-1) + mp.mpf(2 * i) / (n - 1) for i in range(n)],
            "Simpson": [mp.mpf(-1) + mp.mpf(2 * i) / (n - 1) for i in range(n)],
            "MidPoint": [mp.mpf(-1) + mp.mpf(2 * i + 1) / n for i in range(n)],
            "ClenshawCurtis": [-mp.cos(i * mp.pi / (n - 1)) for i in range(n)],
            "FejerFirst": [-mp.cos((2 * i + 1) * mp.pi / (2 * n)) for i in range(n)],
            "FejerSecond": [-mp.cos((i + 1) * mp.pi / (n + 1)) for i in range(n)],
            "GaussChebyshev": [-mp.cos((2 * i + 1) * mp.pi / (2 * n)) for i in range(n)],
            "GaussChebyshevType2": [-mp.cos((i + 1) * mp.pi / (n + 1)) for i in range(n)],
        }
        for cls in list(ref) + list(nodes) + ["GaussLegendre"]:
            if cls == "Simpson" and n % 2 == 0:
                continue
            g = _build(og, cls, n)
            label = f"{cls}({n})"
            if g is None:
                ctx.fail("oracle", f"onedgrid.{cls}", f"{label} rejected although admissible")
                continue
            lo, hi = ref[cls][2] if cls in ref else (-1.0, 1.0)
            if not _check_shape(ctx, cls, g, n, lo, hi, True, label):
                continue
            xs = ref[cls][0] if cls in ref else nodes.get(cls)
            ws = ref[cls][1] if cls in ref else None
            for i in range(n):
                bad = xs is not None and abs(float(g.points[i]) - float(xs[i])) > 1e-12
                bad = bad or (ws is not None and abs(float(g.weights[i]) - float(ws[i])) > 1e-12)
                if bad:
                    ctx.fail("oracle", f"onedgrid.{cls}",
                             f"{label}: node/weight {i} = ({float(g.points[i])!r}, {float(g.weights[i])!r}), definition gives ({float(xs[i])!r}, {float(ws[i]) if ws else None!r})",
                             witness={"class": cls, "npoints": n, "index": i},
                             snippet=SNIP_CLOSED.format(cls=cls, n=n) if cls in ref else None)
                    break
        g = _build(og, "GaussLaguerre", n, 0.5)
        if g is not None:
            _check_shape(ctx, "GaussLaguerre", g, n, 0.0, math.inf, True, f"GaussLaguerre({n}, 0.5)")


SNIP_TREF = """import warnings; warnings.filterwarnings('ignore')
import numpy as np, mpmath as mp
from grid import onedgrid as og
mp.mp.dps = 40
cls, base, n, par = {cls!r}, {base!r}, {n}, {par!r}
b = getattr(og, base)(n)
g = getattr(og, cls)(n, par) if base in ('ClenshawCurtis', 'GaussChebyshevType2') and 'General' not in cls else getattr(og, cls)(n, getattr(og, base), par)
def gmap(x):
    x = mp.mpf(x)
    if 'Strip' not in cls:
        return {{1: x, 5: (120*x + 20*x**3 + 9*x**5) / 149, 9: (40320*x + 6720*x**3 + 3024*x**5 + 1800*x**7 + 1225*x**9) / 53089}}[par]
    tau = mp.pi / mp.log(par); td = mp.mpf(1)/2 + 1/(mp.exp(tau*mp.pi) + 1); u = mp.asin(x)
    cn = 1/(mp.log(1 + mp.exp(-tau*mp.pi)) - mp.log(2) + mp.pi*tau*td/2)
    return cn*(mp.log(1 + mp.exp(-tau*(mp.pi/2 + u))) - mp.log(1 + mp.exp(-tau*(mp.pi/2 - u))) + td*tau*u)
for i in range(n):
    x = float(b.points[i]); gap = 1 - abs(x); tolw = 1e-9
    if gap < 1e-6 and 'Strip' not in cls: continue
    if gap < 1e-6:
        # near an end point: derivative at the node (one-sided); cancellation in 1 - s^2; the code's documented 1e-8 window
        dg = mp.diff(gmap, mp.mpf(x) * (1 - mp.mpf(10)**-24), h=mp.mpf(10)**-30)
        tolw = 1e-9 + (8 * 2.3e-16 / (gap * (2 - gap)) if gap > 0 else 0.0)
        if gap <= 1.0000001e-8:
            dend = mp.diff(gmap, mp.mpf(1) * (1 - mp.mpf(10)**-24), h=mp.mpf(10)**-30)
            tolw = 1e-9 + 2 * float(abs(dend - dg) / abs(dg))
    else:
        dg = mp.diff(gmap, x)
    want = float(dg) * float(b.weights[i])
    assert abs(float(g.points[i]) - float(gmap(x))) <= 1e-11, 'node'
    assert abs(float(g.weights[i]) - want) <= tolw * max(abs(want), 1e-3), f'{{cls}}: weight {{i}} = {{float(g.weights[i])!r}}, base weight x derivative of the map = {{want!r}}'
"""


def _oracle_trefethen(ctx, og, rng, nmax, reps):
    """points = g(base points), weights = g'(base points) x base weights, g by its definition, g' by mpmath."""
    import mpmath as mp
    mp.mp.dps = 40

    def gpoly(d):
        return {1: lambda x: x, 5: lambda x: (120 * x + 20 * x**3 + 9 * x**5) / 149,
                9: lambda x: (40320 * x + 6720 * x**3 + 3024 * x**5 + 1800 * x**7 + 1225 * x**9) / 53089}[d]

    def gstrip(rho):
        tau = mp.pi / mp.log(rho)
        td = mp.mpf(1) / 2 + 1 / (mp.exp(tau * mp.pi) + 1)
        cn = 1 / (mp.log(1 + mp.exp(-tau * mp.pi)) - mp.log(2) + mp.pi * tau * td / 2)

        def g(x):
            u = mp.asin(x)
            return cn * (mp.log(1 + mp.exp(-tau * (mp.pi / 2 + u))) - mp.log(1 + mp.exp(-tau * (mp.pi / 2 - u))) + td * tau * u)
        return g

    jobs = []
    for _ in range(reps):
        n = rng.randrange(2, nmax + 1)
        d = rng.choice([1, 5, 9])
        rho = round(rng.uniform(1.05, 3.5), 3)
        gb = rng.choice(["Trapezoidal", "MidPoint", "FejerFirst", "GaussLegendre", "GaussChebyshevLobatto", "ClenshawCurtis"])
        jobs += [("TrefethenCC", "ClenshawCurtis", n, d), ("TrefethenGC2", "GaussChebyshevType2", n, d), ("TrefethenGeneral", gb, n, d),
                 ("TrefethenStripCC", "ClenshawCurtis", n, rho), ("TrefethenStripGC2", "GaussChebyshevType2", n, rho),
                 ("TrefethenStripGeneral", gb, n, rho)]
    # nodes close to, but not at, the end points (the window in which `_dergstrip` may use the one-sided limit is 1e-8,
    # theorem dergstripMask_iff): large Chebyshev-type rules (1 - |x_1| ~ 5/n^2) and an end-point-clustering base rule
    for _ in range(max(1, reps // 8)):
        rho = round(rng.uniform(1.05, 3.5), 3)
        jobs += [("TrefethenStripCC", "ClenshawCurtis", rng.randrange(705, 2400), rho),
                 ("TrefethenStripGC2", "GaussChebyshevType2", rng.randrange(705, 2400), round(rng.uniform(1.05, 3.5), 3)),
                 ("TrefethenStripGeneral", "TanhSinh", 2 * rng.randrange(12, 29) + 1, round(rng.uniform(1.05, 3.5), 3))]   # n <= 57: beyond, tanh(pi/2 sinh 2.9) is +-1.0 in binary64 (duplicate end nodes: rounding caveat, not a defect)
    for cls, base, n, par in jobs:
        with warnings.catch_warnings():
            warnings.simplefilter("ignore")
            b = getattr(og, base)(n)
            try:
                g = getattr(og, cls)(n, getattr(og, base), par) if "General" in cls else getattr(og, cls)(n, par)
            except ValueError:
                ctx.fail("oracle", f"onedgrid.{cls}", f"{cls}({n}, {base}, {par}) rejected although admissible")
                continue
        label = f"{cls}({n}, {base}, {par})"
        if not _check_shape(ctx, cls, g, n, -1.0, 1.0, True, label):
            continue
        gm = gstrip(par) if "Strip" in cls else gpoly(par)
        for s in (-1, 1):
            if abs(float(gm(mp.mpf(s))) - s) > 1e-14:
                ctx.fail("oracle", f"onedgrid.{cls}", f"{label}: map sends {s} to {float(gm(mp.mpf(s)))!r}")
        idx = range(n) if n <= 200 else sorted(set(list(range(40)) + list(range(n - 40, n)) + [rng.randrange(n) for _ in range(40)]))
        for i in idx:
            x = float(b.points[i])
            gap = 1 - abs(x)
            if gap < 1e-6 and "Strip" in cls:
                # near an end point: the derivative at the node itself (one-sided at the end point); the double-precision
                # formula loses 1 - s^2 to cancellation (relative 2^-52 / (1 - s^2)), and within 1e-8 of the end the code
                # uses the one-sided limit instead (dergstripMask_iff / dergstrip_eq_end): allowed by that much
                xe = mp.mpf(x) * (1 - mp.mpf(10) ** -24)
                dg = mp.diff(gm, xe, h=mp.mpf(10) ** -30)
                tolw = 1e-9 + (8 * 2.3e-16 / (gap * (2 - gap)) if gap > 0 else 0.0)
                if gap <= 1.0000001e-8:
                    dend = mp.diff(gm, mp.mpf(1) * (1 - mp.mpf(10) ** -24), h=mp.mpf(10) ** -30)
                    tolw = 1e-9 + 2 * float(abs(dend - dg) / abs(dg))
            elif gap < 1e-6:
                dg = mp.diff(gm, mp.mpf(x))
                tolw = 1e-7
            else:
                dg = mp.diff(gm, mp.mpf(x))
                tolw = 1e-9
            want = float(dg) * float(b.weights[i])
            if abs(float(g.points[i]) - float(gm(mp.mpf(x)))) > 1e-11 or abs(float(g.weights[i]) - want) > tolw * max(abs(want), 1e-3):
                ctx.fail("oracle", f"onedgrid.{cls}",
                         f"{label}: node/weight {i} = ({float(g.points[i])!r}, {float(g.weights[i])!r}), map gives {float(gm(mp.mpf(x)))!r}, base weight x derivative {want!r}",
                         witness={"class": cls, "base": base, "npoints": n, "param": par, "index": i},
                         snippet=SNIP_TREF.format(cls=cls, base=base, n=n, par=par))
                break


def _ref():
    return importlib.import_module("harness.props.c01_ref")


def _ref_snippet(cls, args, src, prelude, mutate=False, known_defect=True):
    """self-contained replay: the reference module, the earlier constructions, the call, the check"""
    text = (Path(__file__).with_name("c01_ref.py")).read_text()
    body = ["", "# --- replay ---"]
    for i, h in enumerate(prelude):
        body.append(f"_g{i} = {h}")
        if mutate:
            body.append(f"for _a in (_g{i}.points, _g{i}.weights):\n    try:\n        _a[...] = -7 if _a.dtype.kind in 'iu' else np.nan\n    except ValueError:\n        pass")
    body.append(f"g = {src}")
    body.append(f"check({cls!r}, {tuple(args)!r}, g, fejer2_known_defect={known_defect})")
    return text + "\n".join(body) + "\n"


def _snippet_fails(snippet):
    """run a replay snippet in a fresh interpreter (same library tree); True iff it raises"""
    import os
    import subprocess
    import sys
    env = dict(os.environ)
    if os.environ.get("GRID_REPO"):
        env["PYTHONPATH"] = os.path.join(os.environ["GRID_REPO"], "src") + os.pathsep + env.get("PYTHONPATH", "")
    try:
        return subprocess.run([sys.executable, "-W", "ignore", "-c", snippet], env=env, cwd="/", capture_output=True, timeout=300).returncode != 0
    except Exception:
        return True


def _ref_fail(ctx, cls, args, src, prelude, g=None, mutate=False, suffix=""):
    """evaluate C01 on the object `g` (or on a fresh `src`) against the reference; report a violation.  The replay snippet
    (reference + the constructions that preceded + the call) is tried in a fresh interpreter first: state left behind in
    *this* process by earlier stages may not be re-created by the prelude, in which case the variant that overwrites the
    arrays of the earlier objects in place is tried, and the report says which one reproduces."""
    og = _og()
    key = f"onedgrid.{cls}" + (":beyond-known-defect" if cls == "FejerSecond" else "") + suffix
    if sum(1 for f in ctx.failures if f.kind == "oracle" and f.key == key) >= 3:
        return False
    what = None
    try:
        with warnings.catch_warnings():
            warnings.simplefilter("ignore")
            if g is None:
                g = _eval_src(og, src)
            _ref().check(cls, tuple(args), g)
    except AssertionError as e:
        what = str(e)
    except (ValueError, TypeError, RuntimeError, IndexError) as e:
        what = f"{src} raised {type(e).__name__}: {e} although its arguments are admissible"
    if what is None:
        return False
    snippet = _ref_snippet(cls, args, src, prelude, mutate)
    note = ""
    if not _snippet_fails(snippet):
        alt = _ref_snippet(cls, args, src, [src], True)
        if not mutate and _snippet_fails(alt):
            snippet, mutate, prelude = alt, True, [src]
            note = " [reproduces in a fresh process once points/weights of an earlier object of the same call are overwritten in place]"
        else:
            note = " [observed in the checking process only: the replay snippet does not re-create the state]"
    if prelude:
        what += f" [after {len(prelude)} earlier construction(s): {'; '.join(prelude[-3:])}]"
    ctx.fail("oracle", key, what + note,
             witness={"class": cls, "args": list(args), "call": src, "earlier_calls": prelude[-40:], "arrays_overwritten": mutate},
             snippet=snippet)
    return True


def _admissible(cls, args):
    n = args[0]
    if not isinstance(n, int) or n < (1 if cls in STEP[1:] + ["GaussChebyshevType2", "TrefethenGC2", "TrefethenStripGC2"] else 2):
        return False
    if (cls in STEP or cls == "Simpson") and n % 2 == 0:
        return False
    if cls == "TanhSinh" and n < 3:
        return False
    par = args[1:]
    if cls in STEP and par and not (0 < par[0] and par[0] * n / 2 <= 6):
        return False
    if cls == "GaussLaguerre" and par and not (-0.999 <= par[0] <= 50):   # closer to -1 SciPy's nodes are ill-conditioned
        return False
    if cls in ("TrefethenCC", "TrefethenGC2") and par and par[0] not in (1, 5, 9):
        return False
    if cls in ("TrefethenStripCC", "TrefethenStripGC2") and par and not (1.02 <= par[0] <= 1e3):
        return False
    if cls == "TrefethenGeneral" and (args[1] not in BASES or (len(args) > 2 and args[2] not in (1, 5, 9))):
        return False
    if cls == "TrefethenStripGeneral" and (args[1] not in BASES or (len(args) > 2 and not (1.02 <= args[2] <= 1e3))):
        return False
    if cls.endswith("General") and args[1] in STEP + ["Simpson"] and n % 2 == 0:
        return False
    if cls.endswith("General") and args[1] in STEP + ["UniformInteger", "GaussLaguerre"]:
        return False    # base rule not on [-1, 1] (or saturating): the transformed rule has no reference
    return n <= 2100


def oracle_at(ctx: Ctx, failure):
    """Evaluate the property itself at the constructor call on which model and implementation disagreed (with the
    constructions that preceded it in the same process)."""
    w = failure.witness or {}
    if not isinstance(w, dict) or failure.kind != "corr":
        return
    if failure.key == "init:OneDGrid" and "points" in w and w.get("domain") is not None:
        # the containment clause at the disagreeing input, exact rational arithmetic as reference
        from fractions import Fraction
        from grid.basegrid import OneDGrid
        pts, (lo, hi) = w["points"], w["domain"]
        if not pts or any(x != x for x in pts) or len(w["weights"]) != len(pts) or lo > hi:
            return
        slack = Fraction(1, 10**7)
        inside = all(abs(x) != math.inf and Fraction(lo) - slack <= Fraction(x) and (hi == math.inf or Fraction(x) <= Fraction(hi) + slack) for x in pts)
        try:
            OneDGrid(np.array(pts), np.array(w["weights"]), (lo, hi))
            accepted = True
        except ValueError:
            accepted = False
        if accepted != inside:
            ctx.fail("oracle", "basegrid.OneDGrid:domain-check",
                     f"OneDGrid(points, weights, ({lo}, {hi})), points in [{min(pts)!r}, {max(pts)!r}]: {'accepted' if accepted else 'rejected'}, "
                     f"all points inside the domain up to the 1e-7 slack: {inside}", witness=w,
                     snippet=SNIP_DOMAIN.format(p=pts, n=len(pts), dom=f"({lo!r}, {'float(\'inf\')' if hi == math.inf else repr(hi)})"))
        return
    if "src" in w and "cls" in w:
        cls, args, src, prelude = w["cls"], [a for a in w["args"]], w["src"], list(w.get("prelude", []))
    elif "op" in w and str(w["op"]).startswith("C01.make "):
        t = str(w["op"]).split()
        cls, n = t[1], int(t[2])
        try:
            if cls in NOARG + GAUSS:
                args = [n]
            elif cls in STEP or cls in ("TrefethenStripCC", "TrefethenStripGC2", "GaussLaguerre"):
                args = [n, b2f(t[3])]
            elif cls in ("TrefethenCC", "TrefethenGC2"):
                args = [n, int(t[3])]
            elif cls == "TrefethenGeneral":
                args = [n, t[3], int(t[4])]
            elif cls == "TrefethenStripGeneral":
                args = [n, t[3], b2f(t[4])]
            else:
                return
        except (ValueError, IndexError):
            return
        src, prelude = _spec_src(cls, args), []
    else:
        return
    args = [a if isinstance(a, str) else (int(a) if float(a) == int(a) and not isinstance(a, float) else a) for a in args]
    if not _admissible(cls, args):
        return
    mutate = bool(w.get("mutate"))
    if w.get("recheck"):
        # an earlier object changed after later constructions: rebuild the history, then look at the first object again
        og = _og()
        later = list(w.get("later", []))
        try:
            with warnings.catch_warnings():
                warnings.simplefilter("ignore")
                for h in prelude:
                    _eval_src(og, h)
                g = _eval_src(og, src)
                for h in later:
                    _eval_src(og, h)
        except Exception:
            return
        _ref_fail(ctx, cls, args, src, prelude, g=g, suffix=":changed-by-later-construction")
        return
    if mutate:
        og = _og()
        try:
            with warnings.catch_warnings():
                warnings.simplefilter("ignore")
                for h in prelude:
                    g0 = _eval_src(og, h)
                    for a in (g0.points, g0.weights):
                        try:
                            a[...] = -7 if a.dtype.kind in "iu" else np.nan
                        except ValueError:
                            pass
        except Exception:
            return
        _ref_fail(ctx, cls, args, src, prelude, mutate=True)
        return
    # the process already holds whatever state the earlier calls left behind; the snippet re-creates it with the prelude
    _ref_fail(ctx, cls, args, src, prelude)


def _oracle_repeated(ctx, og, rng):
    """The property on the *third* construction of every rule in one process (state carried between calls), the other rules
    and another size in between."""
    specs = []
    for cls in ALL26:
        n = 7 if (cls in STEP or cls == "Simpson") else rng.choice([6, 7, 8])
        if cls == "TrefethenGeneral":
            specs.append((cls, (n, rng.choice(["GaussChebyshev", "GaussChebyshevType2", "MidPoint"]), 5)))
        elif cls == "TrefethenStripGeneral":
            specs.append((cls, (n, rng.choice(["GaussChebyshev", "GaussChebyshevType2", "FejerFirst"]), 1.3)))
        else:
            specs.append((cls, (n,)))
    history = []
    with warnings.catch_warnings():
        warnings.simplefilter("ignore")
        for rnd in range(2):
            order = list(specs)
            rng.shuffle(order)
            for cls, args in order:
                try:
                    _eval_src(og, _spec_src(cls, args))
                    if rnd == 0:
                        _eval_src(og, _spec_src(cls, (args[0] + 2, *args[1:])))
                except Exception:
                    pass
                history.append(_spec_src(cls, args))
    for cls, args in specs:
        src = _spec_src(cls, args)
        _ref_fail(ctx, cls, list(args), src, [src, _spec_src(cls, (args[0] + 2, *args[1:])), src])
    # the arrays of an object belong to it: overwrite them, build the same rule again
    for cls, args in specs:
        src = _spec_src(cls, args)
        try:
            with warnings.catch_warnings():
                warnings.simplefilter("ignore")
                g0 = _eval_src(og, src)
                for a in (g0.points, g0.weights):
                    try:
                        a[...] = -7 if a.dtype.kind in "iu" else np.nan
                    except ValueError:
                        pass
        except Exception:
            continue
        _ref_fail(ctx, cls, list(args), src, [src], mutate=True)


SNIP_F32 = """import warnings; warnings.filterwarnings('ignore')
import numpy as np
from grid import onedgrid as og
a = {a}
b = {b}
dp = float(np.max(np.abs(a.points - b.points))); dw = float(np.max(np.abs(a.weights - b.weights) / np.abs(b.weights)))
assert dp <= 5e-6 and dw <= 5e-6, f'same parameter value given as NumPy float32 scalar: nodes differ by {{dp:.2e}}, weights by {{dw:.2e}} (relative) from the binary64 call'
"""


def _oracle_float32(ctx, og):
    """An extra parameter given as a NumPy float32 scalar holding an exactly representable value must give the rule of the
    same value in binary64 (class 2).  TanhSinh.delta, GaussLaguerre.alpha and the strip parameter rho do not."""
    jobs = [(c, 7, "0.25") for c in STEP] + [("GaussLaguerre", 7, "0.5"), ("TrefethenStripCC", 7, "1.5"), ("TrefethenStripGC2", 7, "1.5"),
                                             ("TrefethenStripGeneral", 7, "og.MidPoint, 1.5")]
    for cls, n, val in jobs:
        val32 = val.replace("1.5", "np.float32(1.5)").replace("0.25", "np.float32(0.25)").replace("0.5", "np.float32(0.5)") if "og." in val else f"np.float32({val})"
        a_src, b_src = f"og.{cls}({n}, {val32})", f"og.{cls}({n}, {val})"
        with warnings.catch_warnings():
            warnings.simplefilter("ignore")
            try:
                a, b = _eval_src(og, a_src), _eval_src(og, b_src)
            except Exception as e:
                ctx.info(f"out of scope: {a_src} raised {type(e).__name__}: {e}")
                continue
        dp = float(np.max(np.abs(a.points - b.points)))
        dw = float(np.max(np.abs(a.weights - b.weights) / np.abs(b.weights)))
        if dp > 1e-12 or dw > 1e-12:
            ctx.info(f"{a_src}: single-precision parameter propagates: nodes differ by {dp:.1e}, weights by {dw:.1e} (relative) from {b_src}")
        # scope decision (DESIGN 8.3): a parameter handed over in single precision may give the rule to
        # single precision ("up to rounding" of the precision the caller chose); anything worse is a failure
        if not (dp <= 5e-6 and dw <= 5e-6):
            ctx.fail("oracle", "onedgrid.float32-parameter",
                     f"{a_src}: nodes differ by {dp:.2e} and weights by {dw:.2e} (relative) from {b_src} although the parameter value is the same",
                     witness={"class": cls, "call": a_src, "reference_call": b_src, "max_node_diff": dp, "max_rel_weight_diff": dw},
                     snippet=SNIP_F32.format(a=a_src, b=b_src))


SNIP_DOMAIN = """import numpy as np
from fractions import Fraction
from grid.basegrid import OneDGrid
p, w, dom = np.array({p!r}), np.ones({n}), {dom}
lo, hi = dom
slack = Fraction(1, 10**7)      # documented slack of the domain check
inside = all(Fraction(lo) - slack <= Fraction(x) and (hi == float('inf') or Fraction(x) <= Fraction(hi) + slack) for x in p.tolist())
try:
    OneDGrid(p, w, dom); accepted = True
except ValueError:
    accepted = False
assert accepted == inside, f'OneDGrid(points, weights, {{dom}}): points in [{{p.min()!r}}, {{p.max()!r}}], inside the domain up to 1e-7: {{inside}}, accepted: {{accepted}}'
"""


def _oracle_domain_check(ctx, rng):
    """The containment check of `OneDGrid.__init__` (the third mechanism C01 anchors), against exact rational arithmetic:
    a grid is accepted iff every point lies in [lo - 1e-7, hi + 1e-7].  Class 7: the extreme point 0, 0.01, 0.5, 0.99, 1.01, 2,
    100, 1e4 slacks outside either end (not the rounding-dependent 1.0 itself: that one is in the correspondence)."""
    from fractions import Fraction
    from grid.basegrid import OneDGrid
    slack = Fraction(1, 10**7)
    for lo, hi in [(-1.0, 1.0), (0.0, math.inf), (0.0, 5.0), (-3.5, -1.25), (1.0e4, 1.0e4 + 1), (0.3, 0.7), (-2.0, 3.0), (1.0, 1.0)]:
        for side in ("below", "above"):
            if side == "above" and hi == math.inf:
                continue
            # the float the code compares with, when it lies inside the exact window (then a point on it must be accepted)
            edge = lo - 1e-7 if side == "below" else hi + 1e-7
            edge_in = Fraction(lo) - slack <= Fraction(edge) if side == "below" else Fraction(edge) <= Fraction(hi) + slack
            for f in (0.0, 0.01, 0.5, 0.99, 1.01, 2.0, 100.0, 1.0e4) + (("edge",) if edge_in else ()):
                x = edge if f == "edge" else (lo - f * 1e-7 if side == "below" else hi + f * 1e-7)
                top = hi if hi != math.inf else lo + 9.0
                pts = [lo + (top - lo) * rng.random() for _ in range(rng.choice([0, 2, 5]))]
                pts.insert(rng.randrange(len(pts) + 1), x)
                p = np.array(pts)
                inside = all(Fraction(lo) - slack <= Fraction(v) and (hi == math.inf or Fraction(v) <= Fraction(hi) + slack) for v in pts)
                try:
                    g = OneDGrid(p, np.ones(len(pts)), (lo, hi))
                    accepted = True
                except ValueError:
                    accepted = False
                if accepted != inside or (accepted and (not np.array_equal(g.points, p) or tuple(g.domain) != (lo, hi))):
                    ctx.fail("oracle", "basegrid.OneDGrid:domain-check",
                             f"OneDGrid(points, weights, ({lo}, {hi})) with a point {f} x 1e-7 {side} the domain ({x!r}): "
                             f"{'accepted' if accepted else 'rejected'}, all points inside the domain up to the 1e-7 slack: {inside}",
                             witness={"points": pts, "domain": [lo, hi], "offset_in_slacks": f, "side": side},
                             snippet=SNIP_DOMAIN.format(p=pts, n=len(pts), dom=f"({lo!r}, {'float(\'inf\')' if hi == math.inf else repr(hi)})"))
    # shapes the check must refuse / ignore
    p = np.array([0.1, 0.2])
    for dom, what in (((0.0, 1.0, 2.0), "3-tuple domain"), ((0.0,), "1-tuple domain"), ((1.0, 0.0), "descending domain")):
        try:
            OneDGrid(p, np.ones(2), dom)
            ctx.fail("oracle", "basegrid.OneDGrid:domain-check", f"OneDGrid accepted a {what} {dom}", witness={"domain": list(dom)})
        except ValueError:
            pass
    try:
        OneDGrid(np.ones((2, 2)), np.ones(2), (0.0, 2.0))
        ctx.fail("oracle", "basegrid.OneDGrid:domain-check", "OneDGrid accepted a 2-D points array")
    except ValueError:
        pass
    try:
        g = OneDGrid(np.array([-50.0, 70.0]), np.ones(2))
        if g.domain is not None:
            ctx.fail("oracle", "basegrid.OneDGrid:domain-check", f"OneDGrid without a domain reports domain {g.domain}")
    except ValueError:
        ctx.fail("oracle", "basegrid.OneDGrid:domain-check", "OneDGrid(points, weights) without a domain raised ValueError")


SNIP_USE = """import warnings; warnings.filterwarnings('ignore')
import numpy as np
from grid import onedgrid as og
g = {src}
p0, w0, d0 = g.points.copy(), g.weights.copy(), tuple(g.domain)
{steps}
assert np.array_equal(g.points, p0, equal_nan=True) and np.array_equal(g.weights, w0, equal_nan=True) and tuple(g.domain) == d0, 'using the grid changed it'
"""


def _oracle_use(ctx, og, rng):
    """The observation points of the property used in either order and with data of extreme magnitude (classes 8, 10, 6):
    `integrate` of scaled function values (relative to the scale), of several arrays, `g[i]` / `g[a:b]` (same domain, the
    selected nodes), `size`, `domain` -- none of them may change the rule, whatever the order."""
    specs = [("ClenshawCurtis", (9,)), ("GaussLegendre", (6,)), ("TanhSinh", (11, 0.2)), ("GaussLaguerre", (5, 0.5)),
             ("TrefethenStripCC", (8, 1.3)), ("Simpson", (7,)), ("FejerFirst", (6,))]
    for cls, args in specs:
        src = _spec_src(cls, args)
        with warnings.catch_warnings():
            warnings.simplefilter("ignore")
            g = _eval_src(og, src)
        p0, w0, d0 = g.points.copy(), g.weights.copy(), tuple(g.domain)
        key = f"onedgrid.{cls}:use"
        actions = ["integrate", "scaled", "multi", "index", "slice", "size", "domain"]
        rng.shuffle(actions)
        for a in actions + actions[:3]:
            x = g.points
            if a == "integrate":
                k = rng.randrange(0, 4)
                got, want = float(g.integrate(x ** k)), math.fsum(float(w) * float(v) ** k for w, v in zip(w0, p0))
                bad = not abs(got - want) <= 1e-12 * max(1.0, abs(want))
                what = f"{src}.integrate(x^{k}) = {got!r}, sum w_i x_i^{k} = {want!r}"
            elif a == "scaled":
                c = rng.choice([1e-300, 1e-50, 1e-12, 1e12, 1e150])
                f = c * (1.0 + x * x)
                got, want = float(g.integrate(f)), c * math.fsum(float(w) * (1.0 + float(v) ** 2) for w, v in zip(w0, p0))
                bad = not abs(got - want) <= 1e-12 * abs(want)
                what = f"{src}.integrate({c} (1 + x^2)) = {got!r}, expected {want!r}"
            elif a == "multi":
                got = float(g.integrate(x, x, np.ones_like(x)))
                want = math.fsum(float(w) * float(v) ** 2 for w, v in zip(w0, p0))
                bad = not abs(got - want) <= 1e-12 * max(1.0, abs(want))
                what = f"{src}.integrate(x, x, 1) = {got!r}, sum w_i x_i^2 = {want!r}"
            elif a == "index":
                i = rng.randrange(-len(p0), len(p0))
                h = g[i]
                bad = not (h.points.tolist() == [p0[i]] and h.weights.tolist() == [w0[i]] and tuple(h.domain) == d0)
                what = f"{src}[{i}] = ({h.points.tolist()}, {h.weights.tolist()}, {h.domain})"
                h.points[...] = -9.0
                h.weights[...] = -9.0
            elif a == "slice":
                i, j = sorted((rng.randrange(len(p0)), rng.randrange(len(p0) + 1)))
                h = g[i:j] if j > i else g[i:i + 1]
                j = max(j, i + 1)
                bad = not (np.array_equal(h.points, p0[i:j]) and np.array_equal(h.weights, w0[i:j]) and tuple(h.domain) == d0)
                what = f"{src}[{i}:{j}] differs from the selected nodes / weights / domain"
                h.points[...] = -9.0
                h.weights[...] = -9.0
            elif a == "size":
                bad, what = g.size != len(p0), f"{src}.size = {g.size}"
            else:
                bad, what = tuple(g.domain) != d0, f"{src}.domain = {g.domain}"
            if bad:
                ctx.fail("oracle", key, what, witness={"call": src, "action": a})
                break
            if not (np.array_equal(g.points, p0, equal_nan=True) and np.array_equal(g.weights, w0, equal_nan=True) and tuple(g.domain) == d0):
                ctx.fail("oracle", key, f"{src}: the rule changed after `{a}` (sub-grids handed out were overwritten by the caller)",
                         witness={"call": src, "action": a})
                break


# ----------------------------------------------------------------------------------------------
# round 4
# ----------------------------------------------------------------------------------------------
def _run_parts(ctx, stage, parts):
    """Run the independent parts of a stage; an exception in one part never hides what the others find.  When the library
    raised (a frame of the grid package in the traceback) it is a failure of that part (`<part>:raises`); a harness /
    driver / translator problem is kept and re-raised after all parts have run."""
    first = None
    for name, fn in parts:
        try:
            fn()
        except Exception as e:
            frames = traceback.extract_tb(e.__traceback__)
            in_lib = [fr for fr in frames if "/grid/" in fr.filename.replace("\\", "/") and "/harness/" not in fr.filename]
            if in_lib and not isinstance(e, DriverError):
                fr = in_lib[-1]
                ctx.fail(stage, f"{name}:raises", f"part `{name}`: the library raised {type(e).__name__}: {str(e)[:200]} "
                         f"({Path(fr.filename).name}:{fr.lineno} in {fr.name}) on an input inside the admissible envelope",
                         witness={"traceback": traceback.format_exc()[-1500:]})
            elif first is None:
                first = e
    if first is not None:
        raise first


H_GRID = [0.1, 0.05, 0.15, 0.2, 0.3, 0.01]
STEP_T = {"TanhSinh": 2.9, "LogExpSinh": 3.5}      # |k h| up to which the node map is resolved in binary64 (others: 6)


def step_checks(cls, n, h, points, weights):
    """Identities every step rule satisfies (independent of the closed forms of the code): the node COUNT, the reflection
    k -> -k of the node map, constant ratios, the centre node and weight.  -> list of messages (empty = fine)."""
    import math
    import numpy as np
    p, w = np.asarray(points, dtype=float), np.asarray(weights, dtype=float)
    out = []
    if len(p) != n or len(w) != n:
        return [f"{len(p)} nodes / {len(w)} weights instead of {n}"]
    m = (n - 1) // 2
    k = np.arange(-m, m + 1)
    T = {"TanhSinh": 2.9, "LogExpSinh": 3.5}.get(cls, 6.0)
    ok = np.abs(k * h) <= T                       # where the node map is resolved in binary64
    q = p[::-1]
    with np.errstate(all="ignore"):
        if cls in ("TanhSinh", "SingleTanh"):
            d = np.abs(p + q)
            if np.any(d > 1e-15):
                out.append(f"nodes not antisymmetric: x_k + x_-k = {float(d.max())!r}")
            if np.any(np.abs(w - w[::-1]) > 1e-13 * np.abs(w)):
                out.append("weights not symmetric under k -> -k")
        elif cls in ("ExpSinh", "SingleExp"):
            d = np.abs(p * q - 1)[ok]
            if np.any(d > 1e-12):
                out.append(f"x_k x_-k = 1 violated by {float(d.max())!r}")
        elif cls == "LogExpSinh":
            sel = np.abs(math.pi / 2 * np.sinh(k * h)) <= 5
            d = np.abs(np.expm1(p) * np.expm1(q) - 1)[sel]
            if np.any(d > 1e-9):
                out.append(f"(e^x_k - 1)(e^x_-k - 1) = 1 violated by {float(d.max())!r}")
        elif cls == "SingleArcSinhExp":
            d = np.abs(np.sinh(p) * np.sinh(q) - 1)[ok]
            if np.any(d > 1e-10):
                out.append(f"sinh(x_k) sinh(x_-k) = 1 violated by {float(d.max())!r}")
        elif cls == "ExpExp":
            sel = np.abs(k * h) <= 5
            t = k * h
            d = np.abs(np.log(p / q) - 2 * (t + np.sinh(t)))[sel]
            if np.any(d > 1e-10 * (1 + np.abs(t[sel]) + np.abs(np.sinh(t[sel])))):
                out.append(f"log(x_k / x_-k) = 2 (t + sinh t) violated by {float(d.max())!r}")
        if cls == "SingleExp":
            r = (p[1:] / p[:-1])[ok[1:] & ok[:-1]]
            if len(r) and np.any(np.abs(r - math.exp(h)) > 1e-12 * math.exp(h)):
                out.append(f"ratio of consecutive nodes is not e^h: {float(r[np.argmax(np.abs(r - math.exp(h)))])!r} vs {math.exp(h)!r}")
            if np.any(np.abs(w / p - h)[ok] > 1e-13 * h):
                out.append("weight / node is not h")
        if cls == "SingleTanh":
            sel = np.abs(k * h) <= 5
            if np.any(np.abs(w - h * (1 - p * p))[sel] > 1e-9 * h * (1 - p * p)[sel]):
                out.append("weight is not h (1 - x^2)")
    centre = {"TanhSinh": (0.0, math.pi / 2 * h), "SingleTanh": (0.0, h), "ExpSinh": (1.0, math.pi / 2 * h), "SingleExp": (1.0, h),
              "LogExpSinh": (math.log(2.0), math.pi * h / 4), "ExpExp": (math.exp(-1.0), 2 * h * math.exp(-1.0)),
              "SingleArcSinhExp": (math.asinh(1.0), h / math.sqrt(2.0))}[cls]
    if abs(p[m] - centre[0]) > 1e-14 or abs(w[m] - centre[1]) > 1e-13 * centre[1]:
        out.append(f"centre node / weight ({float(p[m])!r}, {float(w[m])!r}) instead of {centre}")
    if np.any(np.diff(p[ok]) <= 0):
        i = int(np.argmax(np.diff(p[ok]) <= 0))
        out.append(f"nodes not strictly ascending at index {i}")
    return out


def _oracle_step_grid(ctx, og, rng, full):
    """Every step rule on a GRID of (npoints, h): h = 0.1, 0.05, 0.15, 0.2, 0.3, 0.01 (decimal fractions, no binary ones), the
    default and a random one, npoints = every odd size up to 61 and sampled odd sizes up to 201 -- node count, reflection
    symmetry, ratios, centre (`step_checks`), and the closed form by mpmath at sampled indices."""
    import inspect
    import mpmath as mp
    mp.mp.dps = 30
    phi = _phi()
    src_checks = inspect.getsource(step_checks)
    for cls in STEP:
        first = 3 if cls == "TanhSinh" else 1
        hs = H_GRID + [STEP_DEFAULT.get(cls, 0.1), round(rng.uniform(0.011, 0.45), 3), round(rng.uniform(0.011, 0.45), 4)]
        ns = list(range(first, 63, 2)) + sorted({2 * rng.randrange(31, 101) + 1 for _ in range(20 if full else 8)}) + [199, 201]
        nfail = 0
        for h in dict.fromkeys(hs):
            for n in ns:
                g = _build(og, cls, n, h)
                label = f"{cls}({n}, {h})"
                if g is None:
                    ctx.fail("oracle", f"onedgrid.{cls}", f"{label} rejected although admissible", witness={"class": cls, "npoints": n, "h": h})
                    continue
                bad = step_checks(cls, n, h, g.points, g.weights)
                if not bad and rng.random() < 0.04:
                    # closed form at three indices inside the resolved range
                    m = (n - 1) // 2
                    kmax = min(m, int(STEP_T.get(cls, 6.0) / h))
                    for kk in {0, kmax, -kmax, rng.randint(-kmax, kmax)}:
                        t = kk * mp.mpf(h)
                        node, wt = float(phi[cls][0](t)), float(mp.mpf(h) * mp.diff(phi[cls][0], t))
                        if not (abs(float(g.points[m + kk]) - node) <= 1e-10 * abs(node) + 1e-14 and abs(float(g.weights[m + kk]) - wt) <= 1e-9 * abs(wt)):
                            bad = [f"node/weight of k = {kk}: ({float(g.points[m + kk])!r}, {float(g.weights[m + kk])!r}), node map gives {node!r}, step x derivative {wt!r}"]
                            break
                if bad:
                    nfail += 1
                    snippet = ("import warnings; warnings.filterwarnings('ignore')\n" + src_checks +
                               f"\nfrom grid import onedgrid as og\ng = og.{cls}({n}, {h!r})\nbad = step_checks({cls!r}, {n}, {h!r}, g.points, g.weights)\n"
                               f"assert not bad, '{label}: ' + '; '.join(bad)\n")
                    ctx.fail("oracle", f"onedgrid.{cls}", f"{label}: " + "; ".join(bad[:3]),
                             witness={"class": cls, "npoints": n, "h": h, "failed": bad[:5]}, snippet=snippet)
                    if nfail >= 3:
                        break
            if nfail >= 3:
                break


def _step_grid_cases(ctx: Ctx):
    """correspondence on the same (npoints, h) grid (the model counts its nodes from the integer index range)"""
    rng = ctx.rng
    out = []
    for cls in STEP:
        pairs = {(2 * rng.randrange(1, 101) + 1, rng.choice(H_GRID)) for _ in range(ctx.n(14, 120))}
        pairs |= {(n, 0.1) for n in (3, 13, 29, 43)} | {(201, 0.01), (199, 0.05)}
        for n, h in sorted(pairs):
            r, e = _tol(cls, n, (h,))
            out.append(dict(cls=cls, args=[n, h], src=_src(cls, str(n), repr(h)), line=_model_line(cls, n, h), rtol=r, elementwise=e,
                            allow=(), tag="step-grid", nontrivial=True))
    return out


def _kind_convert(a, kind):
    a = np.asarray(a)
    if kind == "float32":
        return a.astype(np.float32)
    if kind == "read-only":
        b = np.array(a, dtype=float)
        b.flags.writeable = False
        return b
    if kind == "strided":
        big = np.full(2 * len(a) + 1, 7.25)
        big[1::2] = a
        return big[1::2]
    if kind == "negative-stride":
        return np.array(a[::-1], dtype=float)[::-1]
    if kind == "int64":
        return np.rint(a).astype(np.int64)
    if kind == "int32":
        return np.rint(a).astype(np.int32)
    if kind == "longdouble":
        return a.astype(np.longdouble)
    return np.array(a, dtype=float)


def _oracle_kinds(ctx, og, rng):
    """Class 14 / 17: the arrays *inside* the grid object a Trefethen...General class gets from `quadrature(npoints)`, in
    every storage kind (float32, read-only, strided, negative stride, longdouble; integer nodes for a rule with integer
    nodes), against the same rule held in contiguous float64; and function-value arrays of every kind (int, bool, float32,
    complex, longdouble, read-only, strided views) handed to `integrate`."""
    from grid.basegrid import OneDGrid

    def holder(base, kind, int_points=False):
        class Held(OneDGrid):
            as_kind = True

            def __init__(self, npoints):
                with warnings.catch_warnings():
                    warnings.simplefilter("ignore")
                    b = getattr(og, base)(npoints)
                p, w = b.points, b.weights
                if kind == "float32":          # both variants hold the values rounded to single precision
                    p, w = p.astype(np.float32), w.astype(np.float32)
                if not self.as_kind:
                    p, w = np.array(p, dtype=float), np.array(w, dtype=float)
                elif kind != "float32":
                    p, w = _kind_convert(p, kind), _kind_convert(w, "plain" if int_points else kind)
                super().__init__(p, w, b.domain)
        return Held

    jobs = []
    for kind in ("float32", "read-only", "strided", "negative-stride", "longdouble"):
        base = rng.choice(["GaussLegendre", "FejerFirst", "ClenshawCurtis", "MidPoint", "GaussChebyshevType2"])
        jobs.append((base, kind, False, rng.randrange(3, 12)))
    jobs += [("Trapezoidal", "int64", True, 3), ("Trapezoidal", "int32", True, 2), ("Simpson", "int64", True, 3)]
    for base, kind, intp, n in jobs:
        H = holder(base, kind, intp)
        for cls, par in (("TrefethenGeneral", 1), ("TrefethenGeneral", 5), ("TrefethenGeneral", 9), ("TrefethenStripGeneral", round(rng.uniform(1.1, 3.0), 2))):
            label = f"{cls}({n}, <{base} holding its arrays as {kind}>, {par})"
            res = []
            for as_kind in (True, False):
                H.as_kind = as_kind
                try:
                    with warnings.catch_warnings():
                        warnings.simplefilter("ignore")
                        g = getattr(og, cls)(n, H, par)
                    res.append((np.asarray(g.points, dtype=float), np.asarray(g.weights, dtype=float)))
                except Exception as e:
                    res.append(f"{type(e).__name__}: {e}")
            key = f"onedgrid.{cls}:array-kind"
            if isinstance(res[1], str):
                continue   # the float64 reference itself is not admissible
            if isinstance(res[0], str):
                ctx.fail("oracle", key, f"{label} raised {res[0][:160]} although the same rule held in float64 is accepted",
                         witness={"class": cls, "base": base, "kind": kind, "npoints": n, "param": par})
                continue
            tol = 5e-6 if kind == "float32" else 1e-13
            dp, dw = float(np.max(np.abs(res[0][0] - res[1][0]))), float(np.max(np.abs(res[0][1] - res[1][1])))
            if not (dp <= tol and dw <= tol):     # (NaN fails too)
                ctx.fail("oracle", key, f"{label}: nodes differ by {dp:.2e}, weights by {dw:.2e} from the same rule held in contiguous float64",
                         witness={"class": cls, "base": base, "kind": kind, "npoints": n, "param": par, "node_diff": dp, "weight_diff": dw})
    # function values of every kind through `integrate`
    for src in ("og.ClenshawCurtis(6)", "og.GaussLaguerre(5, -0.5)", "og.TanhSinh(9, 0.3)"):
        with warnings.catch_warnings():
            warnings.simplefilter("ignore")
            g = _eval_src(og, src)
        n = g.size
        w0 = [float(v) for v in g.weights]
        vals = {
            "int64": np.array([rng.randrange(-5, 6) for _ in range(n)]), "int32": np.array([rng.randrange(-5, 6) for _ in range(n)], dtype=np.int32),
            "bool": np.array([rng.random() < 0.5 for _ in range(n)]), "float32": np.array([rng.randrange(-8, 9) / 4 for _ in range(n)], dtype=np.float32),
            "complex128": np.array([complex(rng.uniform(-1, 1), rng.uniform(-1, 1)) for _ in range(n)]),
            "complex64": np.array([complex(rng.randrange(-4, 5) / 2, rng.randrange(-4, 5) / 2) for _ in range(n)], dtype=np.complex64),
            "longdouble": np.array([rng.uniform(-1, 1) for _ in range(n)], dtype=np.longdouble),
            "read-only": _kind_convert([rng.uniform(-1, 1) for _ in range(n)], "read-only"),
            "strided": _kind_convert([rng.uniform(-1, 1) for _ in range(n)], "strided"),
            "negative-stride": _kind_convert([rng.uniform(-1, 1) for _ in range(n)], "negative-stride"),
        }
        for kind, f in vals.items():
            before = f.tobytes()
            fl = [complex(v) for v in f.tolist()]
            want = complex(math.fsum(w * v.real for w, v in zip(w0, fl)), math.fsum(w * v.imag for w, v in zip(w0, fl)))
            want2 = complex(math.fsum(w * (v * v).real for w, v in zip(w0, fl)), math.fsum(w * (v * v).imag for w, v in zip(w0, fl)))
            try:
                got, got2 = complex(g.integrate(f)), complex(g.integrate(f, f))
            except Exception as e:
                ctx.fail("oracle", "onedgrid.integrate:value-kind", f"{src}.integrate(<{kind} values>) raised {type(e).__name__}: {e}",
                         witness={"call": src, "kind": kind, "values": [str(v) for v in f.tolist()]})
                continue
            scale = max(1.0, math.fsum(abs(w) * abs(v) for w, v in zip(w0, fl)))
            scale2 = max(1.0, math.fsum(abs(w) * abs(v) ** 2 for w, v in zip(w0, fl)))
            if not (abs(got - want) <= 1e-12 * scale and abs(got2 - want2) <= 1e-12 * scale2) or f.tobytes() != before:
                ctx.fail("oracle", "onedgrid.integrate:value-kind",
                         f"{src}.integrate(<{kind} values>) = {got!r} (f, f: {got2!r}), sum w_i f_i = {want!r} (sum w_i f_i^2 = {want2!r})"
                         + ("; the value array was modified" if f.tobytes() != before else ""),
                         witness={"call": src, "kind": kind, "values": [str(v) for v in f.tolist()]})


def _oracle_arg_forms(ctx, og, rng):
    """Class 15: omitted vs explicit default vs keyword default (and `domain` omitted / None / keyword None): one rule."""
    import inspect
    from grid.basegrid import OneDGrid
    for cls in ALL26:
        sig = inspect.signature(getattr(og, cls).__init__)
        dfl = [(p.name, PARAM_DEFAULT[cls]) for p in sig.parameters.values() if p.default is not inspect.Parameter.empty]   # the documented value
        if not dfl:
            continue
        n = 7 if (cls in STEP or cls == "Simpson") else rng.randrange(4, 10)
        q = ", og.FejerFirst" if "General" in cls else ""
        (name, val), = dfl[:1]
        forms = [f"og.{cls}({n}{q})", f"og.{cls}({n}{q}, {val!r})", f"og.{cls}({n}{q}, {name}={val!r})", f"og.{cls}(npoints={n}{q.replace(', ', ', quadrature=')}, {name}={val!r})",
                 f"og.{cls}({name}={val!r}, npoints={n}{q.replace(', ', ', quadrature=')})"]
        res = []
        for f in forms:
            r = _impl(lambda f=f: _eval_src(og, f))
            res.append(r)
        for f, r in zip(forms[1:], res[1:]):
            same = (isinstance(r, str) and r == res[0]) or (not isinstance(r, str) and not isinstance(res[0], str)
                                                               and _bits_equal(r[0], res[0][0]) and _bits_equal(r[1], res[0][1]) and r[2:] == res[0][2:])
            if not same:
                ctx.fail("oracle", f"onedgrid.{cls}:argument-form", f"{f} differs from {forms[0]} although {name}={val!r} is the documented default",
                         witness={"class": cls, "call": f, "reference_call": forms[0]},
                         snippet=f"import warnings; warnings.filterwarnings('ignore')\nimport numpy as np\nfrom grid import onedgrid as og\na, b = {f}, {forms[0]}\n"
                                 "assert np.array_equal(a.points, b.points) and np.array_equal(a.weights, b.weights) and tuple(a.domain) == tuple(b.domain), 'differs from the default call'\n")
    p, w = np.array([0.25, 0.5]), np.array([1.0, 2.0])
    gs = [OneDGrid(p, w), OneDGrid(p, w, None), OneDGrid(p, w, domain=None), OneDGrid(points=p, weights=w), OneDGrid(weights=w, domain=None, points=p)]
    if any(g.domain is not None or not np.array_equal(g.points, p) or not np.array_equal(g.weights, w) for g in gs):
        ctx.fail("oracle", "basegrid.OneDGrid:argument-form", "OneDGrid(points, weights) with domain omitted / None / by keyword differ")
    a, b = OneDGrid(p, w, (0, 1)), OneDGrid(domain=(0, 1), weights=w, points=p)
    if tuple(a.domain) != tuple(b.domain) or not np.array_equal(a.points, b.points):
        ctx.fail("oracle", "basegrid.OneDGrid:argument-form", "OneDGrid positional / keyword domain differ")


def _oracle_shared_args(ctx, og, rng):
    """Class 16: one array object for several requests -- the same ndarray as points and as weights, the same arrays for
    two grids, a view into a larger caller array (the bytes around it must not change), one array two / three times in
    `integrate`; every answer against pristine copies, the arguments unchanged afterwards."""
    from grid.basegrid import OneDGrid
    big = np.array([rng.uniform(0.05, 0.95) for _ in range(16)])      # not sorted: the API does not require order
    snap = big.tobytes()
    v = big[4:11]                      # a view into the caller's array
    ref = np.array(v)
    key = "basegrid.OneDGrid:shared-argument"
    g1 = OneDGrid(v, v, (0, 1))        # the same object twice
    g2 = OneDGrid(v, big[2:9], (0.0, 1.0))
    g3 = OneDGrid(v, v[::-1], (0, 1))
    r1 = (float(g1.integrate(v)), float(g1.integrate(v, v)), float(g1.integrate(v, v, v)), float(g2.integrate(v)), float(g3.integrate(v, v)))
    want = (math.fsum(x * x for x in ref), math.fsum(x ** 3 for x in ref), math.fsum(x ** 4 for x in ref),
            math.fsum(a * b for a, b in zip(np.array(big[2:9]), ref)), math.fsum(a * b * b for a, b in zip(ref[::-1], ref)))
    r2 = (float(g1.integrate(v)), float(g1.integrate(v, v)), float(g1.integrate(v, v, v)), float(g2.integrate(v)), float(g3.integrate(v, v)))
    if any(abs(a - b) > 1e-13 * max(1.0, abs(b)) for a, b in zip(r1 + r2, want + want)):
        ctx.fail("oracle", key, f"grids sharing one argument array: integrals {r1} / second time {r2}, from pristine copies {want}",
                 witness={"array": ref.tolist()})
    if big.tobytes() != snap:
        ctx.fail("oracle", key, "the caller's array (a view of it was passed as points, as weights and as function values) was modified",
                 witness={"array": ref.tolist(), "now": big.tolist()})
    for g in (g1, g2, g3):
        if not np.array_equal(g.points, ref):
            ctx.fail("oracle", key, "points of a grid built on a shared array changed", witness={"array": ref.tolist()})
    # one base rule object for several Trefethen requests: the same quadrature class three times, alternating parameters
    for base in ("ClenshawCurtis", "GaussChebyshev"):
        n = rng.randrange(4, 10)
        with warnings.catch_warnings():
            warnings.simplefilter("ignore")
            first = [og.TrefethenGeneral(n, getattr(og, base), d) for d in (5, 9, 1)]
            sg = og.TrefethenStripGeneral(n, getattr(og, base), 1.4)
            again = [og.TrefethenGeneral(n, getattr(og, base), d) for d in (5, 9, 1)]
            b = getattr(og, base)(n)
        for d, a, c in zip((5, 9, 1), first, again):
            if not (np.array_equal(a.points, c.points) and np.array_equal(a.weights, c.weights)):
                ctx.fail("oracle", "onedgrid.TrefethenGeneral:shared-argument", f"TrefethenGeneral({n}, {base}, {d}) differs between two requests with the same class",
                         witness={"class": "TrefethenGeneral", "base": base, "npoints": n, "d": d})
        _ref_fail(ctx, base, [n], f"og.{base}({n})", [f"og.TrefethenGeneral({n}, og.{base}, 5)", f"og.TrefethenStripGeneral({n}, og.{base}, 1.4)"], g=b)


RAISERS = ["og.{cls}(0{q})", "og.{cls}(-3{q})", "og.{cls}('7'{q})", "og.{cls}(None{q})", "og.{cls}({even}{q})", "og.{cls}({n}{q}, {bad})",
           "og.{cls}({n}{q}, None)", "og.{cls}({n}{q}, 'x')", "og.{cls}()", "og.{cls}({n}{q}, 1, 2, 3)", "g0.integrate()", "g0.integrate([1.0] * g0.size)",
           "g0.integrate(np.ones(g0.size + 1))", "g0.integrate(np.ones((g0.size, 1)))", "g0[10 ** 6]", "g0['a']",
           "OneDGrid(g0.points, g0.weights, (5.0, 6.0))", "OneDGrid(g0.points, g0.weights[:-1], g0.domain)", "OneDGrid(g0.points, g0.weights, (1, 0))",
           "OneDGrid(g0.points.reshape(-1, 1), g0.weights, g0.domain)"]


def _oracle_after_raise(ctx, og, rng):
    """Class 18: a call that raises leaves no trace.  For every class: a good construction, then every kind of refused call
    (sizes, parameters, types, arities; integrate / indexing / OneDGrid with bad arguments on the good object), then the same
    good construction again: bit-identical to the first and correct by the reference; the first object unchanged."""
    from grid.basegrid import OneDGrid
    for cls in ALL26:
        odd = cls in STEP or cls == "Simpson"
        n = 2 * rng.randrange(2, 7) + 1 if odd else rng.randrange(4, 12)
        q = ", og.MidPoint" if "General" in cls else ""
        args = (n, "MidPoint") if q else (n,)
        good = f"og.{cls}({n}{q})"
        bad = {"GaussLaguerre": "-1.5", "TrefethenCC": "4", "TrefethenGC2": "4", "TrefethenGeneral": "4"}.get(cls, "-0.5" if cls in STEP[1:] else "object()")
        env = {"og": og, "np": np, "OneDGrid": OneDGrid}
        with warnings.catch_warnings():
            warnings.simplefilter("ignore")
            g0 = _eval_src(og, good)
            env["g0"] = g0
            p0, w0, i0 = g0.points.copy(), g0.weights.copy(), complex(g0.integrate(g0.points))
            raised, history = 0, []
            calls = [r.format(cls=cls, q=q, n=n, even=n + 1 if odd else 0, bad=bad) for r in RAISERS]
            rng.shuffle(calls)
            for c in calls:
                try:
                    eval(c, env)
                except Exception:
                    raised += 1
                    history.append(c)
            try:
                g1 = _eval_src(og, good)
            except Exception as e:
                g1 = e
        key = f"onedgrid.{cls}:after-raise"
        if isinstance(g1, Exception):
            snippet = ("import warnings; warnings.filterwarnings('ignore')\nimport numpy as np\nfrom grid import onedgrid as og\nfrom grid.basegrid import OneDGrid\n"
                       f"g0 = {good}\nfor c in {history!r}:\n    try:\n        eval(c)\n    except Exception:\n        pass\n"
                       f"try:\n    g1 = {good}\nexcept Exception as e:\n    raise AssertionError('after refused calls the admissible call raises ' + repr(e))\n")
            ctx.fail("oracle", key, f"{good} raises {type(g1).__name__}: {g1} after {raised} refused calls ({'; '.join(history[:3])} ...) although it was accepted before them",
                     witness={"class": cls, "call": good, "refused_calls": history}, snippet=snippet)
            continue
        if not (np.array_equal(g0.points, p0, equal_nan=True) and np.array_equal(g0.weights, w0, equal_nan=True) and complex(g0.integrate(g0.points)) == i0):
            ctx.fail("oracle", key, f"{good}: the object changed after {raised} refused calls ({'; '.join(history[:4])} ...)",
                     witness={"class": cls, "call": good, "refused_calls": history})
        if not (np.array_equal(g1.points, p0, equal_nan=True) and np.array_equal(g1.weights, w0, equal_nan=True) and tuple(g1.domain) == tuple(g0.domain)):
            snippet = ("import warnings; warnings.filterwarnings('ignore')\nimport numpy as np\nfrom grid import onedgrid as og\nfrom grid.basegrid import OneDGrid\n"
                       f"g0 = {good}\np0, w0 = g0.points.copy(), g0.weights.copy()\nfor c in {history!r}:\n    try:\n        eval(c)\n    except Exception:\n        pass\n"
                       f"g1 = {good}\nassert np.array_equal(g1.points, p0) and np.array_equal(g1.weights, w0), 'the rule built after refused calls differs from the one built before'\n")
            ctx.fail("oracle", key, f"{good} built after {raised} refused calls differs from the same call before them",
                     witness={"class": cls, "call": good, "refused_calls": history}, snippet=snippet)
        ctx.count(["after-raise", cls, raised], nontrivial=False, tag="after-raise")
        _ref_fail(ctx, cls, list(args), good, history[-40:], g=g1, suffix=":after-raise")


def _oracle_shapes(ctx, og, rng):
    """Class 20: sizes 1 and 2 and arrays with unequal dimensions -- everything that is not a 1-D array of the grid's size is
    refused (never broadcast); the one- and two-point rules exist where admissible."""
    from grid.basegrid import OneDGrid
    key = "basegrid.OneDGrid:shape"
    for shape in ((1, 3), (3, 1), (2, 1), (1, 2), (1, 1), (2, 2), (2, 3), ()):
        p = np.full(shape, 0.5)
        for w in (np.ones(shape[0] if shape else 1), np.ones(shape)):
            try:
                OneDGrid(p, w, (0, 1))
                ctx.fail("oracle", key, f"OneDGrid accepted points of shape {shape} with weights of shape {w.shape}", witness={"shape": list(shape)})
            except (ValueError, TypeError):
                pass
    for ws in ((3, 1), (1, 3), (1,), (2,), ()):
        try:
            OneDGrid(np.array([0.1, 0.2, 0.3]), np.ones(ws), (0, 1))
            ctx.fail("oracle", key, f"OneDGrid accepted 3 points with weights of shape {ws}", witness={"weights_shape": list(ws)})
        except (ValueError, TypeError):
            pass
    for n in (1, 2, 3):
        g = OneDGrid(np.linspace(0.2, 0.8, n), np.arange(1.0, n + 1), (0, 1))
        if g.size != n or abs(float(g.integrate(g.points)) - math.fsum((i + 1) * x for i, x in enumerate(np.linspace(0.2, 0.8, n)))) > 1e-14:
            ctx.fail("oracle", key, f"{n}-point OneDGrid: size / integrate wrong")
        for bad in (np.ones((n, 1)), np.ones((1, n)), np.ones(n + 1), np.ones(()), np.ones((n, n))):
            if bad.shape == (n,):
                continue
            try:
                g.integrate(bad)
                ctx.fail("oracle", key, f"{n}-point OneDGrid.integrate accepted values of shape {bad.shape}", witness={"npoints": n, "shape": list(bad.shape)})
            except (ValueError, TypeError):
                pass
    # one- and two-point rules
    for cls in ALL26:
        if "General" in cls:
            continue
        for n in (1, 2):
            adm = _admissible(cls, [n])
            g = _build(og, cls, n)
            if adm and g is None:
                ctx.fail("oracle", f"onedgrid.{cls}", f"{cls}({n}) rejected although admissible", witness={"class": cls, "npoints": n})
            elif adm:
                _ref_fail(ctx, cls, [n], f"og.{cls}({n})", [], g=g)


# ----------------------------------------------------------------------------------------------
# round 5
# ----------------------------------------------------------------------------------------------
BLOCK_SIZES = [1025, 4097, 20001, 31234, 65537]       # no multiple of 2^k or {1,2,5} 10^k, just above such values


def _elementwise_reference(cls, n):
    """nodes / weights of the element-wise rules, every element from its own index (NumPy, float64) -> (x, w, domain)"""
    i = np.arange(n, dtype=float)
    if cls == "UniformInteger":
        return i, np.ones(n), (0.0, math.inf)
    if cls in ("Trapezoidal", "Simpson"):
        x = -1 + 2 * i / (n - 1)
        if cls == "Trapezoidal":
            w = np.full(n, 2 / (n - 1))
            w[[0, -1]] /= 2
        else:
            w = np.where(np.arange(n) % 2 == 1, 4.0, 2.0) * 2 / (3 * (n - 1))
            w[[0, -1]] /= 2
        return x, w, (-1.0, 1.0)
    if cls == "MidPoint":
        return -1 + (2 * i + 1) / n, np.full(n, 2 / n), (-1.0, 1.0)
    if cls == "GaussChebyshevLobatto":
        t = (n - 1 - i) * math.pi / (n - 1)
        w = math.pi * np.sin(t) / (n - 1)
        return np.cos(t), w, (-1.0, 1.0)
    if cls == "GaussChebyshev":
        t = (2 * (n - 1 - i) + 1) * math.pi / (2 * n)
        return np.cos(t), math.pi / n * np.sin(t), (-1.0, 1.0)
    if cls == "GaussChebyshevType2":
        t = (n - i) * math.pi / (n + 1)
        return np.cos(t), math.pi / (n + 1) * np.sin(t), (-1.0, 1.0)
    raise KeyError(cls)


def _oracle_block_sizes(ctx, og, rng, thorough):
    """Class 21: sizes past every plausible block / chunk boundary (1025, 4097, 20001, 31234, 65537; thorough 2^19 + 1) on
    the rules that are pure array evaluations and on plain `OneDGrid`s with synthetic points.  References: every element
    from its own index; low-degree exactness; additivity over a split of the same input."""
    from grid.basegrid import OneDGrid
    sizes = BLOCK_SIZES + ([2 ** 19 + 1] if thorough else [])
    for cls in ("UniformInteger", "Trapezoidal", "Simpson", "MidPoint", "GaussChebyshevLobatto", "GaussChebyshev", "GaussChebyshevType2"):
        for n0 in sizes:
            n = n0 + 1 if (cls == "Simpson" and n0 % 2 == 0) else n0
            g = _build(og, cls, n)
            key = f"onedgrid.{cls}"
            if g is None:
                ctx.fail("oracle", key, f"{cls}({n}) rejected although admissible", witness={"class": cls, "npoints": n})
                continue
            x, w, dom = _elementwise_reference(cls, n)
            ok = len(g.points) == n and len(g.weights) == n and tuple(float(v) for v in g.domain) == dom
            if ok:
                dx, dw = np.abs(np.asarray(g.points, dtype=float) - x), np.abs(np.asarray(g.weights, dtype=float) - w)
                ok = float(dx.max()) <= 1e-12 * max(1.0, float(np.abs(x).max())) and float(dw.max()) <= 1e-13 * max(1e-3, float(np.abs(w).max())) * 10
            if not ok:
                if len(g.points) == n and len(g.weights) == n:
                    i = int(np.argmax(dx)) if float(dx.max()) > 1e-12 * max(1.0, float(np.abs(x).max())) else int(np.argmax(dw))
                    what = f"node/weight {i} = ({float(g.points[i])!r}, {float(g.weights[i])!r}), its definition gives ({float(x[i])!r}, {float(w[i])!r})"
                else:
                    i, what = -1, f"{len(g.points)} nodes / {len(g.weights)} weights"
                ctx.fail("oracle", key, f"{cls}({n}): {what}", witness={"class": cls, "npoints": n, "index": i},
                         snippet=(f"import warnings; warnings.filterwarnings('ignore')\nimport numpy as np, math\nfrom grid import onedgrid as og\n"
                                  f"g = og.{cls}({n})\nassert len(g.points) == {n} and len(g.weights) == {n}, 'size'\ni = {max(i, 0)}\n"
                                  f"assert abs(float(g.points[i]) - {float(x[max(i, 0)])!r}) <= 1e-11 and abs(float(g.weights[i]) - {float(w[max(i, 0)])!r}) <= 1e-13, "
                                  f"f'{cls}({n}) entry {{i}}: ({{float(g.points[i])!r}}, {{float(g.weights[i])!r}})'\n"))
    # the O(n^2) series rules: 1025 (quick) and 4097 -- nodes by their definition, exactness on low and middle degrees
    for cls, sizes2 in (("ClenshawCurtis", [1025, 4097]), ("FejerFirst", [1025, 4097]), ("FejerSecond", [1025] + ([4097] if thorough else [])),
                        ("RectangleRuleSineEndPoints", [1025] + ([4097] if thorough else []))):
        for n in sizes2:
            g = _build(og, cls, n)
            if g is None:
                ctx.fail("oracle", f"onedgrid.{cls}", f"{cls}({n}) rejected although admissible", witness={"class": cls, "npoints": n})
                continue
            i = np.arange(n, dtype=float)
            x = {"ClenshawCurtis": -np.cos(i * math.pi / (n - 1)), "FejerFirst": -np.cos((2 * i + 1) * math.pi / (2 * n)),
                 "FejerSecond": -np.cos((i + 1) * math.pi / (n + 1)), "RectangleRuleSineEndPoints": 2 * (i + 1) / (n + 1) - 1}[cls]
            p, w = np.asarray(g.points, dtype=float), np.asarray(g.weights, dtype=float)
            bad = None
            if len(p) != n or len(w) != n:
                bad = f"{len(p)} nodes / {len(w)} weights"
            elif float(np.abs(p - x).max()) > 1e-12:
                j = int(np.argmax(np.abs(p - x)))
                bad = f"node {j} = {float(p[j])!r}, definition {float(x[j])!r}"
            elif cls != "RectangleRuleSineEndPoints":
                for k in (0, 1, 2, 10, 51, 200):
                    got = math.fsum((w * p ** k).tolist())
                    want = 0.0 if k % 2 else 2 / (k + 1)
                    if abs(got - want) > 1e-11:
                        bad = f"sum w_i x_i^{k} = {got!r}, integral {want!r}"
                        break
            if bad:
                ctx.fail("oracle", f"onedgrid.{cls}" + (":below-known-defect" if cls == "FejerSecond" else ""), f"{cls}({n}): {bad}",
                         witness={"class": cls, "npoints": n})
    # step rules and the O(n) Trefethen maps: identities, and additivity over a split of the base rule
    for cls in STEP:
        for n0 in sizes:
            n = n0 + 1 if n0 % 2 == 0 else n0
            h = 5.0 / n * rng.uniform(0.5, 1.0)
            g = _build(og, cls, n, h)
            bad = ["rejected"] if g is None else step_checks(cls, n, h, g.points, g.weights)
            if bad:
                ctx.fail("oracle", f"onedgrid.{cls}", f"{cls}({n}, {h!r}): " + "; ".join(bad[:3]), witness={"class": cls, "npoints": n, "h": h})

    def part_class(base, n, lo, hi):
        class Part(OneDGrid):
            def __init__(self, npoints):
                b = getattr(og, base)(n)
                super().__init__(np.array(b.points[lo:hi]), np.array(b.weights[lo:hi]), b.domain)
        return Part

    for n in sizes[:3] + sizes[-1:]:
        base = rng.choice(["GaussChebyshevType2", "GaussChebyshev", "MidPoint", "Trapezoidal"])
        cut = rng.choice([1024, 1023, n // 2, n - 1, 1])
        for cls, par in (("TrefethenGeneral", rng.choice([5, 9])), ("TrefethenStripGeneral", round(rng.uniform(1.1, 3.0), 2))):
            with warnings.catch_warnings():
                warnings.simplefilter("ignore")
                full = getattr(og, cls)(n, getattr(og, base), par)
                a = getattr(og, cls)(n, part_class(base, n, 0, cut), par)
                b = getattr(og, cls)(n, part_class(base, n, cut, n), par)
            fp, fw = np.asarray(full.points), np.asarray(full.weights)
            cp, cw = np.concatenate([a.points, b.points]), np.concatenate([a.weights, b.weights])
            # (not bit for bit: NumPy's vectorised loops round the last bit differently in the head / tail of an array)
            if len(fp) != n or not (np.allclose(fp, cp, rtol=1e-13, atol=1e-15) and np.allclose(fw, cw, rtol=1e-13, atol=1e-300)):
                j = int(np.argmax(~np.isclose(fp, cp, rtol=1e-13, atol=1e-15) | ~np.isclose(fw, cw, rtol=1e-13, atol=1e-300))) if len(fp) == len(cp) else -1
                ctx.fail("oracle", f"onedgrid.{cls}", f"{cls}({n}, {base}, {par}): not the concatenation of the same map applied to the base nodes [0:{cut}] and [{cut}:{n}] "
                         f"(first difference at index {j}: {float(fp[j]) if j >= 0 else None!r} vs {float(cp[j]) if j >= 0 else None!r}; {len(fp)} nodes)",
                         witness={"class": cls, "base": base, "npoints": n, "param": par, "cut": cut, "index": j})
    # plain OneDGrid with synthetic points: the domain check reaches the last element, integrate is the full sum
    for n in sizes:
        p = np.array(ctx.np_rng.uniform(0.0, 1.0, n))
        w = np.array(ctx.np_rng.uniform(0.5, 1.5, n))
        f = np.array(ctx.np_rng.uniform(-1.0, 1.0, n))
        g = OneDGrid(p, w, (0, 1))
        k = rng.choice([1024, n // 3, n - 1])
        got = float(g.integrate(f))
        want = math.fsum((w * f).tolist())
        parts = float(g[:k].integrate(f[:k])) + float(g[k:].integrate(f[k:]))
        if abs(got - want) > 1e-12 * n ** 0.5 or abs(got - parts) > 1e-12 * n ** 0.5 or g.size != n:
            ctx.fail("oracle", "basegrid.OneDGrid:block", f"OneDGrid of {n} points: integrate = {got!r}, sum w_i f_i = {want!r}, over the split at {k}: {parts!r}",
                     witness={"npoints": n, "split": k, "np_seed": ctx.seed})
        for pos in (n - 1, 1024, n - 2):
            q = p.copy()
            q[pos] = 1.0 + 1e-5
            try:
                OneDGrid(q, w, (0, 1))
                ctx.fail("oracle", "basegrid.OneDGrid:domain-check", f"OneDGrid of {n} points accepted a point 1e-5 outside the domain at index {pos}",
                         witness={"npoints": n, "index": pos},
                         snippet=(f"import numpy as np\nfrom grid.basegrid import OneDGrid\np = np.full({n}, 0.5); p[{pos}] = 1.0 + 1e-5\ntry:\n    OneDGrid(p, np.ones({n}), (0, 1))\n"
                                  f"except ValueError:\n    pass\nelse:\n    raise AssertionError('a point outside the domain at index {pos} of {n} was accepted')\n"))
            except ValueError:
                pass


def _oracle_order(ctx, og, rng):
    """Classes 22 and 24: node arrays in an order the code may assume.  A base rule handed to the Trefethen...General classes in
    descending and in shuffled order (the maps act node by node: the result is the same permutation of the ascending
    result, provided the mapped nodes are accepted), reversed `OneDGrid`s (`g[::-1]`), one explicit parameter applied to two
    different base rules alternately."""
    from grid.basegrid import OneDGrid

    def permuted(base, perm_of):
        class Perm(OneDGrid):
            def __init__(self, npoints):
                with warnings.catch_warnings():
                    warnings.simplefilter("ignore")
                    b = getattr(og, base)(npoints)
                pm = perm_of(npoints)
                super().__init__(np.array(b.points[pm]), np.array(b.weights[pm]), b.domain)
        return Perm

    for base in ("ClenshawCurtis", "GaussLegendre", "FejerFirst", "GaussChebyshevType2", "Trapezoidal"):
        n = rng.randrange(5, 14)
        sh = list(range(n))
        rng.shuffle(sh)
        for name, pm in (("descending", np.arange(n)[::-1]), ("shuffled", np.array(sh))):
            for cls, par in (("TrefethenGeneral", rng.choice([1, 5, 9])), ("TrefethenStripGeneral", round(rng.uniform(1.1, 3.0), 2))):
                label = f"{cls}({n}, <{base} with its nodes {name}>, {par})"
                try:
                    with warnings.catch_warnings():
                        warnings.simplefilter("ignore")
                        ref = getattr(og, cls)(n, getattr(og, base), par)
                        got = getattr(og, cls)(n, permuted(base, lambda m, pm=pm: pm), par)
                except Exception as e:
                    ctx.fail("oracle", f"onedgrid.{cls}:node-order", f"{label} raised {type(e).__name__}: {e}",
                             witness={"class": cls, "base": base, "npoints": n, "param": par, "order": pm.tolist()})
                    continue
                if not (len(got.points) == n and np.allclose(got.points, ref.points[pm], rtol=1e-13, atol=1e-15)
                        and np.allclose(got.weights, ref.weights[pm], rtol=1e-13, atol=1e-300)):   # (last-bit differences of vectorised loops allowed)
                    ctx.fail("oracle", f"onedgrid.{cls}:node-order", f"{label}: not the same permutation of the rule built on the ascending base",
                             witness={"class": cls, "base": base, "npoints": n, "param": par, "order": pm.tolist(),
                                      "points": [float(v) for v in got.points], "expected": [float(v) for v in ref.points[pm]]})
    # reversed / strided grids
    for src in ("og.ClenshawCurtis(8)", "og.GaussLaguerre(6, 0.5)", "og.TanhSinh(9, 0.25)", "og.ExpSinh(7, 0.3)"):
        with warnings.catch_warnings():
            warnings.simplefilter("ignore")
            g = _eval_src(og, src)
        f = np.cos(g.points)
        want = math.fsum(float(a) * float(b) for a, b in zip(g.weights, f))
        for sl, name in ((slice(None, None, -1), "[::-1]"), (slice(None, None, 2), "[::2]"), (slice(-1, 0, -2), "[-1:0:-2]")):
            h = g[sl]
            ok = np.array_equal(h.points, g.points[sl]) and np.array_equal(h.weights, g.weights[sl]) and tuple(h.domain) == tuple(g.domain)
            wsub = math.fsum(float(a) * float(b) for a, b in zip(g.weights[sl], f[sl]))
            if not ok or abs(float(h.integrate(np.cos(h.points))) - wsub) > 1e-13 * max(1.0, abs(wsub)):
                ctx.fail("oracle", "basegrid.OneDGrid:node-order", f"{src}{name}: nodes / weights / domain / integral differ from the selected entries",
                         witness={"call": src, "slice": name})
        if abs(float(g[::-1].integrate(f[::-1])) - want) > 1e-13 * max(1.0, abs(want)):
            ctx.fail("oracle", "basegrid.OneDGrid:node-order", f"{src}[::-1].integrate differs from the integral on the ascending grid", witness={"call": src})
    # one explicit parameter, two different base rules alternately (class 24)
    n, rho, d = rng.randrange(5, 12), round(rng.uniform(1.1, 3.0), 2), rng.choice([5, 9])
    seq = ["ClenshawCurtis", "GaussChebyshev", "ClenshawCurtis", "MidPoint", "GaussChebyshev", "ClenshawCurtis"]
    for cls, par in (("TrefethenStripGeneral", rho), ("TrefethenGeneral", d)):
        hist = []
        for base in seq:
            src = f"og.{cls}({n}, og.{base}, {par})"
            _ref_fail(ctx, cls, [n, base, par], src, list(hist))
            hist.append(src)


def _oracle_precision_inputs(ctx, og, rng):
    """Class 23: extended / reduced precision values *given directly*: the extra parameter as np.longdouble / np.float16 /
    np.float32 scalar (a value all of them hold exactly), `OneDGrid(points, weights)` and `integrate` with longdouble, float32,
    float16 and integer arrays -- the answer against the float64 one to the precision of the narrower type, the argument
    unchanged, a second call with the same argument object equal to the first."""
    from grid.basegrid import OneDGrid
    vals = {**{c: "0.25" for c in STEP}, "GaussLaguerre": "0.5", "TrefethenStripCC": "1.5", "TrefethenStripGC2": "1.5"}
    for cls, v in vals.items():
        n = 7
        with warnings.catch_warnings():
            warnings.simplefilter("ignore")
            ref = _eval_src(og, f"og.{cls}({n}, {v})")
            for ty, tol in (("np.longdouble", 1e-13), ("np.float16", 2e-3), ("np.float64", 0.0)):
                src = f"og.{cls}({n}, {ty}({v}))"
                try:
                    a, b = _eval_src(og, src), _eval_src(og, src)
                except Exception as e:
                    ctx.info(f"out of scope: {src} raised {type(e).__name__}: {e}")
                    continue
                dp = float(np.max(np.abs(np.asarray(a.points, dtype=float) - ref.points) / np.maximum(1.0, np.abs(ref.points))))
                dw = float(np.max(np.abs(np.asarray(a.weights, dtype=float) - ref.weights) / np.abs(ref.weights)))
                same = np.array_equal(a.points, b.points) and np.array_equal(a.weights, b.weights)
                if not (dp <= tol and dw <= tol and same):
                    ctx.fail("oracle", "onedgrid.precision-parameter", f"{src}: nodes differ by {dp:.2e}, weights by {dw:.2e} (relative) from og.{cls}({n}, {v})"
                             + ("" if same else "; two identical calls differ"),
                             witness={"class": cls, "call": src, "max_node_diff": dp, "max_rel_weight_diff": dw})
    m = 33                                                                   # (the sum needs more bits than float16 has: no narrow accumulation)
    p64 = np.array([rng.randrange(1, 64) / 64 for _ in range(m)])           # exact in every type below
    w64 = np.array([rng.randrange(1, 32) / 16 for _ in range(m)])
    f64 = np.array([rng.randrange(-32, 32) / 8 for _ in range(m)])
    want = math.fsum(float(a) * float(b) for a, b in zip(w64, f64))
    for ty in (np.longdouble, np.float32, np.float16, np.float64):
        p, w, f = p64.astype(ty), w64.astype(ty), f64.astype(ty)
        snap = (p.tobytes(), w.tobytes(), f.tobytes())
        key = "basegrid.OneDGrid:precision-input"
        try:
            g1 = OneDGrid(p, w, (0, 1))
            r1 = float(g1.integrate(f))
            g2 = OneDGrid(p, w, (0, 1))
            r2 = float(g2.integrate(f))
        except Exception as e:
            ctx.fail("oracle", key, f"OneDGrid / integrate with {np.dtype(ty).name} arrays raised {type(e).__name__}: {e}", witness={"dtype": np.dtype(ty).name})
            continue
        # all three arrays in the narrow type: NumPy accumulates in that type -- the answer to ITS precision; the narrow values on
        # a float64 grid: to float64 precision (the values are exact in every type)
        eps = float(np.finfo(ty).eps)
        scale = math.fsum(abs(float(a) * float(b)) for a, b in zip(w64, f64))
        try:
            r3 = float(OneDGrid(p64, w64, (0, 1)).integrate(f))
        except Exception as e:
            r3 = f"{type(e).__name__}: {e}"
        if isinstance(r3, str) or abs(r3 - want) > 1e-12 * max(1.0, abs(want)):
            ctx.fail("oracle", key, f"integrate of {np.dtype(ty).name} values (exact in that type) on a float64 grid: {r3!r}, float64 answer {want!r}",
                     witness={"dtype": np.dtype(ty).name, "points": p64.tolist(), "weights": w64.tolist(), "values": f64.tolist()})
        if not (abs(r1 - want) <= max(1e-12, 4 * eps) * max(1.0, scale) and r1 == r2 and np.array_equal(np.asarray(g1.points, dtype=float), p64)
                and (p.tobytes(), w.tobytes(), f.tobytes()) == snap):
            ctx.fail("oracle", key, f"OneDGrid / integrate with {np.dtype(ty).name} arrays (values exact in that type): {r1!r} / second time {r2!r}, float64 answer {want!r}"
                     + ("" if (p.tobytes(), w.tobytes(), f.tobytes()) == snap else "; an argument was modified"),
                     witness={"dtype": np.dtype(ty).name, "points": p64.tolist(), "weights": w64.tolist(), "values": f64.tolist()})
        # a point outside the domain is refused whatever the type (1/64 steps: exact)
        q = p.copy()
        q[rng.randrange(m)] = ty(1.5)
        try:
            OneDGrid(q, w, (0, 1))
            ctx.fail("oracle", "basegrid.OneDGrid:domain-check", f"OneDGrid accepted the point 1.5 outside (0, 1) in a {np.dtype(ty).name} array", witness={"dtype": np.dtype(ty).name})
        except ValueError:
            pass
    for ity in (np.int64, np.int32, np.int8, np.uint8):
        p = np.array([3, 0, 7, 2], dtype=ity)
        g = OneDGrid(p, np.array([1, 2, 1, 2], dtype=ity), (0, np.inf))
        r = float(g.integrate(np.array([1, -1, 2, 3], dtype=np.int64)))
        if r != 1 * 1 + 2 * (-1) + 1 * 2 + 2 * 3 or not np.array_equal(g.points, [3, 0, 7, 2]):
            ctx.fail("oracle", "basegrid.OneDGrid:precision-input", f"OneDGrid / integrate with {np.dtype(ity).name} arrays: {r!r} instead of 7", witness={"dtype": np.dtype(ity).name})
        if np.dtype(ity).kind == "i":
            try:
                OneDGrid(np.array([3, -1, 2], dtype=ity), np.ones(3), (0, np.inf))
                ctx.fail("oracle", "basegrid.OneDGrid:domain-check", f"OneDGrid accepted the point -1 outside (0, inf) in a {np.dtype(ity).name} array", witness={"dtype": np.dtype(ity).name})
            except ValueError:
                pass


def _oracle_inplace(ctx, og, rng):
    """Class 25: the same array object modified in place between two calls -- for the array arguments of `OneDGrid(points,
    weights, domain)` and `integrate(*values)`, and for the arrays a quadrature class hands to the Trefethen...General classes:
    the second answer is the one on a fresh copy of the new contents (nothing remembered by object identity)."""
    from grid.basegrid import OneDGrid
    key = "basegrid.OneDGrid:modified-in-place"
    buf = np.array([rng.uniform(0.1, 0.9) for _ in range(8)])
    w = np.array([rng.uniform(0.5, 1.5) for _ in range(8)])
    f = np.array([rng.uniform(-1, 1) for _ in range(8)])
    g1 = OneDGrid(buf, w, (0, 1))
    r1 = float(g1.integrate(f, buf))
    new = np.array([rng.uniform(0.1, 0.9) for _ in range(8)])
    buf[:] = new
    f *= 3.0
    w[...] = w[::-1].copy()
    want = math.fsum(float(a) * float(b) * float(c) for a, b, c in zip(w, f, new))
    g2 = OneDGrid(buf, w, (0, 1))
    r2, r1b = float(g2.integrate(f, buf)), float(g1.integrate(f, buf))
    fresh = float(OneDGrid(new.copy(), w.copy(), (0, 1)).integrate(f.copy(), new.copy()))
    if not (abs(r2 - want) <= 1e-13 * max(1.0, abs(want)) and r2 == fresh and r1b == fresh and np.array_equal(g2.points, new)):
        ctx.fail("oracle", key, f"points / weights / values overwritten in place between two constructions: integrate = {r2!r} (first grid: {r1b!r}), on fresh copies {fresh!r}, exact {want!r}",
                 witness={"new_points": new.tolist(), "weights": w.tolist(), "values": f.tolist(), "before": r1})
    buf[3] = 1.5          # now outside the declared domain: an earlier acceptance of this object must not be remembered
    try:
        OneDGrid(buf, w, (0, 1))
        ctx.fail("oracle", "basegrid.OneDGrid:domain-check", "OneDGrid accepted an array that was accepted before and then got a point outside the domain written into it",
                 witness={"points": buf.tolist()},
                 snippet="import numpy as np\nfrom grid.basegrid import OneDGrid\nb = np.array([0.2, 0.4, 0.6]); w = np.ones(3)\nOneDGrid(b, w, (0, 1))\nb[1] = 1.5\n"
                         "try:\n    OneDGrid(b, w, (0, 1))\nexcept ValueError:\n    pass\nelse:\n    raise AssertionError('accepted after the in-place edit')\n")
    except ValueError:
        pass
    # the arrays behind a quadrature class
    store = {}

    class Buffered(OneDGrid):
        def __init__(self, npoints):
            super().__init__(store["p"], store["w"], (-1, 1))

    n = 7
    with warnings.catch_warnings():
        warnings.simplefilter("ignore")
        b1, b2 = og.GaussLegendre(n), og.FejerFirst(n)
        store["p"], store["w"] = b1.points.copy(), b1.weights.copy()
        for cls, par in (("TrefethenGeneral", 5), ("TrefethenStripGeneral", 1.6), ("TrefethenGeneral", 1)):
            store["p"][:], store["w"][:] = b1.points, b1.weights
            first = getattr(og, cls)(n, Buffered, par)
            fp = first.points.copy()
            store["p"][:], store["w"][:] = b2.points, b2.weights            # same objects, new contents
            second = getattr(og, cls)(n, Buffered, par)
            want2 = getattr(og, cls)(n, og.FejerFirst, par)
            if not (np.allclose(second.points, want2.points, rtol=1e-13, atol=1e-15) and np.allclose(second.weights, want2.weights, rtol=1e-13, atol=0)):
                ctx.fail("oracle", f"onedgrid.{cls}:modified-in-place", f"{cls}({n}, <class handing out the same two array objects>, {par}) after the arrays were overwritten with the FejerFirst rule: "
                         f"not the rule built on FejerFirst (first node {float(second.points[0])!r} vs {float(want2.points[0])!r}; before the overwrite {float(fp[0])!r})",
                         witness={"class": cls, "npoints": n, "param": par})


PAIRS = [("og.ClenshawCurtis(7)", "og.ClenshawCurtis(8)"), ("og.TrefethenStripGeneral(6, og.ClenshawCurtis, 1.4)", "og.TrefethenStripGeneral(6, og.MidPoint, 1.4)"),
         ("og.GaussLaguerre(5)", "og.GaussLaguerre(5, -0.5)"), ("og.TrefethenCC(6, 5)", "og.TrefethenGC2(6, 5)"), ("og.TanhSinh(7, 0.1)", "og.SingleTanh(7, 0.1)"),
         ("og.FejerFirst(5)", "og.FejerSecond(5)"), ("og.ExpSinh(5, 0.3)", "og.LogExpSinh(5, 0.3)"), ("og.Simpson(7)", "og.Trapezoidal(7)"),
         ("og.TrefethenGeneral(6, og.GaussChebyshev, 9)", "og.TrefethenGeneral(6, og.GaussChebyshevType2, 9)"),
         ("og.UniformInteger(4)", "og.MidPoint(4)"), ("og.TrefethenStripCC(9, 1.1)", "og.TrefethenStripCC(9, 2.5)")]


def _oracle_pairs(ctx, og, rng):
    """Class 26: state shared between instances.  Two rules that differ in one hidden dependency (odd / even size, a base with
    or without nodes at the end points, alpha = 0 or not, the sibling class) built in either order, each in its own fresh
    interpreter (A then B; B then A); every answer must be the one obtained when the rule is the first thing the process
    builds, and both objects stay what they were after the other one exists."""
    import json
    import os
    import subprocess
    import sys
    env = dict(os.environ)
    if os.environ.get("GRID_REPO"):
        env["PYTHONPATH"] = os.path.join(os.environ["GRID_REPO"], "src") + os.pathsep + env.get("PYTHONPATH", "")
    ab = [x for a, b in PAIRS for x in (a, b, a)]
    ba = [x for a, b in PAIRS for x in (b, a, b)]
    res = []
    for order in (ab, ba):
        p = subprocess.run([sys.executable, "-c", FRESH, json.dumps(order)], env=env, cwd="/", capture_output=True, text=True, timeout=300)
        res.append(next(json.loads(l[2:]) for l in p.stdout.splitlines() if l.startswith("@@")))
    for k, (a, b) in enumerate(PAIRS):
        ra = [res[0][3 * k], res[0][3 * k + 2], res[1][3 * k + 1]]     # a first; a after b; a after b in the other process
        rb = [res[1][3 * k], res[1][3 * k + 2], res[0][3 * k + 1]]
        for src, other, rr in ((a, b, ra), (b, a, rb)):
            cls = src[3:src.index("(")]
            ctx.count(["pair", src, other], nontrivial=True, tag="instance-pairs")
            if any(r != rr[0] for r in rr[1:]) or isinstance(rr[0], str):
                which = "built again after" if rr[1] != rr[0] else "built after"
                snippet = (f"import warnings; warnings.filterwarnings('ignore')\nimport numpy as np, subprocess, sys\nfrom grid import onedgrid as og\n"
                           f"first = {other}\ng = {src}\ncode = 'import warnings; warnings.filterwarnings(\"ignore\"); import numpy as np; from grid import onedgrid as og; g = {src}; print(repr(g.points.tolist() + g.weights.tolist()))'\n"
                           f"alone = eval(subprocess.run([sys.executable, '-c', code], capture_output=True, text=True).stdout)\n"
                           f"assert g.points.tolist() + g.weights.tolist() == alone, '{src} after {other} differs from {src} alone in a fresh process'\n")
                ctx.fail("oracle", f"onedgrid.{cls}:instance-pair", f"{src} {which} {other} differs from {src} as the first construction of a fresh process"
                         + (f" ({rr[0]} / {rr[1]} / {rr[2]})" if any(isinstance(r, str) for r in rr) else ""),
                         witness={"call": src, "other": other}, snippet=snippet)
    # in this process: both objects keep their values once the other exists
    for a, b in PAIRS:
        with warnings.catch_warnings():
            warnings.simplefilter("ignore")
            ga = _eval_src(og, a)
            snap = (ga.points.copy(), ga.weights.copy())
            gb = _eval_src(og, b)
            gb.points[...] = gb.points * 1.0
        if not (np.array_equal(ga.points, snap[0], equal_nan=True) and np.array_equal(ga.weights, snap[1], equal_nan=True)):
            ctx.fail("oracle", f"onedgrid.{a[3:a.index('(')]}:instance-pair", f"{a} changed when {b} was built", witness={"call": a, "other": b})


def oracle(ctx: Ctx, budget: str):
    """The property on the implementation: exact moments against rationals / mpmath, documented nodes and
    weights, weight = step x derivative of the node map (mpmath differentiation), order and domain.  Independent parts,
    each protected: an exception in one never hides what the others find (`_run_parts`)."""
    og = _og()
    large = budget == "large" or ctx.thorough
    nmax = 64
    rng = ctx.rng

    def fejer2_beyond():
        # the listed Fejer-2 finding is "complete sine series minus its last term": anything else is a new defect
        for n in range(2, nmax + 1):
            _ref_fail(ctx, "FejerSecond", [n], f"og.FejerSecond({n})", [])

    _run_parts(ctx, "oracle", [
        ("repeated", lambda: _oracle_repeated(ctx, og, rng)),      # first: its failures carry the constructions that precede them
        ("moments", lambda: _oracle_moments(ctx, og, nmax)),
        ("weighted", lambda: _oracle_weighted(ctx, og, nmax, rng)),
        ("closed", lambda: _oracle_closed(ctx, og, rng, nmax if large else 40)),
        ("subst", lambda: _oracle_subst(ctx, og, rng, nmax, large)),
        ("step-grid", lambda: _oracle_step_grid(ctx, og, rng, large)),
        ("trefethen", lambda: _oracle_trefethen(ctx, og, rng, 40, 12 if large else 3)),
        ("fejer2", fejer2_beyond),
        ("float32", lambda: _oracle_float32(ctx, og)),
        ("domain-check", lambda: _oracle_domain_check(ctx, rng)),
        ("use", lambda: _oracle_use(ctx, og, rng)),
        ("array-kinds", lambda: _oracle_kinds(ctx, og, rng)),
        ("argument-forms", lambda: _oracle_arg_forms(ctx, og, rng)),
        ("shared-arguments", lambda: _oracle_shared_args(ctx, og, rng)),
        ("after-raise", lambda: _oracle_after_raise(ctx, og, rng)),
        ("shapes", lambda: _oracle_shapes(ctx, og, rng)),
        ("block-sizes", lambda: _oracle_block_sizes(ctx, og, rng, ctx.thorough)),
        ("node-order", lambda: _oracle_order(ctx, og, rng)),
        ("precision-inputs", lambda: _oracle_precision_inputs(ctx, og, rng)),
        ("modified-in-place", lambda: _oracle_inplace(ctx, og, rng)),
        ("instance-pairs", lambda: _oracle_pairs(ctx, og, rng)),
        ("guards", lambda: _oracle_guards(ctx, og)),
    ])


def _oracle_guards(ctx, og):
    # rejected sizes (every `npoints` guard: below the smallest size; even sizes of the odd-only rules)
    for cls in ALL26:
        if cls in ("TrefethenGeneral", "TrefethenStripGeneral"):
            continue
        bad = (0, -3) + ((1,) if cls not in STEP[1:] + ["GaussChebyshevType2", "TrefethenGC2", "TrefethenStripGC2"] else ())
        if cls in STEP or cls == "Simpson":
            bad += (2, 4, 10, 64)
        for n in bad:
            if _build(og, cls, n) is not None:
                ctx.fail("oracle", f"onedgrid.{cls}", f"{cls}({n}) accepted although npoints = {n} is not admissible",
                         witness={"class": cls, "npoints": n},
                         snippet=f"import warnings; warnings.filterwarnings('ignore')\nfrom grid import onedgrid as og\ntry:\n    og.{cls}({n})\nexcept ValueError:\n    pass\nelse:\n    raise AssertionError('{cls}({n}) accepted')\n")
        # inadmissible extra parameters (`h <= 0`, `alpha <= -1`, `d` not in 1 / 5 / 9) must be refused
        n0 = 5
        badpar = ([0.0, -0.1, -5e-324] if cls in STEP[1:] else [-1.0, -1.5] if cls == "GaussLaguerre" else
                  [0, 3, 7, -9, 10] if cls in ("TrefethenCC", "TrefethenGC2") else [])
        for par in badpar:
            if _build(og, cls, n0, par) is not None:
                ctx.fail("oracle", f"onedgrid.{cls}", f"{cls}({n0}, {par!r}) accepted although the parameter is not admissible",
                         witness={"class": cls, "npoints": n0, "param": par},
                         snippet=f"import warnings; warnings.filterwarnings('ignore')\nfrom grid import onedgrid as og\ntry:\n    og.{cls}({n0}, {par!r})\nexcept ValueError:\n    pass\nelse:\n    raise AssertionError('{cls}({n0}, {par!r}) accepted')\n")
        # the smallest admissible sizes must be accepted (rules with an extra parameter: its default)
        small = (1, 3) if cls in STEP[1:] else ((3, 5) if cls in ("TanhSinh", "Simpson") else ((1, 2) if "GC2" in cls or cls == "GaussChebyshevType2" else (2, 3)))
        for n in small:
            if _build(og, cls, n) is None:
                ctx.fail("oracle", f"onedgrid.{cls}", f"{cls}({n}) rejected although npoints = {n} is admissible",
                         witness={"class": cls, "npoints": n},
                         snippet=f"import warnings; warnings.filterwarnings('ignore')\nfrom grid import onedgrid as og\ntry:\n    og.{cls}({n})\nexcept ValueError as e:\n    raise AssertionError('{cls}({n}) rejected: ' + str(e))\n")

"""C01 — every 1-D quadrature rule is exact on its polynomial class, for every size."""
import importlib
import math
import warnings
from fractions import Fraction

import numpy as np

from ..common import Ctx, Tokens, b2f, close, driver_batch, f2b, fvec

LEVEL = "proof"
LEVEL_TEXT = (
    "Lean theorems over the reals, for every admissible n: trapezoid/midpoint (degree <= 1) and Simpson (degree <= 3, odd n) "
    "integrate every polynomial of that degree exactly; Fejer-1 and Clenshaw-Curtis as coded (series length, denominators, "
    "frequencies and the last-coefficient patch taken from the regenerated source) integrate every polynomial of degree <= n-1 exactly; Gauss-Chebyshev-1 under the closed-form chebgauss contract, and "
    "the weight division / reversal the repository adds to any Gauss rule (Legendre, Chebyshev-2, Laguerre, alpha > -1) keep "
    "exactness up to degree 2n-1 (external nodes by contract GaussExact); for the 7 variable-substitution rules the generated "
    "weight expression is step x derivative of the generated node map at the node (HasDerivAt), nodes strictly ascending and "
    "inside the declared domain; closed-form rules have n ascending nodes in the domain; _derg2/_derg3/_dergstrip are the "
    "derivatives of _g2/_g3/_gstrip, g(+-1)=+-1, g'>0. Fejer-2 as coded is not exact (negation proved at n=2; known finding). "
    "Not proved (kept as `_full` statements, decided by the oracle): Fejer-2 exactness (false for the code), monotonicity / end-point "
    "limit of the strip map."
)
TECHNIQUE = "Lean 4 proof over R on formulas/bounds regenerated from the source + differential correspondence of all 26 constructors + exact-moment oracle"
GEN = ["onedgrid"]
LEAN_MODULES = [
    "GridVerif.Props.C01.NewtonCotes",
    "GridVerif.Props.C01.Fejer",
    "GridVerif.Props.C01.ClenshawCurtis",
    "GridVerif.Props.C01.Gauss",
    "GridVerif.Props.C01.Subst",
    "GridVerif.Props.C01.Closed",
    "GridVerif.Props.C01.Shape",
]
_T = {
    "NewtonCotes": ["trapezoid_exact", "midpoint_exact", "simpson_exact"],
    "Fejer": ["fejer1_gen_facts", "fejer1_exact_T", "fejer1_exact", "fejer2_weights_two", "fejer2_fails_at_2"],
    "ClenshawCurtis": ["cc_gen_facts", "clenshawcurtis_exact_T", "clenshawcurtis_exact"],
    "Gauss": ["gauss_weight_division", "quad_reverse_points_only", "gausslegendre_exact", "gausscheb2_exact",
              "gausslaguerre_exact", "gausscheb1_exact"],
    "Subst": [f"{c}_{t}" for c in ("tanhsinh", "expsinh", "logexpsinh", "expexp", "singletanh", "singleexp", "singlearcsinhexp")
              for t in ("weight_is_step_times_deriv", "strictMono", "shape")] + ["tanhsinh_in_domain"],
    "Closed": ["derg2_is_deriv_g2", "derg3_is_deriv_g3", "g2_endpoints", "g3_endpoints", "derg2_pos", "derg3_pos",
               "dergstrip_is_deriv_gstrip"],
    "Shape": ["trapezoidal_shape", "simpson_shape", "midpoint_shape", "rectanglesine_shape", "uniforminteger_shape",
              "chebyshevlobatto_shape", "clenshawcurtis_shape", "fejerfirst_shape", "fejersecond_shape",
              "chebyshevlobatto_weights_formula", "rectanglesine_weights_formula",
              "trefethen_poly_shape", "trefethen_poly_reject", "trefethencc_shape"],
}
THEOREMS = [f"GridVerif.C01.{t}" for ts in _T.values() for t in ts]
RULE = (
    "correspondence: each of the 26 constructors x every npoints in -1..40 plus sampled npoints <= 400 (odd and even) x "
    "default and random extra parameters (delta, h, alpha, d, rho, base quadrature) incl. rejected ones, constructor vs "
    "Lean model at Float (Gauss nodes of NumPy/SciPy fed to the model); plus every generated function/bound vs the "
    "Python expression it came from; non-trivial = accepted rule with n >= 3 and, for parametrised rules, a non-default parameter"
)
TRUSTED_BASE = [
    "Lean 4.33 kernel; axioms propext, Classical.choice, Quot.sound only (audited per theorem)",
    "translator harness/translate/onedgrid.py (AST -> Gen/OneDFormulas.lean; self-checked at Float against the source expressions on every run)",
    "hand model Model/OneD.lean of the 26 constructors and OneDGrid.__init__, tied by correspondence",
    "Elem R instance (which real function each NumPy name denotes)",
    "NumPy/SciPy Gauss nodes (leggauss, chebgauss, roots_chebyu, roots_genlaguerre): contract GaussExact, not verified",
]
ASSUMPTIONS = [
    "npoints is a Python int; extra parameters are finite floats",
    "rounding is not modelled: theorems are exact over R, the correspondence uses rtol 1e-11..1e-9 (1e-6 where |k*h| > 6 saturates tanh/exp)",
    "a NaN among the points disables OneDGrid's domain check in NumPy (np.min), not in the model; not generated",
]

# ----------------------------------------------------------------------------------------------
NOARG = ["UniformInteger", "GaussChebyshevLobatto", "Trapezoidal", "RectangleRuleSineEndPoints", "Simpson",
         "MidPoint", "ClenshawCurtis", "FejerFirst", "FejerSecond"]
STEP = ["TanhSinh", "ExpSinh", "LogExpSinh", "ExpExp", "SingleTanh", "SingleExp", "SingleArcSinhExp"]
GAUSS = ["GaussLegendre", "GaussChebyshev", "GaussChebyshevType2"]
ALL26 = NOARG + STEP + GAUSS + ["GaussLaguerre", "TrefethenCC", "TrefethenGC2", "TrefethenGeneral",
                                "TrefethenStripCC", "TrefethenStripGC2", "TrefethenStripGeneral"]
BASES = NOARG + STEP + GAUSS + ["GaussLaguerre", "TrefethenCC", "TrefethenGC2", "TrefethenStripCC", "TrefethenStripGC2"]
STEP_DEFAULT = {"TanhSinh": 0.1, "ExpSinh": 1.0}


def _og():
    return importlib.import_module("grid.onedgrid")


def _gauss_for(cls, n, alpha=0.0):
    """Output of the NumPy/SciPy call the constructor `cls` makes (empty when that call is not reached)."""
    from scipy.special import roots_chebyu, roots_genlaguerre
    try:
        if cls == "GaussLegendre" and n > 1:
            return np.polynomial.legendre.leggauss(n)
        if cls == "GaussChebyshev" and n > 1:
            return np.polynomial.chebyshev.chebgauss(n)
        if cls in ("GaussChebyshevType2", "TrefethenGC2", "TrefethenStripGC2") and n >= 1:
            return roots_chebyu(n)
        if cls == "GaussLaguerre" and n > 1 and alpha > -1:
            return roots_genlaguerre(n, alpha)
    except Exception:
        pass
    return np.array([]), np.array([])


def _impl(fn):
    with warnings.catch_warnings():
        warnings.simplefilter("ignore")
        try:
            g = fn()
        except ValueError:
            return "value-error"
        except TypeError:
            return "type-error"
        except RuntimeError:
            return "runtime-error"
    dom = g.domain
    return (np.asarray(g.points, dtype=float), np.asarray(g.weights, dtype=float), float(dom[0]), float(dom[1]))


def _parse(ans):
    if not ans.startswith("ok"):
        return ans
    t = Tokens(ans)
    t.tok()
    p = t.fvec()
    w = t.fvec()
    lo = t.flt()
    hi = t.tok()
    hi = math.inf if hi == "inf" else b2f(hi)
    return (np.array(p), np.array(w), lo, hi)


def _vec_close(a, b, rtol, elementwise):
    if len(a) != len(b):
        return False, "length"
    if len(a) == 0:
        return True, ""
    fin = [abs(x) for x in list(a) + list(b) if np.isfinite(x)]
    scale = max(fin) if fin else 1.0
    for i, (x, y) in enumerate(zip(a, b)):
        ok = close(float(x), float(y), rtol=rtol) if elementwise else close(float(x), float(y), rtol=rtol, scale=scale)
        if not ok and elementwise and abs(x) < 1e-300 and abs(y) < 1e-300:
            ok = True  # subnormal range
        if not ok:
            return False, f"entry {i}: implementation {float(x)!r}, model {float(y)!r}"
    return True, ""


def _cases(ctx: Ctx):
    """-> list of dict(cls, n, line, call, nontrivial, tag, rtol, elementwise)"""
    og = _og()
    rng = ctx.rng
    ns = list(range(-1, 41))
    extra = ctx.n(10, 400)
    big = sorted({rng.randrange(41, 401) for _ in range(extra)} | {rng.randrange(20, 200) * 2 + 1 for _ in range(extra // 2)})
    cases = []

    def add(cls, n, line, call, nontrivial, tag, rtol=1e-10, elementwise=False):
        cases.append(dict(cls=cls, n=n, line=line, call=call, nontrivial=nontrivial, tag=tag, rtol=rtol, elementwise=elementwise))

    def gv(pw):
        return fvec(pw[0]) + " " + fvec(pw[1])

    for n in ns + big:
        small = n <= 40
        for cls in NOARG:
            add(cls, n, f"C01.make {cls} {n}", (lambda c=cls, n=n: getattr(og, c)(n)), n >= 3, cls)
        # substitution rules
        for cls in STEP:
            dflt = STEP_DEFAULT.get(cls, 0.1)
            hs = [dflt]
            if small or ctx.thorough or rng.random() < 0.5:
                hs.append(round(rng.uniform(0.01, 0.6), 3))
            if n in (3, 4, 7) and cls != "TanhSinh":
                hs += [0.0, -0.25]
            if n == 5 and cls == "TanhSinh":
                hs += [-0.1]
            for h in hs:
                kh = abs(h) * max(abs(n), 1) / 2
                add(cls, n, f"C01.make {cls} {n} {f2b(h)}", (lambda c=cls, n=n, h=h: getattr(og, c)(n, h)),
                    n >= 3 and h != dflt, cls, rtol=(1e-11 if kh <= 6 else 1e-6), elementwise=True)
        # Gauss wrappers
        for cls in GAUSS:
            add(cls, n, f"C01.make {cls} {n} " + gv(_gauss_for(cls, n)), (lambda c=cls, n=n: getattr(og, c)(n)), n >= 3, cls, rtol=1e-11)
        if n <= 200:
            alphas = [0.0]
            if small or ctx.thorough or rng.random() < 0.5:
                alphas.append(round(rng.uniform(-0.95, 6.0), 3))
            if n in (2, 5):
                alphas += [-1.0, -2.5]
            for a in alphas:
                add("GaussLaguerre", n, f"C01.make GaussLaguerre {n} {f2b(a)} " + gv(_gauss_for("GaussLaguerre", n, a)),
                    (lambda n=n, a=a: og.GaussLaguerre(n, a)), n >= 3 and a != 0.0, "GaussLaguerre", rtol=1e-11, elementwise=True)
        # Trefethen polynomial maps
        ds = [9, 5, 1] if small else [rng.choice([1, 5, 9])]
        if n in (3, 6):
            ds += [3, 0, 7]
        for d in ds:
            add("TrefethenCC", n, f"C01.make TrefethenCC {n} {d}", (lambda n=n, d=d: og.TrefethenCC(n, d)), n >= 3 and d != 9, "TrefethenCC")
            add("TrefethenGC2", n, f"C01.make TrefethenGC2 {n} {d} " + gv(_gauss_for("TrefethenGC2", n)),
                (lambda n=n, d=d: og.TrefethenGC2(n, d)), n >= 3 and d != 9, "TrefethenGC2")
        rhos = [1.1] + ([round(rng.uniform(1.02, 4.0), 3)] if small or ctx.thorough or rng.random() < 0.5 else [])
        for rho in rhos:
            add("TrefethenStripCC", n, f"C01.make TrefethenStripCC {n} {f2b(rho)}", (lambda n=n, r=rho: og.TrefethenStripCC(n, r)),
                n >= 3 and rho != 1.1, "TrefethenStripCC", rtol=1e-9)
            add("TrefethenStripGC2", n, f"C01.make TrefethenStripGC2 {n} {f2b(rho)} " + gv(_gauss_for("TrefethenStripGC2", n)),
                (lambda n=n, r=rho: og.TrefethenStripGC2(n, r)), n >= 3 and rho != 1.1, "TrefethenStripGC2", rtol=1e-9)
        # general versions over a base rule
        for _ in range(2 if small else 1):
            base = rng.choice(BASES)
            d = rng.choice([1, 5, 9, 9])
            rho = round(rng.uniform(1.02, 4.0), 3)
            gb = "GaussChebyshevType2" if base in ("TrefethenGC2", "TrefethenStripGC2") else base
            pw = _gauss_for(gb, n)
            elementwise = False  # mapped values of tiny/huge base nodes cancel in the strip map: compare on the scale of the vector
            add("TrefethenGeneral", n, f"C01.make TrefethenGeneral {n} {base} {d} " + gv(pw),
                (lambda n=n, b=base, d=d: og.TrefethenGeneral(n, getattr(og, b), d)), n >= 3, f"TrefethenGeneral:{base}", rtol=1e-9,
                elementwise=elementwise)
            add("TrefethenStripGeneral", n, f"C01.make TrefethenStripGeneral {n} {base} {f2b(rho)} " + gv(pw),
                (lambda n=n, b=base, r=rho: og.TrefethenStripGeneral(n, getattr(og, b), r)), n >= 3, f"TrefethenStripGeneral:{base}",
                rtol=1e-9, elementwise=elementwise)
        if n == 4:
            add("TrefethenGeneral", n, "C01.make TrefethenGeneral 4 - 9 0 0", (lambda: og.TrefethenGeneral(4, int, 9)), False, "TrefethenGeneral:not-a-grid")
    return cases


def _selfcheck_translation(ctx: Ctx):
    """Every generated definition evaluated by the driver against the source expression it came from."""
    from ..translate import onedgrid as tr
    og = _og()
    rng = ctx.rng
    series, subst = tr.python_side()
    lines, want, what = [], [], []
    for cls, exprs in series.items():
        for n in list(range(2, 30)) + [rng.randrange(30, 500) for _ in range(6)]:
            env = {"npoints": n, "np": np}
            for name in ("jmed", "nsum"):
                if name in exprs:
                    env[name] = eval(exprs[name], {}, env)
            for name, e in exprs.items():
                if name in ("denom", "freq"):
                    j0 = int(eval(exprs["jOff"], {}, env))
                    for j in (j0, j0 + 1, j0 + 2, j0 + 5, j0 + rng.randrange(1, 300)):
                        v = eval(e, {}, {**env, "j": j})
                        lines.append(f"C01.nat {cls}.{name} {n} {j}")
                        want.append(f"ok {int(v)}")
                        what.append(f"{cls}.{name}(n={n}, j={j}) = {e}")
                else:
                    v = eval(e, {}, env)
                    if int(v) < 0:
                        continue  # Python would raise on a negative length; covered by the constructor comparison
                    lines.append(f"C01.nat {cls}.{name} {n}")
                    want.append(f"ok {int(v)}")
                    what.append(f"{cls}.{name}(n={n}) = {e}")
    for cls, r in subst.items():
        for n in list(range(1, 26, 2)) + [2 * rng.randrange(13, 300) + 1]:
            env = {"npoints": n, "np": np}
            exec(r["py_index"], {}, env)
            k = env["__k"]
            lines += [f"C01.int {cls}.kFirst {n}", f"C01.nat {cls}.kLen {n}"]
            want += [f"ok {int(k[0])}", f"ok {len(k)}"]
            what += [f"{cls} first index (n={n}): {r['py_index']}"] * 2
    model = driver_batch(lines)
    for ln, w, m, wh in zip(lines, want, model, what):
        ctx.count(ln.split(), nontrivial=False, tag="gen:int")
        if w != m:
            ctx.fail("corr", "gen:" + ln.split()[1], f"generated definition differs from the source expression {wh}: source {w}, Lean {m}",
                     witness={"op": ln, "source": w, "lean": m})
    # float-valued generated functions
    lines, want, what = [], [], []
    for f in ("g2", "derg2", "g3", "derg3"):
        for x in [-1.0, 1.0, 0.0] + [rng.uniform(-1, 1) for _ in range(12)]:
            lines.append(f"C01.fn {f} {f2b(x)}")
            want.append(float(getattr(og, "_" + f)(np.float64(x))))
            what.append((f, x))
    for _ in range(25):
        rho = rng.uniform(1.02, 5.0)
        for s in [rng.uniform(-1, 1), rng.choice([-1.0, 1.0, 1 - 1e-9, -1 + 5e-9, 1 - 1e-7])]:
            lines.append(f"C01.fn gstrip {f2b(rho)} {f2b(s)}")
            want.append(float(og._gstrip(rho, np.array([s]))[0]))
            what.append(("gstrip", rho, s))
            lines.append(f"C01.fn dergstrip {f2b(rho)} {f2b(s)}")
            with np.errstate(all="ignore"):
                want.append(float(og._dergstrip(rho, np.array([s]))[0]))
            what.append(("dergstrip", rho, s))
    with warnings.catch_warnings():
        warnings.simplefilter("ignore")
        for cls, r in subst.items():
            for _ in range(4):
                n = 2 * rng.randrange(0, 12) + 1
                if cls == "TanhSinh":
                    n = max(n, 3)
                h = rng.uniform(0.02, 0.5)
                g = getattr(og, cls)(n, h)
                k0 = -(n - 1) // 2
                for i in range(n):
                    lines.append(f"C01.fn {cls}.node {f2b(float(k0 + i))} {f2b(h)}")
                    want.append(float(g.points[i]))
                    what.append((cls + ".node", k0 + i, h))
                    lines.append(f"C01.fn {cls}.weight {f2b(float(k0 + i))} {f2b(h)}")
                    want.append(float(g.weights[i]))
                    what.append((cls + ".weight", k0 + i, h))
    model = driver_batch(lines)
    for ln, w, m, wh in zip(lines, want, model, what):
        ctx.count([wh[0]] + [float(x) for x in wh[1:]], nontrivial=False, tag="gen:float")
        got = Tokens(m)
        ok = got.tok() == "ok"
        v = got.flt() if ok else float("nan")
        if not ok or not close(w, v, rtol=1e-11, atol=1e-300):
            ctx.fail("corr", "gen:" + wh[0], f"generated {wh[0]}{tuple(wh[1:])}: source gives {w!r}, Lean {v!r}",
                     witness={"op": ln, "source": w, "lean": v})


def corr(ctx: Ctx):
    _selfcheck_translation(ctx)
    cases = _cases(ctx)
    model = driver_batch([c["line"] for c in cases])
    for c, ans in zip(cases, model):
        impl = _impl(c["call"])
        mod = _parse(ans)
        cls, n = c["cls"], c["n"]
        rejected = isinstance(impl, str)
        ctx.count(c["line"].split()[1:5], nontrivial=c["nontrivial"] and not rejected,
                  tag=c["tag"] + (":" + impl if rejected else ""))
        key = f"make:{cls}"
        if isinstance(impl, str) or isinstance(mod, str):
            if impl is not mod and impl != mod:
                ctx.fail("corr", key, f"{c['line'][:80]}: implementation {impl if isinstance(impl, str) else 'ok'}, model {mod if isinstance(mod, str) else 'ok'}",
                         witness={"op": c["line"][:300]})
            continue
        if (impl[2], impl[3]) != (mod[2], mod[3]):
            ctx.fail("corr", key, f"{cls}({n}): domain {impl[2:]} vs model {mod[2:]}")
        for nm, a, b in (("points", impl[0], mod[0]), ("weights", impl[1], mod[1])):
            ok, why = _vec_close(a, b, c["rtol"], c["elementwise"])
            if not ok:
                ctx.fail("corr", key, f"{' '.join(c['line'].split()[1:5])}: {nm} differ, {why}",
                         witness={"op": c["line"][:300], "which": nm, "detail": why})
                break


# ----------------------------------------------------------------------------------------------
# oracle
# ----------------------------------------------------------------------------------------------
SNIP_MOMENT = """import warnings; warnings.filterwarnings('ignore')
import numpy as np, math
from fractions import Fraction
from grid import onedgrid as og
g = og.{cls}({n})
k = {k}
got = math.fsum(float(w) * float(x) ** k for w, x in zip(g.weights, g.points))
want = Fraction(0) if k % 2 else Fraction(2, k + 1)          # integral of x^k over [-1, 1]
assert abs(got - float(want)) <= {tol}, f'{cls}({n}): sum w_i x_i^{{k}} = {{got!r}}, exact integral {{want}}'
"""

INTERP = {  # class -> nominal degree as a function of n
    "GaussLegendre": lambda n: 2 * n - 1,
    "ClenshawCurtis": lambda n: n - 1,
    "FejerFirst": lambda n: n - 1,
    "FejerSecond": lambda n: n - 1,
    "Simpson": lambda n: 3,
    "Trapezoidal": lambda n: 1,
    "MidPoint": lambda n: 1,
}


def _build(og, cls, *a):
    with warnings.catch_warnings():
        warnings.simplefilter("ignore")
        try:
            return getattr(og, cls)(*a)
        except ValueError:
            return None


def _oracle_moments(ctx, og, nmax):
    tol = 2e-12
    for cls, deg in INTERP.items():
        for n in range(1, nmax + 1):
            g = _build(og, cls, n)
            if g is None:
                if n >= 2 and not (cls == "Simpson" and n % 2 == 0):
                    ctx.fail("oracle", f"onedgrid.{cls}", f"{cls}({n}) rejected although npoints={n} is admissible")
                continue
            pts = [float(x) for x in g.points]
            wts = [float(w) for w in g.weights]
            for k in range(deg(n) + 1):
                got = math.fsum(w * x**k for w, x in zip(wts, pts))
                want = Fraction(0) if k % 2 else Fraction(2, k + 1)
                if not abs(got - float(want)) <= tol:
                    ctx.fail("oracle", f"onedgrid.{cls}",
                             f"{cls}({n}) does not integrate x^{k} exactly: sum w_i x_i^{k} = {got!r}, integral over [-1,1] = {want} (nominal degree {deg(n)})",
                             witness={"class": cls, "npoints": n, "k": k, "quadrature": got, "exact": str(want)},
                             snippet=SNIP_MOMENT.format(cls=cls, n=n, k=k, tol=tol))
                    break


SNIP_WEIGHTED = """import warnings; warnings.filterwarnings('ignore')
import numpy as np, mpmath as mp
from grid import onedgrid as og
mp.mp.dps = 40
cls, n, alpha, k = {cls!r}, {n}, {alpha!r}, {k}
g = og.GaussLaguerre(n, alpha) if cls == 'GaussLaguerre' else getattr(og, cls)(n)
x = g.points
if cls == 'GaussChebyshev':
    om, want = 1 / np.sqrt(1 - x**2), (0 if k % 2 else mp.pi * mp.binomial(k, k // 2) / 2**k)
elif cls == 'GaussChebyshevType2':
    om, want = np.sqrt(1 - x**2), (0 if k % 2 else mp.pi * mp.binomial(k, k // 2) / 2**k / (k + 2))
else:
    om, want = x**alpha * np.exp(-x), mp.gamma(k + alpha + 1)
got = float(np.sum(g.weights * om * x**k))
assert abs(got - float(want)) <= {tol} * max(1.0, abs(float(want))), f'{{cls}}({{n}}): sum w_i omega(x_i) x_i^{{k}} = {{got!r}}, exact {{float(want)!r}}'
"""


def _oracle_weighted(ctx, og, nmax, rng):
    import mpmath as mp
    mp.mp.dps = 40
    tol = 5e-12
    c1 = [0.0 if k % 2 else float(mp.pi * mp.binomial(k, k // 2) / 2**k) for k in range(2 * nmax)]
    c2 = [0.0 if k % 2 else float(mp.pi * mp.binomial(k, k // 2) / 2**k / (k + 2)) for k in range(2 * nmax)]
    alphas = [0.0, -0.5, 0.5, round(rng.uniform(-0.95, 4.0), 2)]
    gam = {a: [float(mp.gamma(k + a + 1)) for k in range(2 * nmax)] for a in alphas}
    for n in range(1, nmax + 1):
        jobs = []
        if n >= 2:
            jobs.append(("GaussChebyshev", None, c1, lambda x: 1 / np.sqrt(1 - x**2)))
            jobs += [("GaussLaguerre", a, gam[a], (lambda x, a=a: x**a * np.exp(-x))) for a in alphas]
        jobs.append(("GaussChebyshevType2", None, c2, lambda x: np.sqrt(1 - x**2)))
        for cls, a, exact, omega in jobs:
            g = _build(og, cls, n) if a is None else _build(og, cls, n, a)
            if g is None:
                ctx.fail("oracle", f"onedgrid.{cls}", f"{cls}({n}{'' if a is None else ', ' + str(a)}) rejected although admissible")
                continue
            x = g.points
            wo = g.weights * omega(x)
            for k in range(2 * n):
                got = float(np.sum(wo * x**k))
                if not abs(got - exact[k]) <= tol * max(1.0, abs(exact[k])):
                    ctx.fail("oracle", f"onedgrid.{cls}",
                             f"{cls}({n}{'' if a is None else ', alpha=' + str(a)}): sum w_i omega(x_i) x_i^{k} = {got!r}, integral of omega*x^{k} = {exact[k]!r}",
                             witness={"class": cls, "npoints": n, "alpha": a, "k": k, "quadrature": got, "exact": exact[k]},
                             snippet=SNIP_WEIGHTED.format(cls=cls, n=n, alpha=a, k=k, tol=tol))
                    break


def _check_shape(ctx, cls, g, n, lo, hi, strict, label):
    """n nodes, ascending, inside the declared domain."""
    key = f"onedgrid.{cls}"
    p = np.asarray(g.points, dtype=float)
    if len(p) != n or len(g.weights) != n:
        ctx.fail("oracle", key, f"{label}: {len(p)} nodes / {len(g.weights)} weights instead of {n}")
        return False
    if tuple(float(v) for v in g.domain) != (lo, hi):
        ctx.fail("oracle", key, f"{label}: declared domain {g.domain}, expected {(lo, hi)}")
    d = np.diff(p)
    bad = (d <= 0) if strict else (d < 0)
    if np.any(bad) or np.any(np.isnan(p)):
        i = int(np.argmax(bad)) if np.any(bad) else -1
        ctx.fail("oracle", key, f"{label}: nodes not in {'strictly ' if strict else ''}ascending order at index {i}: {p[max(i,0):i+2].tolist()}",
                 witness={"class": cls, "npoints": n, "index": i})
        return False
    slack = 1e-12 if strict else 1e-7   # 1e-12: rounding of the map at the end points (g(1) = 1 + 2 ulp)
    if p[0] < lo - slack or p[-1] > hi + slack:
        ctx.fail("oracle", key, f"{label}: nodes [{p[0]!r}, {p[-1]!r}] outside the declared domain ({lo}, {hi})",
                 witness={"class": cls, "npoints": n})
        return False
    return True


SNIP_SUBST = """import warnings; warnings.filterwarnings('ignore')
import numpy as np, mpmath as mp
from grid import onedgrid as og
mp.mp.dps = 40
cls, n, h, i = {cls!r}, {n}, {h!r}, {i}
phi = {{
 'TanhSinh': lambda t: mp.tanh(mp.pi / 2 * mp.sinh(t)),
 'ExpSinh': lambda t: mp.exp(mp.pi / 2 * mp.sinh(t)),
 'LogExpSinh': lambda t: mp.log(mp.exp(mp.pi / 2 * mp.sinh(t)) + 1),
 'ExpExp': lambda t: mp.exp(t) * mp.exp(-mp.exp(-t)),
 'SingleTanh': mp.tanh, 'SingleExp': mp.exp,
 'SingleArcSinhExp': lambda t: mp.asinh(mp.exp(t)),
}}[cls]
g = getattr(og, cls)(n, h)
t = (i - (n - 1) // 2) * mp.mpf(h)
assert abs(float(g.points[i]) - float(phi(t))) <= 1e-10 * abs(float(phi(t))) + 1e-14, 'node'
want = float(mp.mpf(h) * mp.diff(phi, t))
assert abs(float(g.weights[i]) - want) <= 1e-9 * abs(want), f'{{cls}}({{n}}, {{h}}): weight[{{i}}] = {{float(g.weights[i])!r}}, step * derivative of the node map = {{want!r}}'
"""


def _phi():
    import mpmath as mp
    return {
        "TanhSinh": (lambda t: mp.tanh(mp.pi / 2 * mp.sinh(t)), (-1.0, 1.0)),
        "ExpSinh": (lambda t: mp.exp(mp.pi / 2 * mp.sinh(t)), (0.0, math.inf)),
        "LogExpSinh": (lambda t: mp.log(mp.exp(mp.pi / 2 * mp.sinh(t)) + 1), (0.0, math.inf)),
        "ExpExp": (lambda t: mp.exp(t) * mp.exp(-mp.exp(-t)), (0.0, math.inf)),
        "SingleTanh": (mp.tanh, (-1.0, 1.0)),
        "SingleExp": (mp.exp, (0.0, math.inf)),
        "SingleArcSinhExp": (lambda t: mp.asinh(mp.exp(t)), (0.0, math.inf)),
    }


def _oracle_subst(ctx, og, rng, nmax, large):
    """weights = step x derivative of the node map at the node (mpmath), order, domain."""
    import mpmath as mp
    mp.mp.dps = 40
    for cls, (phi, (lo, hi)) in _phi().items():
        dflt = STEP_DEFAULT.get(cls, 0.1)
        ns = [n for n in range(1, nmax + 1, 2) if not (cls == "TanhSinh" and n == 1)]
        for n in ns:
            for h in {dflt, round(rng.uniform(0.02, 0.4), 3)}:
                g = _build(og, cls, n, h)
                label = f"{cls}({n}, {h})"
                if g is None:
                    ctx.fail("oracle", f"onedgrid.{cls}", f"{label} rejected although admissible")
                    continue
                # tanh(pi/2 sinh t) is 1.0 in binary64 from t ~ 3.2 on; the other maps stay resolved up to |t| = 6
                # and log(exp(pi/2 sinh t) + 1) is 0.0 below t ~ -3.8
                strict = h * (n - 1) / 2 <= {"TanhSinh": 2.9, "LogExpSinh": 3.5}.get(cls, 6)
                if not _check_shape(ctx, cls, g, n, lo, hi, strict, label):
                    continue
                if not strict:
                    continue
                m = (n - 1) // 2
                idx = range(n) if (n <= 9 or large) else sorted({0, n - 1, m, rng.randrange(n), rng.randrange(n)})
                for i in idx:
                    t = (i - m) * mp.mpf(h)
                    node = float(phi(t))
                    want = float(mp.mpf(h) * mp.diff(phi, t))
                    # nodes: absolute 1e-14 (log(1 + tiny) of LogExpSinh is only absolutely accurate)
                    if not (abs(float(g.points[i]) - node) <= 1e-10 * abs(node) + 1e-14 and abs(float(g.weights[i]) - want) <= 1e-9 * abs(want)):
                        ctx.fail("oracle", f"onedgrid.{cls}",
                                 f"{label}: node/weight {i} = ({float(g.points[i])!r}, {float(g.weights[i])!r}); node map gives {node!r}, step x derivative {want!r}",
                                 witness={"class": cls, "npoints": n, "h": h, "index": i},
                                 snippet=SNIP_SUBST.format(cls=cls, n=n, h=h, i=i))
                        break


SNIP_CLOSED = """import warnings; warnings.filterwarnings('ignore')
import numpy as np, mpmath as mp
from grid import onedgrid as og
mp.mp.dps = 40
cls, n = {cls!r}, {n}
g = getattr(og, cls)(n)
if cls == 'GaussChebyshevLobatto':
    x = [-mp.cos(i * mp.pi / (n - 1)) for i in range(n)]
    w = [mp.pi * mp.sin(i * mp.pi / (n - 1)) / (n - 1) / (2 if i in (0, n - 1) else 1) for i in range(n)]
elif cls == 'RectangleRuleSineEndPoints':
    x0 = [mp.mpf(i) / (n + 1) for i in range(1, n + 1)]
    x = [2 * t - 1 for t in x0]
    w = [2 * mp.mpf(2) / (n + 1) * mp.fsum(mp.sin(m * mp.pi * t) * (1 - (-1) ** m) / (m * mp.pi) for m in range(1, n + 1)) for t in x0]
else:
    x, w = [mp.mpf(i) for i in range(n)], [mp.mpf(1)] * n
for i in range(n):
    assert abs(float(g.points[i]) - float(x[i])) <= 1e-12 and abs(float(g.weights[i]) - float(w[i])) <= 1e-12, f'{{cls}}({{n}}) entry {{i}}'
"""


def _oracle_closed(ctx, og, rng, nmax):
    """closed-form rules: documented nodes and weights (mpmath / rationals), order, domain."""
    import mpmath as mp
    mp.mp.dps = 40
    for n in range(2, nmax + 1):
        ref = {}
        ref["GaussChebyshevLobatto"] = ([-mp.cos(i * mp.pi / (n - 1)) for i in range(n)],
                                        [mp.pi * mp.sin(i * mp.pi / (n - 1)) / (n - 1) / (2 if i in (0, n - 1) else 1) for i in range(n)], (-1.0, 1.0))
        x0 = [mp.mpf(i) / (n + 1) for i in range(1, n + 1)]
        ref["RectangleRuleSineEndPoints"] = ([2 * t - 1 for t in x0],
                                             [2 * mp.mpf(2) / (n + 1) * mp.fsum(mp.sin(m * mp.pi * t) * (1 - (-1) ** m) / (m * mp.pi) for m in range(1, n + 1, 2)) for t in x0],
                                             (-1.0, 1.0))
        ref["UniformInteger"] = ([mp.mpf(i) for i in range(n)], [mp.mpf(1)] * n, (0.0, math.inf))
        # nodes only (weights are decided by the moment test)
        nodes = {
            "Trapezoidal": [mp.mpf(-1) + mp.mpf(2 * i) / (n - 1) for i in range(n)],
            "Simpson": [mp.mpf(-1) + mp.mpf(2 * i) / (n - 1) for i in range(n)],
            "MidPoint": [mp.mpf(-1) + mp.mpf(2 * i + 1) / n for i in range(n)],
            "ClenshawCurtis": [-mp.cos(i * mp.pi / (n - 1)) for i in range(n)],
            "FejerFirst": [-mp.cos((2 * i + 1) * mp.pi / (2 * n)) for i in range(n)],
            "FejerSecond": [-mp.cos((i + 1) * mp.pi / (n + 1)) for i in range(n)],
            "GaussChebyshev": [-mp.cos((2 * i + 1) * mp.pi / (2 * n)) for i in range(n)],
            "GaussChebyshevType2": [-mp.cos((i + 1) * mp.pi / (n + 1)) for i in range(n)],
        }
        for cls in list(ref) + list(nodes) + ["GaussLegendre"]:
            if cls == "Simpson" and n % 2 == 0:
                continue
            g = _build(og, cls, n)
            label = f"{cls}({n})"
            if g is None:
                ctx.fail("oracle", f"onedgrid.{cls}", f"{label} rejected although admissible")
                continue
            lo, hi = ref[cls][2] if cls in ref else (-1.0, 1.0)
            if not _check_shape(ctx, cls, g, n, lo, hi, True, label):
                continue
            xs = ref[cls][0] if cls in ref else nodes.get(cls)
            ws = ref[cls][1] if cls in ref else None
            for i in range(n):
                bad = xs is not None and abs(float(g.points[i]) - float(xs[i])) > 1e-12
                bad = bad or (ws is not None and abs(float(g.weights[i]) - float(ws[i])) > 1e-12)
                if bad:
                    ctx.fail("oracle", f"onedgrid.{cls}",
                             f"{label}: node/weight {i} = ({float(g.points[i])!r}, {float(g.weights[i])!r}), definition gives ({float(xs[i])!r}, {float(ws[i]) if ws else None!r})",
                             witness={"class": cls, "npoints": n, "index": i},
                             snippet=SNIP_CLOSED.format(cls=cls, n=n) if cls in ref else None)
                    break
        g = _build(og, "GaussLaguerre", n, 0.5)
        if g is not None:
            _check_shape(ctx, "GaussLaguerre", g, n, 0.0, math.inf, True, f"GaussLaguerre({n}, 0.5)")


SNIP_TREF = """import warnings; warnings.filterwarnings('ignore')
import numpy as np, mpmath as mp
from grid import onedgrid as og
mp.mp.dps = 40
cls, base, n, par = {cls!r}, {base!r}, {n}, {par!r}
b = getattr(og, base)(n)
g = getattr(og, cls)(n, par) if base in ('ClenshawCurtis', 'GaussChebyshevType2') and 'General' not in cls else getattr(og, cls)(n, getattr(og, base), par)
def gmap(x):
    x = mp.mpf(float(x))
    if 'Strip' not in cls:
        return {{1: x, 5: (120*x + 20*x**3 + 9*x**5) / 149, 9: (40320*x + 6720*x**3 + 3024*x**5 + 1800*x**7 + 1225*x**9) / 53089}}[par]
    tau = mp.pi / mp.log(par); td = mp.mpf(1)/2 + 1/(mp.exp(tau*mp.pi) + 1); u = mp.asin(x)
    cn = 1/(mp.log(1 + mp.exp(-tau*mp.pi)) - mp.log(2) + mp.pi*tau*td/2)
    return cn*(mp.log(1 + mp.exp(-tau*(mp.pi/2 + u))) - mp.log(1 + mp.exp(-tau*(mp.pi/2 - u))) + td*tau*u)
for i in range(n):
    x = float(b.points[i])
    if abs(abs(x) - 1) < 1e-6: continue
    want = float(mp.diff(gmap, x)) * float(b.weights[i])
    assert abs(float(g.points[i]) - float(gmap(x))) <= 1e-11, 'node'
    assert abs(float(g.weights[i]) - want) <= 1e-9 * max(abs(want), 1e-3), f'{{cls}}: weight {{i}} = {{float(g.weights[i])!r}}, base weight x derivative of the map = {{want!r}}'
"""


def _oracle_trefethen(ctx, og, rng, nmax, reps):
    """points = g(base points), weights = g'(base points) x base weights, g by its definition, g' by mpmath."""
    import mpmath as mp
    mp.mp.dps = 40

    def gpoly(d):
        return {1: lambda x: x, 5: lambda x: (120 * x + 20 * x**3 + 9 * x**5) / 149,
                9: lambda x: (40320 * x + 6720 * x**3 + 3024 * x**5 + 1800 * x**7 + 1225 * x**9) / 53089}[d]

    def gstrip(rho):
        tau = mp.pi / mp.log(rho)
        td = mp.mpf(1) / 2 + 1 / (mp.exp(tau * mp.pi) + 1)
        cn = 1 / (mp.log(1 + mp.exp(-tau * mp.pi)) - mp.log(2) + mp.pi * tau * td / 2)

        def g(x):
            u = mp.asin(x)
            return cn * (mp.log(1 + mp.exp(-tau * (mp.pi / 2 + u))) - mp.log(1 + mp.exp(-tau * (mp.pi / 2 - u))) + td * tau * u)
        return g

    jobs = []
    for _ in range(reps):
        n = rng.randrange(2, nmax + 1)
        d = rng.choice([1, 5, 9])
        rho = round(rng.uniform(1.05, 3.5), 3)
        gb = rng.choice(["Trapezoidal", "MidPoint", "FejerFirst", "GaussLegendre", "GaussChebyshevLobatto", "ClenshawCurtis"])
        jobs += [("TrefethenCC", "ClenshawCurtis", n, d), ("TrefethenGC2", "GaussChebyshevType2", n, d), ("TrefethenGeneral", gb, n, d),
                 ("TrefethenStripCC", "ClenshawCurtis", n, rho), ("TrefethenStripGC2", "GaussChebyshevType2", n, rho),
                 ("TrefethenStripGeneral", gb, n, rho)]
    for cls, base, n, par in jobs:
        with warnings.catch_warnings():
            warnings.simplefilter("ignore")
            b = getattr(og, base)(n)
            try:
                g = getattr(og, cls)(n, getattr(og, base), par) if "General" in cls else getattr(og, cls)(n, par)
            except ValueError:
                ctx.fail("oracle", f"onedgrid.{cls}", f"{cls}({n}, {base}, {par}) rejected although admissible")
                continue
        label = f"{cls}({n}, {base}, {par})"
        if not _check_shape(ctx, cls, g, n, -1.0, 1.0, True, label):
            continue
        gm = gstrip(par) if "Strip" in cls else gpoly(par)
        for s in (-1, 1):
            if abs(float(gm(mp.mpf(s))) - s) > 1e-14:
                ctx.fail("oracle", f"onedgrid.{cls}", f"{label}: map sends {s} to {float(gm(mp.mpf(s)))!r}")
        for i in range(n):
            x = float(b.points[i])
            if abs(abs(x) - 1) < 1e-6:
                # end point: one-sided limit of the derivative (strip map), plain derivative (polynomials)
                xe = mp.mpf(x) * (1 - mp.mpf(10) ** -24)
                dg = mp.diff(gm, xe, h=mp.mpf(10) ** -30) if "Strip" in cls else mp.diff(gm, mp.mpf(x))
                tolw = 1e-7
            else:
                dg = mp.diff(gm, mp.mpf(x))
                tolw = 1e-9
            want = float(dg) * float(b.weights[i])
            if abs(float(g.points[i]) - float(gm(mp.mpf(x)))) > 1e-11 or abs(float(g.weights[i]) - want) > tolw * max(abs(want), 1e-3):
                ctx.fail("oracle", f"onedgrid.{cls}",
                         f"{label}: node/weight {i} = ({float(g.points[i])!r}, {float(g.weights[i])!r}), map gives {float(gm(mp.mpf(x)))!r}, base weight x derivative {want!r}",
                         witness={"class": cls, "base": base, "npoints": n, "param": par, "index": i},
                         snippet=SNIP_TREF.format(cls=cls, base=base, n=n, par=par))
                break


def oracle(ctx: Ctx, budget: str):
    """The property on the implementation: exact moments against rationals / mpmath, documented nodes and
    weights, weight = step x derivative of the node map (mpmath differentiation), order and domain."""
    og = _og()
    large = budget == "large" or ctx.thorough
    nmax = 64
    _oracle_moments(ctx, og, nmax)
    _oracle_weighted(ctx, og, nmax, ctx.rng)
    _oracle_closed(ctx, og, ctx.rng, nmax if large else 40)
    _oracle_subst(ctx, og, ctx.rng, nmax, large)
    _oracle_trefethen(ctx, og, ctx.rng, 40, 12 if large else 3)
    # rejected sizes
    for cls in ALL26:
        if cls in ("TrefethenGeneral", "TrefethenStripGeneral"):
            continue
        for n in (0, -3) + ((1,) if cls not in STEP[1:] + ["GaussChebyshevType2", "TrefethenGC2", "TrefethenStripGC2"] else ()):
            if _build(og, cls, n) is not None:
                ctx.fail("oracle", f"onedgrid.{cls}", f"{cls}({n}) accepted")

"""C11, third round: further input classes for the correspondence and the oracle (AGENT_ROUND3.md,
classes 2, 7, 8, 9, 10, 12) and the references they need.

  * `exact_images`   image enumeration in exact integer arithmetic on the float inputs (floats are dyadic
                     rationals), with an optional relative ambiguity band around `distance == radius`;
  * `brute_np`       the float enumeration of harness/props/c11.py, vectorised (thousands of images);
  * `special_args`   constructor arguments of the new classes (scaled cells 2^-20 … 2^20 / 1e-6 … 1e6, the 1.1
                     warning threshold from both sides and exactly on it, points on cell faces and one ulp inside /
                     outside, integer / bool points and weights, 1-D bool lattice vector);
  * `special_query`  centres 1e9 cells away, centres on lattice points, radius / spacing ratios up to the cap,
                     radius kinds (0-d arrays, float16, bool);
  * `bad_ctor_args`  rejected constructor calls (one lattice vector too many, column mismatch, weights of another
                     length, no points);
  * `oracle_r3`      the property on the implementation for these classes (exact reference wherever the data is exact).
"""
import itertools
import math
import warnings

import numpy as np


# ----------------------------------------------------------------------------
# references
# ----------------------------------------------------------------------------
def _ints(vals):
    """Floats -> integers in one common power-of-two unit. -> (ints, denominator)"""
    ratios = [float(v).as_integer_ratio() for v in vals]
    L = max(dn for _, dn in ratios)
    return [nu * (L // dn) for nu, dn in ratios], L


def _shape(P, a, c):
    P = np.asarray(P, dtype=float)
    P = P.reshape(len(P), -1)
    d = P.shape[1]
    a = np.asarray(a, dtype=float).reshape(-1, d) if np.size(a) else np.zeros((0, d))
    c = np.atleast_1d(np.asarray(c, dtype=float)).reshape(d)
    return P, a, c, d, len(a)


def _boxes(P, a, c, r, k):
    """Per point the integer box that certainly holds every translation with |x + j.a - c| <= r."""
    if not k:
        return [[] for _ in P]
    b = np.linalg.pinv(a).T
    bn = np.linalg.norm(b, axis=1)
    out = []
    for x in P:
        mid = b @ (c - x)
        out.append([(int(math.floor(mid[t] - bn[t] * r)) - 2, int(math.ceil(mid[t] + bn[t] * r)) + 3) for t in range(k)])
    return out


def exact_images(P, a, c, r, bandbits=None):
    """All (i, j) with |x_i + j.a - c| <= r decided in exact integer arithmetic on the float inputs.
    bandbits: pairs with 0 < |d - r| <~ 2^-bandbits M, M the largest of |c|, |x_i|, r, are returned separately (the
    code rounds at the magnitude of the coordinates: either answer is 'up to rounding' for them).
    -> (inside, ambiguous), sorted lists of (i, tuple j)"""
    P, a, c, d, k = _shape(P, a, c)
    n = len(P)
    flat, _ = _ints(list(P.ravel()) + list(a.ravel()) + list(c) + [float(r)])
    Pi = [flat[i * d:(i + 1) * d] for i in range(n)]
    off = n * d
    Ai = [flat[off + t * d: off + (t + 1) * d] for t in range(k)]
    off += k * d
    Ci, R = flat[off:off + d], flat[off + d]
    R2 = R * R
    M2 = max([R2, sum(v * v for v in Ci)] + [sum(v * v for v in row) for row in Pi])
    # an exact tie d == r is decided without rounding by the code only if the numbers involved have few bits
    few = lambda arr: bool(np.all(np.asarray(arr) * 2.0 ** 20 == np.rint(np.asarray(arr) * 2.0 ** 20)))
    few_c = few(c) and few(a)
    few_p = [few_c and few(x) for x in P]
    inside, amb = [], []
    for i, box in enumerate(_boxes(P, a, c, float(r), k)):
        base = [Pi[i][m] - Ci[m] for m in range(d)]
        for j in itertools.product(*[range(lo, hi) for lo, hi in box]):
            d2 = 0
            for m in range(d):
                v = base[m]
                for t in range(k):
                    v += j[t] * Ai[t][m]
                d2 += v * v
            # |d - r| <= delta  <=  (d2 - R2)^2 <= 2 delta^2 (d2 + R2),  delta = 2^-bandbits M
            if bandbits is not None and d2 != R2 and (((d2 - R2) ** 2) << (2 * bandbits)) <= 2 * M2 * (d2 + R2):
                amb.append((i, tuple(j)))
            elif bandbits is not None and d2 == R2 and not few_p[i]:
                amb.append((i, tuple(j)))
            elif d2 <= R2:
                inside.append((i, tuple(j)))
    return sorted(inside), sorted(amb)


def brute_np(P, a, c, r, scale=None, margin=1.0, zero_tie_ok=False):
    """`brute_images` of c11.py, vectorised: all (i, j) with ||x_i + j.a - c|| <= r; the radius is first moved
    away from every candidate distance (relative margin).  -> (sorted list of (i, tuple j), radius)"""
    P, a, c, d, k = _shape(P, a, c)
    if scale is None:
        scale = float(np.linalg.norm(a, axis=1).min()) if k else 1.0

    def candidates(rr):
        I, J, D = [], [], []
        for i, box in enumerate(_boxes(P, a, c, rr, k)):
            if k:
                axes = [np.arange(lo, hi) for lo, hi in box]
                Ji = np.stack(np.meshgrid(*axes, indexing="ij"), axis=-1).reshape(-1, k)
                img = P[i] + Ji @ a - c
            else:
                Ji = np.zeros((1, 0), dtype=int)
                img = (P[i] - c)[None, :]
            dd = np.sqrt((img * img).sum(axis=1))
            keep = dd <= rr * 1.01 + 1e-5 * scale
            I.append(np.full(int(keep.sum()), i))
            J.append(Ji[keep])
            D.append(dd[keep])
        return np.concatenate(I), np.concatenate(J), np.concatenate(D)

    for _ in range(80):
        I, J, D = candidates(r * 1.001 + 1e-6 * scale)
        tie = np.abs(D - r) <= margin * (1e-9 * scale + 1e-7 * np.maximum(D, r))
        if zero_tie_ok and r == 0.0:
            tie &= ~((D == 0.0) & (~J.any(axis=1) if k else True))
        if not tie.any():
            break
        r = r * (1 + 3e-6) + 3e-9 * scale
    sel = D <= r
    return sorted((int(i), tuple(int(t) for t in j)) for i, j in zip(I[sel], J[sel])), float(r)


def recover_far(parent_pts, lg, a, d):
    """`recover_ilc` with tolerances relative to the magnitude of the translations (centres 1e9 cells away)."""
    idx = np.asarray(lg.indices, dtype=int)
    lp = np.asarray(lg.points, dtype=float).reshape(len(idx), d) if len(idx) else np.zeros((0, d))
    pp = np.asarray(parent_pts, dtype=float).reshape(-1, d)
    if len(a) == 0:
        return [() for _ in idx], bool(len(idx) == 0 or np.allclose(pp[idx], lp, rtol=0, atol=1e-9 * (1 + np.abs(pp).max())))
    if len(idx) == 0:
        return [], True
    b = np.linalg.pinv(a).T
    coef = (pp[idx] - lp) @ b.T
    ilc = np.rint(coef)
    cond = float(np.linalg.norm(b, axis=1).max() * np.linalg.norm(a, axis=1).max())
    ok = bool(np.all(np.abs(coef - ilc) < 1e-6 + 1e-14 * cond * np.abs(coef).max()))
    ok = ok and np.allclose(pp[idx] - ilc @ a, lp, rtol=0, atol=1e-8 * (1 + np.abs(pp).max()) + 16 * np.spacing(np.abs(lp).max()))
    return [tuple(int(v) for v in row) for row in ilc], ok


# ----------------------------------------------------------------------------
# constructor arguments of the new classes
# ----------------------------------------------------------------------------
def exact_lattice(rng, d, K, oned):
    """Axis-aligned lattice vectors of power-of-two length, either sign: reciprocal vectors, fractional
    coordinates, wrapping and the integer box are computed without any rounding for dyadic points."""
    lens = [rng.choice([1.0, 0.5, 2.0, 0.25, 4.0]) * rng.choice([1, 1, -1]) for _ in range(K)]
    if oned:
        return np.array(lens), lens
    a = np.zeros((K, d))
    a[np.arange(K), np.arange(K)] = lens
    return a, lens


def _finish(pts, w, rv, wrap, oned, d, k, r3, exact=False, spread="r3", dress=(), rtol=1e-11, **extra):
    return dict(points=pts, weights=w, realvecs=rv, wrap=wrap, oned=oned, d=d, k=k, spread=spread, dress=list(dress),
                rtol=rtol, r3=r3, exact=exact, **extra)


def args_scaled(rng, base_args):
    """Class 8: a whole configuration scaled by 2^-20 … 2^20 (exactly) or 1e-6 … 1e6."""
    for _ in range(50):
        a = base_args(rng)
        if a["k"] >= 1 and a["rtol"] == 1e-11:
            break
    else:
        return None
    if rng.random() < 0.5:
        s, tag = 2.0 ** rng.choice([-20, -10, 10, 20]), "scaled:pow2"
    else:
        s, tag = 10.0 ** rng.choice([-6, -3, 3, 6]), "scaled:pow10"
    pts = np.asarray(a["points"], dtype=float) * s
    rv = np.asarray(a["realvecs"], dtype=float) * s
    if a["oned"]:
        rv = rv.reshape(1)
    # (non power-of-two factors round: keep the fractional coordinates off the integers as the base generator does)
    A = rv.reshape(a["k"], a["d"])
    fr = pts.reshape(len(pts), a["d"]) @ np.linalg.pinv(A)
    if np.any(np.abs(fr - np.rint(fr)) < 1e-7):
        return None
    return _finish(pts, np.asarray(a["weights"], dtype=float), rv, a["wrap"], a["oned"], a["d"], a["k"], tag, spread=a["spread"],
                   scale_factor=s)


def args_threshold(rng):
    """Class 7: the hard-coded 1.1 of the constructor's warning — the widest interval of fractional coordinates is
    1.1 times {1/100, 1/1.01, 1 (exactly 1.1), 1.01, 100}; exact lattices, so the width is the one intended."""
    oned = rng.random() < 0.4
    d = 1 if oned else rng.choice([1, 2, 3])
    K = 1 if oned else rng.randint(1, d)
    rv, lens = exact_lattice(rng, d, K, oned)
    m = rng.choice(["1/100", "1/1.01", "tie", "tie", "1.01", "100"])
    width = {"1/100": 0.011, "1/1.01": 1.1 / 1.01, "tie": 1.1, "1.01": 1.1 * 1.01, "100": 110.0}[m]
    n = rng.randint(2, 4)
    ax = rng.randrange(K)
    fr = np.array([[rng.randrange(1, 8) / 8.0 for _ in range(K)] for _ in range(n)])
    base = 0.0 if m == "tie" else rng.choice([0.0, 0.125, -0.25])
    fr[:, ax] = base + np.array([0.0, width] + [rng.choice([0.0, width, width / 2]) for _ in range(n - 2)])
    pts = np.zeros((n, d))
    pts[:, :K] = fr * np.array(lens)          # exact: power-of-two factors
    if d > K:
        pts[:, K:] = np.array([[rng.randrange(-8, 9) / 8.0 for _ in range(d - K)] for _ in range(n)])
    wrap = rng.random() < 0.25
    # reference, exact: fractional coordinate = x / L (power of two), warning iff (max - min) > 1.1 in some direction
    from fractions import Fraction as F
    widths = []
    for t in range(K):
        f = [F(float(x)) / F(lens[t]) for x in pts[:, t]]
        widths.append(max(f) - min(f))
    expect = (not wrap) and max(widths) > F(1.1)
    # (the code subtracts in floating point: equal to the exact width for these few-bit data except in the 1 % classes,
    #  where no rounding can reach the threshold)
    return _finish(pts[:, 0] if oned else pts, np.ones(n), rv, wrap, oned, d, K, "threshold:" + m, exact=(m in ("tie",)),
                   expect_warn=bool(expect), lens=lens)


def args_faces(rng):
    """Class 12: points exactly on cell faces (fractional coordinate 0, 1, 2, -1), one ulp inside (1 - eps, eps) and
    one ulp outside (-eps, 1 + eps) on exact lattices."""
    oned = rng.random() < 0.35
    d = 1 if oned else rng.choice([1, 2, 2, 3])
    K = 1 if oned else rng.randint(1, d)
    rv, lens = exact_lattice(rng, d, K, oned)
    n = rng.randint(1, 5)
    eps = 2.0 ** -53
    special = [0.0, 1.0, 1.0 - eps, 2.0 ** -60, -(2.0 ** -60), 1.0 + 2 * eps, 2.0, -1.0, 0.5, 0.25, -0.5, 3.0 - 4 * eps]
    fr = np.array([[rng.choice(special) for _ in range(K)] for _ in range(n)])
    pts = np.zeros((n, d))
    pts[:, :K] = fr * np.array(lens)
    if d > K:
        pts[:, K:] = np.array([[rng.randrange(-8, 9) / 8.0 for _ in range(d - K)] for _ in range(n)])
    # no two equal points (the class docstring excludes duplicates)
    if len({tuple(p) for p in pts}) < n:
        pts = pts[sorted({tuple(p): i for i, p in enumerate(pts)}.values())]
        n = len(pts)
    fewbits = bool(np.all(fr * 8 == np.rint(fr * 8)))
    return _finish(pts[:, 0] if oned else pts, np.array([rng.choice([1.0, 0.5, 2.0]) for _ in range(n)]), rv, rng.random() < 0.5,
                   oned, d, K, "faces" + (":dyadic" if fewbits else ":ulp"), exact=True, lens=lens, fewbits=fewbits)


def args_dtype(rng, lattice):
    """Class 2: integer / bool points (with lattice vectors that keep them off the cell faces), bool / integer
    weights, a 1-D bool lattice vector."""
    kind = rng.choice(["intpts", "intpts", "boolpts", "boolrv1d"])
    oned = kind == "boolrv1d" or rng.random() < 0.25
    d = 1 if oned else rng.choice([1, 2, 3])
    k = 1 if oned else rng.randint(1, d)
    for _ in range(200):
        if kind == "boolrv1d":
            rv = np.array([True])
            pts = np.array([rng.uniform(-2.9, 3.9) for _ in range(rng.randint(1, 5))])
            A = np.ones((1, 1))
        else:
            rv = lattice(rng, d, k, oned)
            A = np.asarray(rv, dtype=float).reshape(k, d)
            n = rng.randint(1, 5)
            if kind == "intpts":
                pts = np.array([[rng.randrange(-4, 5) for _ in range(d)] for _ in range(n)], dtype=rng.choice([np.int64, np.int32]))
            else:
                pts = np.array([[rng.random() < 0.5 for _ in range(d)] for _ in range(n)])
            if len({tuple(p) for p in pts.tolist()}) < len(pts):
                continue
            if oned:
                pts = pts[:, 0]
        P = np.asarray(pts, dtype=float).reshape(len(pts), -1)
        fr = P @ np.linalg.pinv(A)
        on_face = np.abs(fr - np.rint(fr)) < 1e-6
        # the origin has fractional coordinates exactly 0 whatever the lattice: no rounding, allowed
        zero_rows = ~P.any(axis=1)
        if np.any(on_face[~zero_rows]):
            continue
        if len(fr) and np.any(fr.max(axis=0) - fr.min(axis=0) > 12.0):
            continue            # (integer points on a cell with a very short vector span hundreds of cells: the image box explodes)
        break
    else:
        return None
    n = len(pts)
    wk = rng.choice(["f64", "bool", "int"])
    w = {"f64": lambda: np.array([rng.uniform(0.1, 2) for _ in range(n)]),
         "bool": lambda: np.array([rng.random() < 0.6 for _ in range(n)]),
         "int": lambda: np.array([rng.randrange(-3, 4) for _ in range(n)])}[wk]()
    return _finish(pts, w, rv, rng.random() < 0.4, oned, d, k, "dtype:" + kind + ":w" + wk,
                   dress=["points:" + str(np.asarray(pts).dtype)] + (["weights:" + wk] if wk != "f64" else []))


def special_args(rng, base_args, lattice):
    """One set of constructor arguments of a third-round class (or None: fall back to the base generator)."""
    q = rng.choice(["scaled", "scaled", "threshold", "threshold", "faces", "faces", "dtype"])
    if q == "scaled":
        return args_scaled(rng, base_args)
    if q == "threshold":
        return args_threshold(rng)
    if q == "faces":
        return args_faces(rng)
    return args_dtype(rng, lattice)


def bad_ctor_args(rng):
    """Rejected constructor calls -> (points, weights, realvecs, wrap, oned, d, what)"""
    what = rng.choice(["too-many-vectors", "column-mismatch", "weights-length", "no-points", "no-points"])
    oned = what in ("weights-length", "no-points") and rng.random() < 0.3
    d = 1 if oned else rng.choice([1, 2, 3])
    n = rng.randint(1, 4)
    pts = np.array([[rng.uniform(-1, 1) for _ in range(d)] for _ in range(n)])
    w = np.array([rng.uniform(0.1, 2) for _ in range(n)])
    k = rng.randint(0, d)
    rv = np.eye(d)[:k] * rng.choice([1.0, 2.0, -0.5]) + 0.125 * (1 - np.eye(d)[:k])
    if what == "too-many-vectors":
        rv = np.array([[rng.uniform(-1, 1) for _ in range(d)] for _ in range(d + 1)])
    elif what == "column-mismatch":
        k = max(k, 1)
        cols = d + rng.choice([-1, 1])
        rv = np.array([[rng.uniform(-1, 1) for _ in range(cols)] for _ in range(k)]) if cols else np.array([[1.0, 0.5]])
    elif what == "weights-length":
        w = np.array([rng.uniform(0.1, 2) for _ in range(n + rng.choice([-1, 1, 2]))])
    else:
        pts, w = np.zeros((0, d)), np.zeros(0)
    if oned:
        pts = pts[:, 0]
        rv = np.array([rng.choice([1.0, -2.0, 0.5])]) if k else np.zeros((0,))
    return pts, w, rv, rng.random() < 0.4, oned, d, what


# ----------------------------------------------------------------------------
# queries of the new classes
# ----------------------------------------------------------------------------
def radius_obj(rng, r):
    """The radius in another scalar kind holding exactly the same number (class 2: 0-d arrays, float16, bool, int)."""
    ks = ["float"] * 4 + ["f64", "arr0"]
    if float(np.float32(r)) == r:
        ks += ["f32", "arr0f32"]
    if float(np.float16(r)) == r and r < 6e4:
        ks += ["f16"]
    if r == 1.0:
        ks += ["bool", "npbool"] * 2
    if r == round(r) and r < 2 ** 31:
        ks += ["int", "arr0int"]
    k = rng.choice(ks)
    return {"float": lambda: r, "f64": lambda: np.float64(r), "arr0": lambda: np.array(r), "f32": lambda: np.float32(r),
            "arr0f32": lambda: np.array(r, dtype=np.float32), "f16": lambda: np.float16(r), "bool": lambda: True,
            "npbool": lambda: np.True_, "int": lambda: int(r), "arr0int": lambda: np.array(int(r))}[k](), k


def centre_bool(rng, cc, c, oned):
    """A centre whose coordinates are all 0 or 1 as bools (array, list or scalar)."""
    if not np.all((c == 0) | (c == 1)) or rng.random() < 0.75:
        return cc, None
    if oned:
        return rng.choice([bool(c[0]), np.bool_(bool(c[0])), np.array(bool(c[0]))]), "bool"
    return rng.choice([c.astype(bool), [bool(v) for v in c]]), "bool"


def special_query(rng, g, a, d, oned, thorough=False, exact=False):
    """-> (numeric centre (d,), radius, expected images, how, margin) for the third-round query classes, or None.
    far9: a centre ~1e9 lattice lengths away; latticepoint: the centre is an integer combination of lattice vectors
    (or the image of a grid point); hugeratio: radius / plane spacing up to the cap."""
    k = len(a)
    if not k:
        return None
    pts = np.asarray(g.points, dtype=float).reshape(-1, d)
    lens = np.linalg.norm(a, axis=1)
    scale = float(lens.min())
    b = np.linalg.pinv(a).T
    smin = 1.0 / float(np.linalg.norm(b, axis=1).max())       # smallest plane spacing
    how = rng.choice(["far9", "far9", "latticepoint", "hugeratio"])
    x = pts[rng.randrange(len(pts))]
    margin = 1.0
    if how == "far9":
        big = rng.choice([1e9, 1e9, 2.0 ** 20, 2.0 ** 30, 2.0 ** 33, 1e10, 1e6])     # (beyond 2^31 translations too)
        j = np.array([float(rng.choice([-1, 1]) * int(big * scale / lens[t] * rng.uniform(0.5, 1.0))) for t in range(k)])
        c = x + j @ a + np.array([rng.uniform(-0.4, 0.4) for _ in range(d)]) * scale
        r = rng.choice([0.3, 0.8, 1.3, 1.7]) * scale
        r = min(r, 6.0 * smin)
        margin = 3e3 * max(1.0, big / 1e9)          # positions carry an absolute error of ~1e-7 lattice lengths
    elif how == "latticepoint":
        j = np.array([float(rng.choice([0, 0, 1, -1, 2, -3, 17])) for _ in range(k)])
        c = j @ a + (x if rng.random() < 0.5 else 0.0)
        c = np.asarray(c, dtype=float).reshape(d)
        r = rng.choice([0.3, 0.8, 1.0, 1.3, 2.0]) * scale
        r = min(r, 8.0 * smin)
    else:
        cap = {1: (300, 1000), 2: (14, 40), 3: (5, 10)}[k][1 if thorough else 0]
        ratio = rng.choice([cap, cap, cap // 2, rng.uniform(3, cap)])
        c = x + np.array([rng.uniform(-0.5, 0.5) for _ in range(d)]) * scale
        r = ratio * smin
    c = np.asarray(c, dtype=float).reshape(d)
    want, r = brute_np(pts, a, c, float(r), scale=scale, margin=margin)
    return c, r, want, how, margin


# ----------------------------------------------------------------------------
# oracle for the new classes
# ----------------------------------------------------------------------------
def _descr(x):
    from .c10 import _descr as dd
    return dd(np.asarray(x)) if isinstance(x, np.ndarray) else dd(x)


R3_SNIP = """import warnings; warnings.filterwarnings('ignore')
import itertools, numpy as np
from grid.periodicgrid import PeriodicGrid
pts = {pts}; w = {w}; rv = {rv}; wrap = {wrap}
g = PeriodicGrid(pts, w, rv, wrap=wrap)
{pre}
c = {c}; r = {r}
lg = g.get_localgrid(c, r)    # (an exception here is the failure)
P = np.asarray(g.points, dtype=float).reshape(len(w), -1); d = P.shape[1]
a = np.asarray(rv, dtype=float).reshape(-1, d)
n, k = len(P), len(a)
b = np.linalg.pinv(a).T
c_ = np.atleast_1d(np.asarray(c, dtype=float)); r_ = float(r)
want = []       # (parent index, integer translation j) with |x_i + j.a - c| <= r, by direct enumeration (the radius is kept off every distance)
for i in range(len(P)):
    mid = np.rint(b @ (c_ - P[i])).astype(int) if k else np.zeros(0, dtype=int)
    R = [int(np.ceil(np.linalg.norm(b[t]) * r_)) + 2 for t in range(k)]
    for j in itertools.product(*[range(int(mid[t]) - R[t], int(mid[t]) + R[t] + 1) for t in range(k)]):
        if np.linalg.norm(P[i] + (np.array(j) @ a if k else 0) - c_) <= r_:
            want.append((i, tuple(int(v) for v in j)))
want.sort()      # the checker found {nwant} pair(s): {wshort!r}
L_ = np.asarray(lg.points, dtype=float).reshape(len(lg.indices), d)
got = sorted((int(i), tuple(int(v) for v in np.rint(b @ (L_[t] - P[i])))) for t, i in enumerate(lg.indices))
amb = {amb!r}        # pairs whose distance equals the radius up to rounding: either answer is accepted
assert sorted(set(got) - set(amb)) == sorted(set(want) - set(amb)) and len(set(got)) == len(got), f'(index, translation) pairs {{got}}, exact enumeration {{want}}'
assert np.array_equal(np.asarray(lg.weights), np.asarray(g.weights)[np.asarray(lg.indices, dtype=int)]), 'weights are not those of the parent points'
J_ = np.array([np.rint(b @ (L_[t] - P[i])) for t, i in enumerate(lg.indices)]).reshape(len(L_), k)
assert np.allclose(L_, P[np.asarray(lg.indices, dtype=int)] + J_ @ a, rtol=0, atol=1e-8 * (1 + np.abs(P).max()) + 16 * np.spacing(np.abs(L_).max() if len(L_) else 1.0)), 'stored positions are not parent point + lattice translation'
"""


def _pairs(P, lg, a, d):
    ilc, ok = recover_far(P, lg, a, d)
    return sorted((int(i), tuple(-t for t in j)) for i, j in zip(lg.indices, ilc)), ok


def oracle_r3(ctx, budget, M, base_args, lattice, G=None):
    if G is None:
        from .c11_r4 import Guard
        G = Guard(ctx)
        own_guard = True
    else:
        own_guard = False
    PG = M["periodicgrid"].PeriodicGrid
    LG = M["basegrid"].LocalGrid
    PGW = M["periodicgrid"].PeriodicGridWarning
    rng = ctx.rng
    from fractions import Fraction as F
    mult = (1 if budget == "small" else 12) * (4 if ctx.thorough else 1)

    def build(args):
        # (the text of the arguments is taken now: with wrap=False the grid keeps the caller's arrays)
        args["_snip"] = dict(pts=_descr(args["points"]), w=_descr(args["weights"]), rv=_descr(np.asarray(args["realvecs"])), wrap=args["wrap"])
        with warnings.catch_warnings(record=True) as rec:
            warnings.simplefilter("always")
            g = PG(args["points"], args["weights"], args["realvecs"], wrap=args["wrap"])
        return g, [x for x in rec if issubclass(x.category, PGW)], rec

    def base_snip(args):
        return args.get("_snip") or dict(pts=_descr(args["points"]), w=_descr(args["weights"]), rv=_descr(np.asarray(args["realvecs"])), wrap=args["wrap"])

    def check_query(args, g, c, r, want, amb, key, what, pre="", robj=None, cobj=None):
        """One query against a reference enumeration; `amb`: pairs either answer is accepted for."""
        d, oned = args["d"], args["oned"]
        a = np.asarray(g.realvecs, dtype=float).reshape(-1, d)
        P = np.asarray(g.points, dtype=float).reshape(-1, d)
        cobj = (float(c[0]) if oned else c) if cobj is None else cobj
        robj = r if robj is None else robj
        snippet = R3_SNIP.format(pre=pre, c=_descr(cobj), r=_descr(robj), nwant=len(want), wshort=want[:6], amb=amb, **base_snip(args))
        wit = dict(base_snip(args), center=np.asarray(c).tolist(), radius=float(r), expected=want[:40], reassigned=pre)
        try:
            with warnings.catch_warnings():
                warnings.simplefilter("ignore")
                c_keep = np.array(cobj, copy=True)
                lg = g.get_localgrid(cobj, robj)
            if not np.array_equal(c_keep, np.asarray(cobj)):
                ctx.fail("oracle", "periodicgrid.get_localgrid:caller-array", f"{what}: get_localgrid changed the caller's centre array from {c_keep.tolist()} to {np.asarray(cobj).tolist()}",
                         witness=wit, snippet=R3_SNIP.format(pre=pre, c="c_", r=_descr(robj), nwant=0, wshort=[], amb=[], **base_snip(args)).split("lg = g.get_localgrid")[0].replace("c = c_;", f"c_ = {_descr(c_keep)}; c0_ = c_.copy();")
                         + f"g.get_localgrid(c_, r)\nassert np.array_equal(c_, c0_), 'the centre array of the caller was changed'\n")
                if isinstance(cobj, np.ndarray) and cobj.flags.writeable:
                    cobj[...] = c_keep
        except Exception as e:  # noqa: BLE001
            ctx.fail("oracle", f"periodicgrid.get_localgrid:{'empty' if not want else 'raises'}:{key}",
                     f"{what}: get_localgrid(center={np.asarray(c).tolist()}, radius={r!r}) raised {type(e).__name__}: {str(e)[:80]}; "
                     f"{len(want)} image(s) lie inside the sphere", witness=dict(wit, raised=repr(e)), snippet=snippet)
            return None
        got, ok = _pairs(P, lg, a, d)
        amb_s = set(amb)
        g1, w1 = sorted(set(got) - amb_s), sorted(set(want) - amb_s)
        vals_ok = ok and isinstance(lg, LG) and np.array_equal(np.asarray(lg.weights), np.asarray(g.weights)[np.asarray(lg.indices, dtype=int)]) \
            and np.array_equal(np.asarray(lg.center), np.asarray(cobj))
        if g1 != w1 or len(set(got)) != len(got) or not vals_ok:
            sub = "duplicate" if len(set(got)) != len(got) else ("images" if g1 != w1 else "values")
            miss, extra = sorted(set(w1) - set(g1))[:4], sorted(set(g1) - set(w1))[:4]
            ctx.fail("oracle", f"periodicgrid.get_localgrid:{sub}:{key}",
                     f"{what}: get_localgrid(center={np.asarray(c).tolist()}, radius={r!r}): {len(got)} (index, translation) pairs, "
                     f"reference {len(want)}; missing {miss}, spurious {extra}", witness=dict(wit, got=got[:60]), snippet=snippet)
        return lg

    # ---- (1) exact lattices: faces / ulp points, zero and denormal radii, radius = lattice length, far centres,
    #          setter then query, handed-out local grid modified by the caller ---------------------------------
    for _ in range(30 * mult):
        with G("periodicgrid.get_localgrid:exact", "exact lattices"):
            args = args_faces(rng)
            d, oned, K, lens = args["d"], args["oned"], args["k"], args["lens"]
            orig = np.array(args["points"], copy=True)
            try:
                g, pgw, _ = build(args)
            except Exception as e:  # noqa: BLE001
                ctx.fail("oracle", "periodicgrid.__init__:raises:faces", f"PeriodicGrid on an exact lattice {lens} raised {type(e).__name__}: {str(e)[:90]}",
                         witness=base_snip(args))
                continue
            a = np.asarray(g.realvecs, dtype=float).reshape(-1, d)
            P = np.asarray(g.points, dtype=float).reshape(-1, d)
            O = np.asarray(orig, dtype=float).reshape(-1, d)
            if not np.array_equal(orig, args["points"]):
                ctx.fail("oracle", "periodicgrid.__init__:caller-array", "the constructor modified the caller's points array (exact lattice)", witness=base_snip(args))
            # wrapping, exactly (few-bit dyadic points: no rounding anywhere)
            if args["fewbits"]:
                fr = P[:, :K] / np.array(lens)
                sh = (P - O)[:, :K] / np.array(lens)
                okw = np.array_equal(P[:, K:], O[:, K:]) and np.array_equal(sh, np.rint(sh))
                if args["wrap"]:
                    okw = okw and bool(np.all(fr >= 0) and np.all(fr < 1))
                else:
                    okw = okw and np.array_equal(P, O)
                if not okw:
                    ctx.fail("oracle", "periodicgrid.__init__:wrap:exact",
                             f"exact lattice {lens}, wrap={args['wrap']}: stored points {P.tolist()} for given points {O.tolist()} "
                             "(expected: fractional coordinates in [0, 1) by integer lattice translations / unchanged)", witness=base_snip(args))
                iv = np.asarray(g.frac_intvls, dtype=float).reshape(K, 2)
                if not (np.array_equal(iv[:, 0], fr.min(axis=0)) and np.array_equal(iv[:, 1], fr.max(axis=0))):
                    ctx.fail("oracle", "periodicgrid.__init__:frac-intvls:exact", f"frac_intvls {iv.tolist()} are not the min/max fractional coordinates {fr.tolist()}",
                             witness=base_snip(args))
            pre = ""
            hist = rng.choice(["plain", "plain", "setter", "query-setter", "weights-setter"])
            if hist in ("setter", "query-setter"):
                if hist == "query-setter":
                    g.get_localgrid(float(P[0, 0]) if oned else P[0].copy(), 0.5)
                    pre = f"g.get_localgrid({_descr(float(P[0, 0]) if oned else P[0])}, 0.5); "
                newP = P.copy()
                newP[:, :K] += np.array([[rng.choice([-3, -1, 0, 1, 2]) for _ in range(K)] for _ in range(len(P))]) * np.array(lens)
                if len({tuple(p) for p in newP}) == len(newP):
                    new = newP[:, 0] if oned else newP
                    g.points = new
                    pre += f"g.points = {_descr(new)}"
                    P = newP
            elif hist == "weights-setter":
                g.get_localgrid(float(P[0, 0]) if oned else P[0].copy(), 0.5)
                neww = np.array([rng.choice([0.25, 3.0, -1.0]) + i for i in range(len(P))])
                g.weights = neww
                pre = f"g.get_localgrid({_descr(float(P[0, 0]) if oned else P[0])}, 0.5); g.weights = {_descr(neww)}"
            for qi in range(2):
                i0, ax = rng.randrange(len(P)), rng.randrange(K)
                far = rng.choice([0, 0, 0, 2 ** 10, 2 ** 20, 2 ** 30, 2 ** 33])
                t0 = [rng.randint(-1, 1) + rng.choice([-1, 1]) * far for _ in range(K)]
                rk = rng.choice(["zero", "negzero", "denormal", "tiny", "lattice", "lattice2", "dyadic", "dyadic"])
                r = {"zero": 0.0, "negzero": -0.0, "denormal": 5e-324, "tiny": 1e-300, "lattice": abs(lens[ax]), "lattice2": 2 * abs(lens[ax]),
                     "dyadic": rng.choice([0.125, 0.25, 0.5, 1.0, 1.5])}[rk]
                if K == 3:
                    r = min(r, 1.0)
                on_sphere = rk in ("lattice", "lattice2", "dyadic") and rng.random() < 0.8
                # the centre in exact arithmetic: image (i0, t0) of a grid point, moved by exactly r along a lattice axis
                cx = [F(float(P[i0][m])) + (t0[m] * F(lens[m]) if m < K else 0) for m in range(d)]
                if on_sphere:
                    cx[ax] += rng.choice([-1, 1]) * F(r)      # the image (i0, t0) is at distance exactly r
                c = np.array([float(v) for v in cx])
                if any(F(float(v)) != v for v in cx):          # (not representable: an ulp-point and a far centre)
                    continue
                want, amb = exact_images(P, a, c, r, bandbits=None if args["fewbits"] else 44)
                robj, rkk = radius_obj(rng, r) if r > 0 else (r, "float")
                ctx.count(["r3-exact", d, K, lens, rk, far, hist], nontrivial=True, tag=f"oracle:r3:exact:{rk}" + (":far" if far else ""))
                ctx.tagc("oracle:r3:exact:hist:" + hist)
                lg = check_query(args, g, c, r, want, amb, "exact" + (":on-sphere" if on_sphere else "") + (":far" if far else ""),
                                 f"exact lattice {lens} (dim {d}), radius class {rk}, centre {abs(far)} cells away, history {hist}", pre=pre, robj=robj)
                # (class 9) the local grid handed out is the caller's: scribbling on it must not change the next answer
                if lg is not None and qi == 0 and len(lg.indices):
                    keepP, keepW, keepI = np.array(lg.points), np.array(lg.weights), np.array(lg.indices)
                    gP, gW = np.array(g.points), np.array(g.weights)
                    for arr in (lg.points, lg.weights, lg.indices):
                        try:
                            arr[...] = 7
                        except (ValueError, TypeError):
                            pass
                    ok2 = np.array_equal(gP, np.asarray(g.points)) and np.array_equal(gW, np.asarray(g.weights))
                    with warnings.catch_warnings():
                        warnings.simplefilter("ignore")
                        lg2 = g.get_localgrid(float(c[0]) if oned else c, robj)
                    ok2 = ok2 and np.array_equal(keepP, lg2.points) and np.array_equal(keepW, lg2.weights) and np.array_equal(keepI, lg2.indices)
                    ctx.tagc("oracle:r3:handed-out")
                    if not ok2:
                        ctx.fail("oracle", "periodicgrid.get_localgrid:handed-out",
                                 "after the caller overwrote the arrays of the returned LocalGrid in place, the parent grid changed or the same query "
                                 "answers differently", witness=dict(base_snip(args), center=c.tolist(), radius=r),
                                 snippet=("import warnings; warnings.filterwarnings('ignore')\nimport numpy as np\nfrom grid.periodicgrid import PeriodicGrid\n"
                                          f"g = PeriodicGrid({base_snip(args)['pts']}, {base_snip(args)['w']}, {base_snip(args)['rv']}, wrap={args['wrap']})\n"
                                          f"{pre}\nc = {_descr(float(c[0]) if oned else c)}; r = {_descr(robj)}\n"
                                          "a = g.get_localgrid(c, r); P, W, I = a.points.copy(), a.weights.copy(), a.indices.copy(); gp, gw = g.points.copy(), g.weights.copy()\n"
                                          "a.points[...] = 7; a.weights[...] = 7; a.indices[...] = 7\nb = g.get_localgrid(c, r)\n"
                                          "assert np.array_equal(gp, g.points) and np.array_equal(gw, g.weights), 'parent grid changed'\n"
                                          "assert np.array_equal(P, b.points) and np.array_equal(W, b.weights) and np.array_equal(I, b.indices), 'second answer differs'\n"))
                        break       # (the object may be damaged now: no further queries on it)

    # ---- (2) the 1.1 threshold of the constructor's warning ---------------------------------------------------
    for _ in range(40 * mult):
        with G("periodicgrid.__init__:warning", "the 1.1 threshold of the warning"):
            args = args_threshold(rng)
            try:
                g, pgw, rec = build(args)
            except Exception as e:  # noqa: BLE001
                ctx.fail("oracle", "periodicgrid.__init__:raises:threshold", f"PeriodicGrid raised {type(e).__name__}: {str(e)[:90]}", witness=base_snip(args))
                continue
            ctx.count(["r3-threshold", args["r3"], args["wrap"], args["d"], args["k"]], nontrivial=True, tag="oracle:r3:" + args["r3"])
            snippet = ("import warnings\nimport numpy as np\nfrom grid.periodicgrid import PeriodicGrid, PeriodicGridWarning\n"
                       "with warnings.catch_warnings(record=True) as rec:\n    warnings.simplefilter('always')\n"
                       f"    g = PeriodicGrid({base_snip(args)['pts']}, {base_snip(args)['w']}, {base_snip(args)['rv']}, wrap={args['wrap']})\n"
                       "n = sum(issubclass(x.category, PeriodicGridWarning) for x in rec)\n"
                       f"assert n == {int(args['expect_warn'])}, f'{{n}} PeriodicGridWarning(s); the fractional coordinates span {{(g.frac_intvls[:, 1] - g.frac_intvls[:, 0]).tolist()}}'\n"
                       "assert all(x.filename == __file__ for x in rec if issubclass(x.category, PeriodicGridWarning)) if '__file__' in globals() else True\n")
            if len(pgw) != int(args["expect_warn"]) or len(rec) != len(pgw):
                ctx.fail("oracle", "periodicgrid.__init__:warning",
                         f"class {args['r3']}, wrap={args['wrap']}: {len(pgw)} PeriodicGridWarning(s) ({len(rec)} warnings in all), expected {int(args['expect_warn'])} "
                         f"(documented: warn iff the fractional coordinates span more than 1.1 and wrap is off); spans "
                         f"{(np.asarray(g.frac_intvls)[:, 1] - np.asarray(g.frac_intvls)[:, 0]).tolist()}", witness=base_snip(args), snippet=snippet)
            elif pgw and pgw[0].filename != __file__:
                ctx.fail("oracle", "periodicgrid.__init__:warning:stacklevel",
                         f"the PeriodicGridWarning is attributed to {pgw[0].filename}, not to the caller of the constructor (stacklevel=2)", witness=base_snip(args), snippet=snippet)
            # the local grid is right on both sides of the threshold (wide grids: many translations, same answer)
            d, oned = args["d"], args["oned"]
            a = np.asarray(g.realvecs, dtype=float).reshape(-1, d)
            P = np.asarray(g.points, dtype=float).reshape(-1, d)
            c = P[rng.randrange(len(P))] + np.array([rng.choice([0.0, 0.125, -0.375]) for _ in range(d)])
            r = rng.choice([0.25, 0.5, 1.0])
            want, amb = exact_images(P, a, c, r, bandbits=44)
            check_query(args, g, c, r, want, amb, "threshold", f"class {args['r3']} (exact lattice {args['lens']})")

    # ---- (3) scaled cells, integer / bool points: the general (rounded) reference ------------------------------
    for _ in range(40 * mult):
        with G("periodicgrid.get_localgrid:scaled-dtype", "scaled cells / integer and bool points"):
            args = args_scaled(rng, base_args) if rng.random() < 0.6 else args_dtype(rng, lattice)
            if args is None:
                continue
            d, oned, k = args["d"], args["oned"], args["k"]
            try:
                g, _, _ = build(args)
            except Exception as e:  # noqa: BLE001
                ctx.fail("oracle", "periodicgrid.__init__:raises:" + args["r3"].split(":")[0],
                         f"PeriodicGrid(points {_descr(args['points'])[:80]}, realvecs {_descr(np.asarray(args['realvecs']))[:80]}) raised {type(e).__name__}: {str(e)[:90]}",
                         witness=base_snip(args))
                continue
            a = np.asarray(g.realvecs, dtype=float).reshape(-1, d)
            P = np.asarray(g.points, dtype=float).reshape(-1, d)
            scale = float(np.linalg.norm(a, axis=1).min())
            b = np.linalg.pinv(a).T
            # duality and spacings relative to the scale of the cell
            rec_ = np.asarray(g.recivecs, dtype=float).reshape(k, d)
            sp = np.asarray(g.spacings, dtype=float).reshape(-1)
            if not np.allclose(rec_ @ a.T, np.eye(k), atol=1e-9) or not np.allclose(sp * np.linalg.norm(rec_, axis=1), 1.0, rtol=1e-10) or np.any(sp <= 0):
                ctx.fail("oracle", "periodicgrid.__init__:recivecs:" + args["r3"].split(":")[0],
                         f"class {args['r3']}: reciprocal vectors / spacings are not dual to the lattice (b.a^T = {(rec_ @ a.T).tolist()}, spacings {sp.tolist()})",
                         witness=base_snip(args))
            if args["wrap"]:
                fr = P @ b.T
                if np.any(fr < -1e-9) or np.any(fr >= 1 + 1e-9):
                    ctx.fail("oracle", "periodicgrid.__init__:wrap:" + args["r3"].split(":")[0],
                             f"class {args['r3']}: wrapped points have fractional coordinates {fr.tolist()}", witness=base_snip(args))
            for _q in range(2):
                x = P[rng.randrange(len(P))]
                c = x + np.array([rng.uniform(-0.4, 0.4) for _ in range(d)]) * scale
                if rng.random() < 0.3:
                    c = x + np.array([rng.choice([-2, -1, 1, 3]) for _ in range(k)]) @ a + np.array([rng.uniform(-0.2, 0.2) for _ in range(d)]) * scale
                r = rng.choice([0.05, 0.3, 0.8, 1.3, 1.7]) * scale
                r = min(r, 10.0 / float(np.linalg.norm(b, axis=1).max()))
                want, r = brute_np(P, a, c, r, scale=scale)
                ctx.count(["r3", args["r3"], d, k, args["wrap"]], nontrivial=True, tag="oracle:r3:" + args["r3"])
                check_query(args, g, c, r, want, [], args["r3"].split(":")[0], f"class {args['r3']}")

    # ---- (4) far centres, lattice-point centres, radius / spacing up to the cap -------------------------------
    nq = 0
    for _ in range(400 * mult):
        with G("periodicgrid.get_localgrid:far", "far centres / huge ratios"):
            if nq >= 36 * mult:
                break
            args = base_args(rng)
            if args["k"] == 0 or args["rtol"] != 1e-11:
                continue
            d, oned, k = args["d"], args["oned"], args["k"]
            try:
                g, _, _ = build(args)
            except Exception:  # noqa: BLE001 (reported by the main oracle)
                continue
            a = np.asarray(g.realvecs, dtype=float).reshape(-1, d)
            sq = special_query(rng, g, a, d, oned, thorough=ctx.thorough)
            if sq is None:
                continue
            c, r, want, how, margin = sq
            nq += 1
            ctx.count(["r3-query", how, d, k, len(want)], nontrivial=True, tag="oracle:r3:query:" + how)
            if how == "hugeratio":
                ctx.tagc("oracle:r3:hugeratio:images", len(want))
            robj, _ = radius_obj(rng, r)
            check_query(args, g, c, r, want, [], how, f"query class {how} (dim {d}, {k} lattice vector(s), wrap={args['wrap']}, {len(want)} images)", robj=robj)

    # ---- (5) the singularity threshold of the constructor (class 7): sigma_min / sigma_max around eps * max(shape) ---
    eps = float(np.finfo(float).eps)
    for d in (2, 3):
        for fac, accept in ((100.0, True), (1.01, True), (1 / 1.01, False), (1 / 100.0, False)):
            with G("periodicgrid.__init__:singular", "singularity threshold"):
                t = eps * d * fac
                rv = np.eye(d)
                rv[d - 1, d - 1] = t
                pts = np.zeros((1, d))
                pts[0, 0] = 0.25
                snippet = ("import numpy as np\nfrom grid.periodicgrid import PeriodicGrid\n"
                           f"rv = np.eye({d}); rv[-1, -1] = {t!r}      # sigma_min / sigma_max = {fac} * eps * max(shape)\n"
                           f"pts = np.zeros((1, {d})); pts[0, 0] = 0.25\n"
                           + ("g = PeriodicGrid(pts, np.ones(1), rv)\nlg = g.get_localgrid(pts[0], 0.0)\nassert list(lg.indices) == [0] and np.array_equal(lg.points, pts)\n" if accept else
                              "try:\n    PeriodicGrid(pts, np.ones(1), rv)\nexcept ValueError:\n    pass\nelse:\n    raise AssertionError('singular cell vectors accepted')\n"))
                ctx.tagc("oracle:r3:singular:" + ("accept" if accept else "reject"))
                try:
                    with warnings.catch_warnings():
                        warnings.simplefilter("ignore")
                        g = PG(pts, np.ones(1), rv)
                        lg = g.get_localgrid(pts[0], 0.0)
                    if not accept:
                        ctx.fail("oracle", "periodicgrid.__init__:singular", f"cell vectors with sigma_min/sigma_max = {fac:.4g} * eps * max(shape) (documented as singular) "
                                 "were accepted", witness={"realvecs": rv.tolist()}, snippet=snippet)
                    elif list(map(int, lg.indices)) != [0] or not np.array_equal(np.asarray(lg.points), pts):
                        ctx.fail("oracle", "periodicgrid.get_localgrid:images:near-singular", f"near-singular cell (ratio {fac:.4g} * eps * max(shape)): the point itself "
                                 f"(radius 0, exact data) is not returned: indices {list(lg.indices)}", witness={"realvecs": rv.tolist()}, snippet=snippet)
                except ValueError as e:
                    if accept:
                        ctx.fail("oracle", "periodicgrid.__init__:singular", f"cell vectors with sigma_min/sigma_max = {fac:.4g} * eps * max(shape) (non-singular by the "
                                 f"documented criterion) were rejected: {str(e)[:60]}", witness={"realvecs": rv.tolist()}, snippet=snippet)

    # recorded only (outside the quantifier: more lattice vectors than dimensions): the flat 1-D form does not count them
    try:
        with warnings.catch_warnings():
            warnings.simplefilter("ignore")
            PG(np.array([0.1, 0.7]), np.ones(2), np.array([1.0, 2.0]))
        ctx.info("outside the quantifier (recorded only): 1-D points (2,) with a two-element 1-D realvecs array are accepted (ncellvec is 1 for every "
                 "1-D realvecs; the points/vectors are then paired elementwise), while the same data as (2,1)/(2,1) arrays is rejected with ValueError")
    except ValueError:
        ctx.info("1-D points with a two-element 1-D realvecs array are rejected (ValueError)")
    if own_guard:
        G.finish()

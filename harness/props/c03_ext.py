"""C03, round 2 (part B): correspondence and oracle of the definitions added to the translator —
the static helper `BeckeRTransform.find_parameter`, the declared intervals (`domain`, `codomain`, their swap by
`InverseRTransform`), and the trimming of infinities: finite values of every magnitude (up to 1e300) and +-inf sent
through every method that calls `_convert_inf`."""
import importlib
import math
from fractions import Fraction

import numpy as np

from ..common import Ctx, b2f, close, driver_batch, f2b, fvec

HAS_TRIM = ["BeckeRTransform", "MultiExpRTransform", "KnowlesRTransform", "HandyRTransform", "HandyModRTransform"]


def rt():
    return importlib.import_module("grid.rtransform")


def _describe():
    from ..translate import rtransform as tr
    return tr.describe()


# ----------------------------------------------------------------------------
# find_parameter
# ----------------------------------------------------------------------------
def _fp_arrays(rng, n_cases):
    """-> list of (label, ndarray) : ascending / unsorted / repeated / end points / dtypes / flags"""
    out = [("empty", np.array([], dtype=float))]
    for size in list(range(1, 9)) + [15, 16, 40, 41]:
        a = np.sort(np.array([rng.uniform(-0.999, 0.999) for _ in range(size)]))
        out.append((f"ascending{size}", a))
    for _ in range(n_cases):
        size = rng.randrange(1, 12)
        a = np.array([rng.uniform(-0.999, 0.999) for _ in range(size)])
        kind = rng.choice(["unsorted", "reversed", "repeated", "with-minus-one", "with-one", "float32", "int", "readonly",
                           "strided", "gauss"])
        if kind == "reversed":
            a = np.sort(a)[::-1].copy()
        elif kind == "repeated":
            a = np.sort(np.repeat(a[: max(1, size // 2)], 2))
        elif kind == "with-minus-one":
            a = np.sort(a)
            a[size // 2] = -1.0          # 1 + mid = 0 for an odd size: division by zero -> inf (no guard in the code)
        elif kind == "with-one":
            a = np.sort(a)
            a[size // 2] = 1.0
        elif kind == "float32":
            a = np.sort(a).astype(np.float32)
        elif kind == "int":
            a = np.arange(size) - rng.randrange(0, 3)
        elif kind == "readonly":
            a = np.sort(a)
            a.setflags(write=False)
        elif kind == "strided":
            a = np.sort(np.array([rng.uniform(-0.999, 0.999) for _ in range(2 * size)]))[::2]
        elif kind == "gauss":
            a = np.polynomial.legendre.leggauss(size)[0]
        out.append((kind, a))
    return out


def corr_find_parameter(ctx: Ctx):
    rng = ctx.rng
    B = rt().BeckeRTransform
    d = _describe()["BeckeRTransform"]["static"]
    if "find_parameter" not in d:
        ctx.fail("corr", "static:BeckeRTransform.find_parameter", "the translator no longer carries BeckeRTransform.find_parameter")
        return
    cases, lines = [], []
    for label, a in _fp_arrays(rng, ctx.n(120, 2500)):
        u = rng.random()
        rmin = rng.choice([0.0, 1e-3, 0.1, round(rng.uniform(0.0, 1.0), 3)])
        radius = rmin + rng.choice([0.0, 0.5, 1.2, round(rng.uniform(0.01, 5.0), 3)])
        if u < 0.12:
            rmin, radius = radius + rng.choice([1e-12, 0.1, 1.0]), rmin       # rejected: rmin > radius
        argkind = rng.choice(["float", "float", "int", "np.float64", "np.float32"])
        if argkind == "int":
            rmin, radius = int(rmin), int(radius) + 1
        conv = {"float": float, "int": int, "np.float64": np.float64, "np.float32": np.float32}[argkind]
        pr, pR = conv(rmin), conv(radius)
        before = a.copy()
        res = []
        for rep in range(2):                 # stateless: the second call must give the same answer
            try:
                with np.errstate(all="ignore"):
                    v = B.find_parameter(a, pr, pR)
                res.append(("ok", float(v)))
            except ValueError:
                res.append(("value-error", None))
            except IndexError:
                res.append(("index-error", None))
        if res[0] != res[1] and not (res[0][0] == "ok" and res[1][0] == "ok" and res[0][1] != res[0][1] and res[1][1] != res[1][1]):
            ctx.fail("corr", "static:BeckeRTransform.find_parameter:repeat", f"find_parameter({a!r}, {pr!r}, {pR!r}) gives {res[0]} then {res[1]}")
        if not np.array_equal(before, a, equal_nan=True):
            ctx.fail("corr", "static:BeckeRTransform.find_parameter:mutates", f"find_parameter changed its array argument {before!r} -> {a!r}")
        single = a.dtype == np.float32 or argkind == "np.float32"
        cases.append((label, a, float(pr), float(pR), res[0], single, argkind))
        lines.append(f"C03.static BeckeRTransform find_parameter {fvec([float(pr), float(pR)])} {fvec([float(x) for x in a])}")
    for (label, a, pr, pR, (tag, v), single, argkind), ans in zip(cases, driver_batch(lines)):
        ctx.count(["find_parameter", [float(x) for x in a], pr, pR, argkind], nontrivial=(len(a) >= 2 or tag != "ok"),
                  tag=f"find_parameter:{label}:{tag}")
        if tag != "ok":
            ok = ans == tag
        else:
            ok = ans.startswith("ok ")
            if ok:
                m = b2f(ans.split()[1])
                ok = (v != v and m != m) or close(v, m, rtol=(3e-6 if single else 1e-13), atol=(1e-7 if single else 0.0))
        if not ok:
            ctx.fail("corr", "static:BeckeRTransform.find_parameter",
                     f"BeckeRTransform.find_parameter({[float(x) for x in a]} [{label}, {a.dtype}], rmin={pr!r}, radius={pR!r}): "
                     f"implementation {tag} {v!r}, generated model {ans if not ans.startswith('ok ') else b2f(ans.split()[1])!r}",
                     witness={"array": [float(x) for x in a], "rmin": pr, "radius": pR, "impl": [tag, v]})


SNIPPET_FP = """import numpy as np
from fractions import Fraction as F
from grid.rtransform import BeckeRTransform
a = np.array({arr!r}); rmin, radius = {rmin!r}, {radius!r}
R = float(BeckeRTransform.find_parameter(a, rmin, radius))
n = a.size
mid = F(float(a[n // 2])) if n % 2 else (F(float(a[n // 2 - 1])) + F(float(a[n // 2]))) / 2      # the stated point of the array
r_mid = F(R) * (1 + mid) / (1 - mid) + F(rmin)                                    # Becke map, exact arithmetic
assert abs(r_mid - F(radius)) <= F(1, 10**12) * max(1, abs(F(radius))), f'R={{R}}: the middle value {{float(mid)}} maps to {{float(r_mid)}}, not to radius={{radius}}'
tf = BeckeRTransform(rmin, R)
r = tf.transform(np.sort(a))
assert (r[: (n + 1) // 2] <= radius * (1 + 1e-12)).all() and (r[n // 2:] >= radius * (1 - 1e-12)).all(), f'half of the points are not within radius: {{r}}'
"""


def oracle_find_parameter(ctx: Ctx, budget: str):
    """The promise of the helper, evaluated on the implementation with exact rationals: with the returned R the Becke
    map sends the middle value of the array to `radius`; for an ascending array half of the points are within radius."""
    rng = ctx.rng
    mod = rt()
    B = mod.BeckeRTransform
    n_cases = 40 if budget == "small" else 600
    for i in range(n_cases):
        size = rng.choice([1, 2, 3, 4, 5, 8, 9, 20, 21]) if i % 2 else rng.randrange(1, 40)
        kind = rng.choice(["uniform", "gauss", "cheb"])
        if kind == "uniform":
            a = np.sort(np.array([rng.uniform(-0.99, 0.99) for _ in range(size)]))
        elif kind == "gauss":
            a = np.polynomial.legendre.leggauss(size)[0]
        else:
            a = np.sort(np.cos((2 * np.arange(size) + 1) * np.pi / (2 * size)))
        rmin = rng.choice([0.0, 1e-3, 0.1, round(rng.uniform(0, 1), 3)])
        radius = rmin + rng.choice([0.5, 1.2, round(rng.uniform(0.05, 6.0), 3)])
        try:
            with np.errstate(all="ignore"):
                R = float(B.find_parameter(a, rmin, radius))
        except Exception as e:  # noqa: BLE001 - a valid call must not raise
            ctx.fail("oracle", "rtransform.BeckeRTransform.find_parameter", f"find_parameter on a valid array of {size} points raised {type(e).__name__}: {e}",
                     witness={"array": a.tolist(), "rmin": rmin, "radius": radius})
            continue
        n = a.size
        mid = Fraction(float(a[n // 2])) if n % 2 else (Fraction(float(a[n // 2 - 1])) + Fraction(float(a[n // 2]))) / 2
        ctx.tagc("oracle:find_parameter")
        bad = None
        if mid in (1, -1):
            continue
        r_mid = Fraction(R) * (1 + mid) / (1 - mid) + Fraction(rmin)
        if abs(r_mid - Fraction(radius)) > Fraction(1, 10 ** 12) * max(1, abs(Fraction(radius))):
            bad = f"the middle value {float(mid)!r} of the array maps to {float(r_mid)!r} under BeckeRTransform(rmin={rmin}, R={R!r}), not to radius={radius}"
        else:
            with np.errstate(all="ignore"):
                r = mod.BeckeRTransform(rmin, R).transform(a)
            if not ((r[: (n + 1) // 2] <= radius * (1 + 1e-12)).all() and (r[n // 2:] >= radius * (1 - 1e-12)).all()):
                bad = f"with R={R!r} the lower half of the {n} ascending points is not within radius={radius}: {r.tolist()[:6]}..."
        if bad:
            ctx.fail("oracle", "rtransform.BeckeRTransform.find_parameter", f"find_parameter(array of {n} points, rmin={rmin}, radius={radius}): {bad}",
                     witness={"array": a.tolist(), "rmin": rmin, "radius": radius, "R": R},
                     snippet=SNIPPET_FP.format(arr=a.tolist(), rmin=rmin, radius=radius))
    # guards
    for a, rmin, radius, want in ((np.arange(5), 0.5, 0.1, ValueError), (np.array([]), 0.1, 0.5, IndexError)):
        try:
            B.find_parameter(a, rmin, radius)
            got = None
        except Exception as e:  # noqa: BLE001
            got = type(e)
        if got is not want:
            ctx.fail("oracle", "rtransform.BeckeRTransform.find_parameter:guard",
                     f"find_parameter({a.tolist()}, {rmin}, {radius}) should raise {want.__name__}, got {getattr(got, '__name__', got)}",
                     witness={"array": a.tolist(), "rmin": rmin, "radius": radius})


# ----------------------------------------------------------------------------
# declared intervals
# ----------------------------------------------------------------------------
def corr_domains(ctx: Ctx, classes, gen_params, construct):
    rng = ctx.rng
    mod = rt()
    cases, lines = [], []
    for cls in classes:
        for _ in range(ctx.n(6, 60)):
            ps, trim = gen_params(cls, rng)
            T = construct(cls, ps, trim)
            for inv in (False, True):
                TT = mod.InverseRTransform(T) if inv else T
                want = [float(TT.domain[0]), float(TT.domain[1]), float(TT.codomain[0]), float(TT.codomain[1])]
                cases.append((cls, ps, inv, want))
                lines.append(f"C03.domain {1 if inv else 0} {cls} {1 if trim else 0} {fvec([float(p) for p in ps])}")
    for (cls, ps, inv, want), ans in zip(cases, driver_batch(lines)):
        ctx.count(["domain", cls, [float(p) for p in ps], inv], nontrivial=inv or len(ps) > 0, tag=f"domain:{'inv:' if inv else ''}{cls}")
        got = [b2f(t) for t in ans.split()[1:]] if ans.startswith("ok ") else None
        if got != want:
            ctx.fail("corr", f"domain:{cls}", f"{'InverseRTransform of ' if inv else ''}{cls}{tuple(ps)}: implementation domain/codomain {want}, "
                     f"generated {got if got is not None else ans}", witness={"class": cls, "params": ps, "wrapped": inv})


# ----------------------------------------------------------------------------
# trimming: finite values of every magnitude and +-inf through every method that calls _convert_inf
# ----------------------------------------------------------------------------
def _trim_sites():
    """(class, method) pairs whose generated text calls convert_inf — read off the generated file."""
    from ..common import LEAN
    text = (LEAN / "GridVerif" / "Gen" / "RTransform.lean").read_text()
    sites, cls, meth = [], None, None
    for line in text.splitlines():
        if line.startswith("namespace ") and line.split()[1].endswith("RTransform"):
            cls = line.split()[1]
        elif line.startswith("def ") and cls:
            meth = line.split()[1]
        elif "BaseTransform.convert_inf" in line and cls and cls != "BaseTransform" and meth in ("transform", "deriv", "deriv2", "deriv3"):
            if (cls, meth) not in sites:
                sites.append((cls, meth))
    return sites


def _trim_params(cls, rng):
    """parameters that push interior values above 1e16 (large scale / exponent), plus ordinary ones"""
    big = rng.choice([1.0, 1e3, 1e10, 1e17, 1e100, 1e250])
    rmin = rng.choice([0.0, 0.1, 2.0])
    if cls in ("BeckeRTransform", "MultiExpRTransform"):
        return [rmin, big]
    if cls in ("KnowlesRTransform", "HandyRTransform"):
        return [rmin, big, rng.choice([1, 2, 3, 4, 6, 8, 0.5, 1.5, 2.5, 3.7])]
    m = rng.choice([1, 2, 3, 4, 0.5, 2.5])
    return [rmin, rmin + 2.0 ** m - 1 + rng.choice([0.3, 5.0, 1e17, 1e100]), m]


def _trim_points(cls, rng):
    sing = -1.0 if cls == "MultiExpRTransform" else 1.0
    pts = [sing, -sing, 0.3, -0.7]
    for d in (1e-3, 1e-7, 1e-12, 1e-15):
        pts.append(sing - math.copysign(d, sing))
    pts.append(float(np.nextafter(sing, 0.0)))
    pts.append(float(np.nextafter(-sing, 0.0)))
    return pts


def corr_trimming(ctx: Ctx, within_noise):
    rng = ctx.rng
    mod = rt()
    sites = _trim_sites()
    want_sites = {(c, m) for c in HAS_TRIM for m in ("transform", "deriv")} | {("HandyRTransform", "deriv2"), ("HandyRTransform", "deriv3")}
    want_sites -= {("MultiExpRTransform", "deriv")}
    if set(sites) != want_sites:
        ctx.info(f"call sites of _convert_inf in the generated text changed: {sorted(set(sites) ^ want_sites)}")
    cases, lines = [], []
    for cls, meth in sites:
        C = getattr(mod, cls)
        for _ in range(ctx.n(14, 200)):
            ps = _trim_params(cls, rng)
            for trim in (True, False):
                try:
                    T = C(*ps, trim_inf=trim)
                except ValueError:
                    continue
                xs = _trim_points(cls, rng)
                with np.errstate(all="ignore"):
                    arr = np.asarray(getattr(T, meth)(np.array(xs)), dtype=float)
                    first = float(np.asarray(getattr(T, meth)(np.array([xs[0]])), dtype=float)[0])
                    # Python-float arguments at interior points (the `isinstance(array, Number)` branch of _convert_inf)
                    sc = []
                    for x in xs[2:6]:
                        try:
                            sc.append(float(np.asarray(getattr(T, meth)(float(x)), dtype=float)))
                        except (OverflowError, ZeroDivisionError):
                            # Python-float arithmetic raises where NumPy returns inf (x**n overflow, x/0.0)
                            sc.append(float(arr[2 + len(sc)]))
                            ctx.tagc("trim:python-float-arithmetic-raises")
                # scalar branch and one-element array agree with the array call
                for j, s in enumerate(sc, start=2):
                    a = float(arr[j])
                    if not ((s != s and a != a) or s == a or close(s, a, rtol=1e-12) or abs(s - a) <= _neighbour_slack(T, meth, xs[j])):
                        ctx.fail("corr", f"trim:scalar:{cls}.{meth}", f"{cls}{tuple(ps)} trim={trim} {meth}({xs[j]!r}): Python float gives {s!r}, array gives {a!r}",
                                 witness={"class": cls, "params": ps, "trim": trim, "method": meth, "x": xs[j]})
                if not ((first != first and arr[0] != arr[0]) or first == float(arr[0])):
                    ctx.fail("corr", f"trim:size:{cls}.{meth}", f"{cls}{tuple(ps)} trim={trim} {meth}: one-element array {first!r} vs element of a longer array {float(arr[0])!r}")
                for x, v in zip(xs, arr):
                    cases.append((cls, meth, ps, trim, x, float(v), _neighbour_slack(T, meth, x)))
                    lines.append(f"C03.eval {cls} {meth} {1 if trim else 0} {len(xs)} {fvec([float(p) for p in ps])} {f2b(x)}")
    seen = {"finite>1e16": 0, "+1e16": 0, "-1e16": 0, "inf": 0, "finite>1e16:trim": 0}
    for (cls, meth, ps, trim, x, v, slack), ans in zip(cases, driver_batch(lines)):
        m = b2f(ans.split()[1]) if ans.startswith("ok ") else None
        kind = ("nan" if v != v else "inf" if math.isinf(v) else "+1e16" if v == 1e16 else "-1e16" if v == -1e16
                else "finite>1e16" if abs(v) > 1e16 else "finite")
        if kind in seen:
            seen[kind] += 1
        if kind == "finite>1e16" and trim:
            seen["finite>1e16:trim"] += 1
        ctx.count(["trim", cls, meth, [float(p) for p in ps], trim, x], nontrivial=kind != "finite", tag=f"trim:{cls}.{meth}:{kind}")
        if m is None:
            ok = False
        elif v != v or m != m:
            # nan at a pole: 0/0 or inf-inf decided by the last bit of a power routine; both sides must at least be non-finite or huge
            ok = (v != v and m != m) or _huge(v) and _huge(m)
        elif math.isinf(v) or math.isinf(m) or abs(v) == 1e16 or abs(m) == 1e16:
            # exactly at the singular end both sides must agree exactly (inf, or its replacement); one ulp next to it the two
            # power routines may disagree on inf vs a huge finite value
            ok = v == m or (abs(abs(x) - 1.0) > 0 and _huge(v) and _huge(m) and (v > 0) == (m > 0))
        else:
            ok = close(v, m, rtol=1e-9)
            if not ok and abs(v - m) <= slack and slack < 0.05 * abs(v):
                ok = True         # the value moves by more than the disagreement when x moves by a few ulp (pole / cancellation)
                ctx.tagc("trim:conditioning-limited")
            if not ok:
                ok = within_noise(ctx, mod, "eval", cls, ps, trim, meth, x, v, m)
        if not ok:
            ctx.fail("corr", f"trim:{cls}.{meth}", f"{cls}{tuple(ps)} trim={trim} {meth}({x!r}): implementation {v!r}, generated model "
                     f"{m if m is not None else ans!r}", witness={"class": cls, "params": ps, "trim": trim, "method": meth, "x": x, "impl": v, "model": m})
    for k, n in seen.items():
        ctx.tagc(f"trim:seen:{k}", n)
    if seen["finite>1e16:trim"] == 0 or seen["+1e16"] == 0 or seen["inf"] == 0:
        ctx.fail("corr", "trim:coverage", f"the trimming cases no longer reach finite values above 1e16 with trimming on / +-inf / 1e16: {seen}")
    # _convert_inf itself: magnitudes up to 1e300, both branches, default and explicit replacement
    T = mod.BeckeRTransform(0.0, 1.0)
    vals = [0.0, -0.0, 1.0, -2.5, 9.99e15, 1e16, 1.0000000000000002e16, 1e17, -1e17, 1e100, -1e200, 1e300, -1e300, 1.7976931348623157e308,
            5e-324, float("inf"), float("-inf"), float("nan")] + [rng.choice([-1, 1]) * 10.0 ** rng.uniform(-300, 300) for _ in range(ctx.n(30, 300))]
    lines, want = [], []
    for v in vals:
        for rep in (None, 7.5, 1e300):
            arr = np.array([v, 1.0])
            out = T._convert_inf(arr) if rep is None else T._convert_inf(arr, rep)
            if out is arr or arr[0] != v and v == v:
                ctx.fail("corr", "convert_inf:copy", f"_convert_inf({v!r}) returned or modified its argument array")
            sc = T._convert_inf(float(v)) if rep is None else T._convert_inf(float(v), rep)
            for br, w in (("array", float(out[0])), ("scalar", float(sc))):
                lines.append(f"C03.convinf {br} {f2b(v)}" if rep is None else f"C03.convinf2 {br} {f2b(v)} {f2b(rep)}")
                want.append((v, rep, br, w))
    for a, (v, rep, br, w) in zip(driver_batch(lines), want):
        ctx.count(["convert_inf-ext", br, v, rep], nontrivial=not math.isfinite(v) or abs(v) > 1e16, tag="convert_inf:" + br + (":huge" if abs(v) > 1e16 else ""))
        m = b2f(a.split()[1]) if a.startswith("ok ") else None
        same = m is not None and ((w != w and m != m) or (w == m and math.copysign(1, w) == math.copysign(1, m)))
        finite_ok = (not math.isfinite(v)) or w == v           # the property: a finite value is never altered
        if not (same and finite_ok):
            ctx.fail("corr", "convert_inf", f"_convert_inf({v!r}, {rep!r}) {br} branch: implementation {w!r}, generated model {m if m is not None else a!r}"
                     + ("" if finite_ok else " — a finite value was altered"), witness={"value": v, "replace_inf": rep, "branch": br})


def _neighbour_slack(T, meth, x):
    """How far the implementation's own value moves when `x` moves by a few ulp: the rounding noise that a pole or a
    cancellation (`2^m - (1+x)^m` next to x = 1) amplifies.  A changed formula moves the value by far more."""
    ulp = np.spacing(max(abs(x), 0.5))
    ys = np.array([x, x + 4 * ulp, x - 4 * ulp, x + 16 * ulp, x - 16 * ulp])
    with np.errstate(all="ignore"):
        try:
            f = np.asarray(getattr(T, meth)(ys), dtype=float) * np.ones(5)
        except Exception:  # noqa: BLE001
            return 0.0
    d = np.abs(f[1:] - f[0])
    d = d[np.isfinite(d)]
    return float(d.max()) if d.size else 0.0


def _huge(v):
    return v != v or abs(v) >= 1e15


def corr_ext(ctx: Ctx, classes, gen_params, construct, within_noise, end_points=None):
    corr_find_parameter(ctx)
    corr_domains(ctx, classes, gen_params, construct)
    corr_trimming(ctx, within_noise)
    if end_points is not None:
        corr_scalar_end_points(ctx, classes, gen_params, construct, end_points)


SNIPPET_INV = """import numpy as np
from grid import rtransform as rt
T = getattr(rt, {cls!r})(*{ps!r})
I = rt.InverseRTransform(T)
same = lambda a, b: float(a[0]) == float(b[0]) and float(a[1]) == float(b[1])
assert same(I.domain, T.codomain) and same(I.codomain, T.domain), f'InverseRTransform({cls}): domain {{I.domain}}, codomain {{I.codomain}}; wrapped codomain {{T.codomain}}, domain {{T.domain}}'
x = {x!r}
r = float(np.asarray(T.transform(np.array([x])))[0])
back = float(np.asarray(I.transform(np.array([r])))[0])
assert float(I.domain[0]) <= r <= float(I.domain[1]) and float(I.codomain[0]) <= back <= float(I.codomain[1]), f'r={{r}} in {{I.domain}}? I.transform(r)={{back}} in {{I.codomain}}?'
"""


def oracle_inverse_wrapper(ctx: Ctx, classes, gen_params, construct):
    """`InverseRTransform(T)` is a transform from T's codomain to T's domain: declared intervals swapped, an image of T
    lies in the wrapper's domain and is sent back into the wrapper's codomain."""
    rng = ctx.rng
    mod = rt()
    for cls in classes:
        ps, trim = gen_params(cls, rng)
        T = construct(cls, ps, trim)
        I = mod.InverseRTransform(T)
        x = 0.3 if float(T.domain[0]) < 0 else (0.4 * float(ps[2]) if len(ps) == 3 and cls in ("LinearInfiniteRTransform", "ExpRTransform", "PowerRTransform")
                                                else (0.5 / ps[1] if cls == "HyperbolicRTransform" else 2.5))
        with np.errstate(all="ignore"):
            r = float(np.asarray(T.transform(np.array([x])))[0])
            back = float(np.asarray(I.transform(np.array([r])))[0])
        same = lambda a, b: float(a[0]) == float(b[0]) and float(a[1]) == float(b[1])      # noqa: E731
        ok = same(I.domain, T.codomain) and same(I.codomain, T.domain)
        ok = ok and float(I.domain[0]) <= r <= float(I.domain[1]) and float(I.codomain[0]) <= back <= float(I.codomain[1])
        ctx.tagc("oracle:inverse-wrapper")
        if not ok:
            ctx.fail("oracle", "rtransform.InverseRTransform.domain",
                     f"InverseRTransform({cls}{tuple(ps)}): domain {tuple(float(v) for v in I.domain)}, codomain {tuple(float(v) for v in I.codomain)}; "
                     f"the wrapped transform has codomain {tuple(float(v) for v in T.codomain)}, domain {tuple(float(v) for v in T.domain)}; "
                     f"T.transform({x}) = {r!r}, wrapper sends it to {back!r}",
                     witness={"class": cls, "params": ps, "x": x},
                     snippet=SNIPPET_INV.format(cls=cls, ps=[float(p) if not isinstance(p, int) else p for p in ps], x=x))


def info_python_float_end_point(ctx: Ctx):
    """Information only (disposition of the lead, round 2): the *derivative* methods are claimed on the interior; at the
    singular end a Python-float argument makes them raise ZeroDivisionError where np.float64 and arrays give inf / 1e16.
    (The forward maps were repaired in /repo ea165b3 and are an ordinary correspondence + oracle case, see below.)"""
    mod = rt()
    out = []
    for cls, ps, x in (("BeckeRTransform", (0.1, 1.5), 1.0), ("HandyRTransform", (0.1, 1.5, 2), 1.0),
                       ("KnowlesRTransform", (0.1, 1.5, 2), 1.0), ("MultiExpRTransform", (0.1, 1.5), -1.0)):
        T = getattr(mod, cls)(*ps)
        for meth in ("deriv", "deriv2"):
            try:
                with np.errstate(all="ignore"):
                    v = repr(float(getattr(T, meth)(x)))
            except Exception as e:  # noqa: BLE001
                v = type(e).__name__
            with np.errstate(all="ignore"):
                w = float(getattr(T, meth)(np.float64(x)))
            if v != repr(w):
                out.append(f"{cls}{ps}.{meth}({x}) [Python float] -> {v}; np.float64 -> {w!r}")
    if out:
        ctx.info("information (derivative methods at the singular end, Python-float argument; out of scope: derivatives are claimed on "
                 "the interior): " + "; ".join(out))


# ----------------------------------------------------------------------------
# the forward map at the reference end points, Python-float argument (repair ea165b3)
# ----------------------------------------------------------------------------
SNIPPET_SCALAR_END = """import warnings; warnings.filterwarnings('ignore')
import numpy as np
from grid import rtransform as rt
cls, ps, trim, x, want = {cls!r}, {ps!r}, {trim!r}, {x!r}, float({want!r})
kw = dict(trim_inf=trim) if trim is not None else dict()
T = getattr(rt, cls)(*ps, **kw)
got = float(T.transform(x))          # x is a Python float: 'scalar or array'
arr = float(T.transform(np.array([x]))[0])
assert (got == want or abs(got - want) <= 1e-12 * max(1.0, abs(want))) and (got == arr or abs(got - arr) <= 1e-12 * max(1.0, abs(arr))), f'{{cls}}{{tuple(ps)}} trim={{trim}}: transform({{x}}) [Python float] = {{got}}, array argument gives {{arr}}, codomain end {{want}}'
"""


def _end_cases(classes, gen_params, construct, end_points, rng, reps):
    """(cls, ps, trim, x) : every class, trimming on and off where the class has the flag, every reference end point"""
    out = []
    for cls in classes:
        for _ in range(reps):
            ps, _trim = gen_params(cls, rng)
            for trim in ((True, False) if cls in HAS_TRIM else (None,)):
                for x in end_points(cls, ps):
                    out.append((cls, ps, trim, float(x)))
    return out


def corr_scalar_end_points(ctx: Ctx, classes, gen_params, construct, end_points):
    """`transform(1.0)` / `transform(-1.0)` (b-scaled maps: 0.0 and b) with a *Python float*: must be accepted, agree with
    the one-element array call and with the generated model."""
    rng = ctx.rng
    cases, lines = [], []
    for cls, ps, trim, x in _end_cases(classes, gen_params, construct, end_points, rng, ctx.n(4, 40)):
        T = construct(cls, ps, trim)
        with np.errstate(all="ignore"):
            try:
                s = float(np.asarray(T.transform(float(x)), dtype=float))
                tag = "ok"
            except Exception as e:  # noqa: BLE001 - an end point given as a Python float must be accepted
                s, tag = None, type(e).__name__
            a = float(np.asarray(T.transform(np.array([x])), dtype=float)[0])
        cases.append((cls, ps, trim, x, tag, s, a))
        lines.append(f"C03.eval {cls} transform {1 if trim else 0} 1 {fvec([float(p) for p in ps])} {f2b(x)}")
    for (cls, ps, trim, x, tag, s, a), ans in zip(cases, driver_batch(lines)):
        m = b2f(ans.split()[1]) if ans.startswith("ok ") else None
        ctx.count(["scalar-end", cls, [float(p) for p in ps], trim, x], nontrivial=True, tag=f"scalar-end:{cls}:{tag}")
        e = float(ps[2]) if cls in ("KnowlesRTransform", "HandyRTransform", "HandyModRTransform") else 1.0
        loose = e != int(e)          # non-integer exponent: the last bit of pow decides inf / nan / huge at the pole
        def same(u, v):
            return u is not None and v is not None and ((u != u and v != v) or u == v or close(u, v, rtol=1e-10, atol=1e-12)
                                                        or (loose and _huge(u) and _huge(v)))
        if tag != "ok" or not same(s, a) or not same(s, m):
            ctx.fail("corr", f"scalar-end:{cls}.transform", f"{cls}{tuple(ps)} trim={trim}: transform({x!r}) with a Python float: "
                     f"{tag if tag != 'ok' else repr(s)}; one-element array {a!r}; generated model {m if m is not None else ans!r}",
                     witness={"class": cls, "params": ps, "trim": trim, "method": "transform", "x": x, "python_float": True})


def oracle_scalar_end_points(ctx: Ctx, classes, gen_params, construct, end_points):
    """The property at the reference end points for a scalar argument: the forward map sends them to the codomain ends
    (inf, or 1e16 with trimming) — Python float and np.float64 alike."""
    rng = ctx.rng
    inf = float("inf")
    for cls in classes:
        ps, _ = gen_params(cls, rng)
        if cls in ("KnowlesRTransform", "HandyRTransform", "HandyModRTransform"):
            ps = list(ps[:2]) + [rng.choice([1, 2, 3])]       # integer exponents: the end value is exact
            if cls == "HandyModRTransform":
                ps[1] = ps[0] + 2.0 ** ps[2] - 1 + 5.0
        for trim in ((True, False) if cls in HAS_TRIM else (None,)):
            T = construct(cls, ps, trim)
            lo_c, hi_c = float(T.codomain[0]), float(T.codomain[1])
            if cls in ("LinearInfiniteRTransform", "ExpRTransform", "PowerRTransform"):
                pts = [(0.0, lo_c), (float(ps[2]), hi_c)]
            elif cls in ("HyperbolicRTransform", "IdentityRTransform"):
                pts = [(0.0, 0.0)]
            elif cls == "MultiExpRTransform":
                pts = [(1.0, lo_c), (-1.0, hi_c)]
            else:
                pts = [(-1.0, lo_c), (1.0, hi_c)]
            for x, want in pts:
                if want == inf and trim:
                    want = 1e16
                for kind, arg in (("Python float", float(x)), ("np.float64", np.float64(x))):
                    with np.errstate(all="ignore"):
                        try:
                            got = float(np.asarray(T.transform(arg), dtype=float))
                        except Exception as e:  # noqa: BLE001
                            got = type(e).__name__
                    ctx.tagc("oracle:scalar-end-point")
                    if not (isinstance(got, float) and (got == want or close(got, want, rtol=1e-12, atol=1e-12))):
                        ctx.fail("oracle", f"rtransform.{cls}.endpoints", f"{cls}{tuple(ps)} trim={trim}: transform({x}) with a {kind} argument "
                                 f"gives {got!r}, the codomain end is {want!r}",
                                 witness={"class": cls, "params": ps, "trim": trim, "x": x, "argument": kind, "got": got},
                                 snippet=SNIPPET_SCALAR_END.format(cls=cls, ps=[float(p) if not isinstance(p, int) else p for p in ps],
                                                                   trim=trim, x=float(x), want=want))


def oracle_ext(ctx: Ctx, budget: str, classes=None, gen_params=None, construct=None, end_points=None):
    oracle_find_parameter(ctx, budget)
    info_python_float_end_point(ctx)
    if end_points is not None:
        oracle_scalar_end_points(ctx, classes, gen_params, construct, end_points)
    if classes is not None:
        oracle_inverse_wrapper(ctx, classes, gen_params, construct)

"""C13, round 4 (generators only): dtype / container kinds of INDEX-type arguments on grids large enough for every narrow
integer dtype to overflow, of the constructor arguments and of the arrays held by the grid object (class 14); one argument
object used for several requests (16); complex function values (17); calls that raise leave no trace (18); 1-D rules with
extreme nodes / weights under the tensor product (19); pairwise different sizes with a 2 (20)."""
import itertools

import numpy as np

from ..common import Tokens, close, driver_batch, fmat, fvec, vec

INT_DTYPES = [np.int8, np.uint8, np.int16, np.uint16, np.int32, np.uint32, np.int64, np.uint64, np.intp]
SNIP_HEAD = ("import warnings; warnings.filterwarnings('ignore')\nimport numpy as np\nfrom grid.cubic import UniformGrid, Tensor1DGrids\n"
             "from grid.basegrid import OneDGrid\n")

SNIP_C2I = SNIP_HEAD + """shape = {shape!r}
g = {ctor}
c = {arg}
try:
    r = g.coordinates_to_index(c)
except Exception as e:
    raise AssertionError(f'coordinates_to_index({{c!r}}) raises {{type(e).__name__}}: {{e}}')
want = int(np.ravel_multi_index({coords!r}, shape))
assert float(r) == want, f'coordinates_to_index({{c!r}}) = {{r!r}}, the row-major index of {coords!r} in shape {{shape}} is {{want}}'
"""

SNIP_I2C = SNIP_HEAD + """shape = {shape!r}
g = {ctor}
i = {arg}
try:
    r = g.index_to_coordinates(i)
except Exception as e:
    raise AssertionError(f'index_to_coordinates({{i!r}}) raises {{type(e).__name__}}: {{e}}')
want = tuple(int(x) for x in np.unravel_index({index!r}, shape))
assert tuple(float(x) for x in r) == tuple(float(x) for x in want), f'index_to_coordinates({{i!r}}) = {{r}}, the coordinates of {index!r} in shape {{shape}} are {{want}}'
"""


def _b():
    from . import c13
    return c13


def _fl(x):
    return [float(v) for v in np.asarray(x).ravel()]


_GRIDS = {}


def index_grids(cub):
    """grids with more than 127 / 255 / 32767 / 65535 points (built once per process; index maps never touch the points)"""
    from grid.basegrid import OneDGrid
    if not _GRIDS:
        for shape in ([5, 6, 5], [4, 8, 9], [32, 32, 33], [41, 40, 40], [13, 11], [17, 16], [200, 170], [258, 255]):
            d = len(shape)
            ctor_u = f"UniformGrid(np.zeros({d}), np.eye({d}), np.array(shape), weight='Rectangle')"
            _GRIDS[("uniform", tuple(shape))] = (cub.UniformGrid(np.zeros(d), np.eye(d), np.array(shape), weight="Rectangle"), ctor_u)
            if int(np.prod(shape)) < 40000:
                ctor_t = "Tensor1DGrids(*[OneDGrid(np.arange(float(n)), np.ones(n)) for n in shape])"
                _GRIDS[("tensor", tuple(shape))] = (cub.Tensor1DGrids(*[OneDGrid(np.arange(float(n)), np.ones(n)) for n in shape]), ctor_t)
    return _GRIDS


def coord_kinds(c):
    """the integer coordinates `c` (tuple of Python ints) in every container / dtype that can hold them: [(label, object, source text)]"""
    c = tuple(int(x) for x in c)
    out = [("tuple", c, repr(c)), ("list", list(c), repr(list(c)))]
    for dt in INT_DTYPES:
        if max(c) <= np.iinfo(dt).max:
            out.append((dt.__name__, np.array(c, dtype=dt), f"np.array({list(c)}, dtype=np.{dt.__name__})"))
    out.append(("float64", np.array(c, dtype=float), f"np.array({list(c)}, dtype=float)"))
    out.append(("float32", np.array(c, dtype=np.float32), f"np.array({list(c)}, dtype=np.float32)"))
    if max(c) <= 127:
        out.append(("tuple-int8", tuple(np.int8(x) for x in c), f"tuple(np.int8(x) for x in {list(c)})"))
    out.append(("list-uint16", [np.uint16(x) for x in c], f"[np.uint16(x) for x in {list(c)}]"))
    out.append(("tuple-int64", tuple(np.int64(x) for x in c), f"tuple(np.int64(x) for x in {list(c)})"))
    if max(c) <= 1:
        out.append(("bool", np.array(c, dtype=bool), f"np.array({list(c)}, dtype=bool)"))
    ro = np.array(c, dtype=np.int16)
    ro.setflags(write=False)
    out.append(("readonly-int16", ro, f"np.array({list(c)}, dtype=np.int16)"))
    big = np.zeros(2 * len(c), dtype=np.int32)
    big[::2] = c
    out.append(("strided-int32", big[::2], f"np.array({list(c)}, dtype=np.int32)"))
    return out


def index_kinds(idx, kind, shape):
    """the flat index in every scalar kind that can hold it. Known envelope (reported, not a generator case): on a
    Tensor1DGrids (shape = tuple of Python ints) an int8 / uint8 index raises OverflowError as soon as a stride exceeds the
    dtype (NumPy's conversion of the Python-int stride)."""
    idx = int(idx)
    strides = [int(np.prod(shape[k + 1:])) for k in range(len(shape))]
    out = [("int", idx, repr(idx))]
    for dt in INT_DTYPES:
        if idx <= np.iinfo(dt).max and (kind == "uniform" or max(strides) <= np.iinfo(dt).max):
            out.append((dt.__name__, dt(idx), f"np.{dt.__name__}({idx})"))
    out.append(("0d-int16", np.array(idx, dtype=np.int16), f"np.array({idx}, dtype=np.int16)") if idx <= 32767 and (kind == "uniform" or max(strides) <= 32767)
               else ("0d-int64", np.array(idx, dtype=np.int64), f"np.array({idx}, dtype=np.int64)"))
    out.append(("float64", float(idx), repr(float(idx))))
    return out


def sample_coords(rng, shape, k):
    out = [tuple(s - 1 for s in shape), tuple(0 for _ in shape), tuple(1 if s > 1 else 0 for s in shape)]
    out += [tuple(rng.randrange(s) for s in shape) for _ in range(k)]
    return out


def _ans(r):
    try:
        f = float(r)
        return "ok " + (str(int(f)) if f == int(f) else repr(f))
    except Exception:
        return "ok " + repr(r)


def corr_index_dtypes(ctx, cub, rng):
    """every container / integer dtype of coordinates and of flat indices against the generated Lean code (`C13.c2i`,
    `C13.i2c`) on grids with more than 127, 255, 32767 and 65535 points"""
    b = _b()
    lines, impl, meta = [], [], []
    for (kind, shape), (g, _) in index_grids(cub).items():
        shape = list(shape)
        d = len(shape)
        n = int(np.prod(shape))
        for c in sample_coords(rng, shape, ctx.n(2, 12)):
            kinds = coord_kinds(c)
            for label, obj, _src in (kinds if ctx.thorough else kinds[:2] + rng.sample(kinds[2:], min(5, len(kinds) - 2))):
                lines.append(f"C13.c2i {d} {vec(shape)} {vec(c)}")
                try:
                    impl.append(_ans(g.coordinates_to_index(obj)))
                except Exception as e:
                    impl.append(b._tag(e))
                meta.append(("c2i", kind, shape, list(c), label))
        for idx in [n - 1, 0, 127, 128, 255, 256, 32767, 32768, 65535] + [rng.randrange(n) for _ in range(ctx.n(2, 10))]:
            if idx >= n:
                continue
            kinds = index_kinds(idx, kind, shape)
            for label, obj, _src in (kinds if ctx.thorough else kinds[:1] + rng.sample(kinds[1:], min(4, len(kinds) - 1))):
                lines.append(f"C13.i2c {d} {vec(shape)} {idx}")
                try:
                    r = g.index_to_coordinates(obj)
                    impl.append("ok " + vec([int(x) if float(x) == int(x) else repr(float(x)) for x in r]))
                except Exception as e:
                    impl.append(b._tag(e))
                meta.append(("i2c", kind, shape, idx, label))
    model = driver_batch(lines)
    for (op, kind, shape, arg, label), a, m, ln in zip(meta, impl, model, lines):
        ctx.count(["index-dtype", op, kind, shape, arg, label], tag=f"{op}:{kind}:as-{label}:{a.split()[0]}")
        if a != m:
            ctx.fail("corr", f"index:{op}:{len(shape)}d", f"{ln} ({kind} grid, argument as {label}): implementation {a}, generated Lean code {m}",
                     witness={"op": op, "shape": shape, "arg": arg, "impl": a, "model": m, "kind": kind, "as": label})


def or_index_dtypes(ctx, cub, rng, big):
    """the index round trip, the row-major index and the point at (i, j, k) for coordinates / flat indices of every
    container and integer dtype; references: np.ravel_multi_index / np.unravel_index and Python-int arithmetic"""
    for (kind, shape), (g, ctor) in index_grids(cub).items():
        shape = list(shape)
        n = int(np.prod(shape))
        pts = g.points
        for c in sample_coords(rng, shape, 2 if not big else 25):
            want = sum(int(ci) * int(np.prod(shape[k + 1:])) for k, ci in enumerate(c))
            assert want == int(np.ravel_multi_index(c, shape))
            kinds = coord_kinds(c)
            for label, obj, src in (kinds if big else kinds[:1] + [k for k in kinds if k[0] in ("int8", "uint8", "int16", "uint16", "bool", "list-uint16")]
                                    + rng.sample(kinds, 2)):
                ctx.tagc(f"oracle:index-dtype:c2i:{label}")
                keep = np.array(obj).copy() if isinstance(obj, np.ndarray) else None
                try:
                    r = g.coordinates_to_index(obj)
                    ok = float(r) == want and (kind != "uniform" or _fl(pts[int(r)]) == [float(x) for x in c])
                    got = repr(r)
                except Exception as e:  # noqa: BLE001
                    ok, got = False, f"raises {type(e).__name__}: {str(e)[:80]}"
                if keep is not None and not np.array_equal(keep, obj):
                    ok, got = False, got + " and modified its argument"
                if not ok:
                    ctx.fail("oracle", f"cubic.index:{len(shape)}d", f"{kind} grid shape {shape}: coordinates_to_index of {c} given as {label} -> {got}; the row-major index is {want}",
                             witness={"shape": shape, "coords": list(c), "as": label, "grid": kind},
                             snippet=SNIP_C2I.format(shape=shape, ctor=ctor, arg=src, coords=tuple(c)))
                    break
        for idx in [n - 1, 0] + [i for i in (127, 128, 255, 256, 32767, 32768) if i < n] + [rng.randrange(n) for _ in range(2 if not big else 20)]:
            want = tuple(int(x) for x in np.unravel_index(idx, shape))
            kinds = index_kinds(idx, kind, shape)
            for label, obj, src in (kinds if big else kinds[:1] + [k for k in kinds if k[0] in ("int8", "uint8", "int16", "uint16")] + rng.sample(kinds, 1)):
                ctx.tagc(f"oracle:index-dtype:i2c:{label}")
                try:
                    r = g.index_to_coordinates(obj)
                    ok = tuple(float(x) for x in r) == tuple(float(x) for x in want) and float(g.coordinates_to_index(r)) == idx
                    got = repr(tuple(r))
                except Exception as e:  # noqa: BLE001
                    ok, got = False, f"raises {type(e).__name__}: {str(e)[:80]}"
                if not ok:
                    ctx.fail("oracle", f"cubic.index:{len(shape)}d", f"{kind} grid shape {shape}: index_to_coordinates of {idx} given as {label} -> {got}; the coordinates are {want} "
                             "(or they do not map back to the index)", witness={"shape": shape, "index": idx, "as": label, "grid": kind},
                             snippet=SNIP_I2C.format(shape=shape, ctor=ctor, arg=src, index=idx))
                    break


def or_ctor_dtypes(ctx, cub, rng, big):
    """class 14 on the constructors: `shape` in every integer dtype (float axes), `axes` / `origin` in every integer and float
    dtype (int64 shape), Tensor1DGrids from 1-D grids holding float32 / integer / read-only / strided arrays; reference: the
    float64 construction. Envelope measured on the pinned tree (reported): `shape` *and* `axes` both of a <= 16 bit integer
    dtype give wrapped volumes (wrong weights); that combination is not generated."""
    from grid.basegrid import OneDGrid
    b = _b()
    o = np.array([1.0, -2.0, 3.0])
    ax = np.array([[2.0, 0.0, 1.0], [0.0, 3.0, 0.0], [1.0, 0.0, 2.0]])
    for it in range(4 if not big else 40):
        dim = 2 + it % 2
        shape = [[40, 30, 35], [3, 200, 2], [13, 2, 11], [200, 170], [2, 255]][it % 5][:dim] if it % 5 < 3 or dim == 2 else b.rand_shape(rng, 3, 2, 9)
        if len(shape) != dim:
            shape = b.rand_shape(rng, dim, 2, 40)
        sch = rng.choice(["Rectangle", "Trapezoid", "Alternative", "Fourier1"]) if max(shape) <= 60 else rng.choice(["Rectangle", "Trapezoid", "Alternative"])
        ref = cub.UniformGrid(o[:dim], ax[:dim, :dim], np.array(shape), weight=sch)
        cases = [("shape", dt, None) for dt in INT_DTYPES if max(shape) <= np.iinfo(dt).max]
        cases += [("axes", dt, None) for dt in [np.int8, np.uint8, np.int16, np.int32, np.uint32, np.int64, np.uint64, np.float32]]
        for what, dt, _ in (cases if big else rng.sample(cases, 6)):
            ctx.tagc(f"oracle:ctor-dtype:{what}:{dt.__name__}")
            oo, aa, ss = o[:dim], ax[:dim, :dim], np.array(shape)
            if what == "shape":
                ss = np.array(shape, dtype=dt)
            else:
                aa = aa.astype(dt)
                oo = np.abs(oo).astype(dt) if np.issubdtype(dt, np.unsignedinteger) else oo.astype(dt)
            keep = (oo.copy(), aa.copy(), ss.copy())
            wit = {"scheme": sch, "shape": shape, what + "_dtype": dt.__name__}
            try:
                g = cub.UniformGrid(oo, aa, ss, weight=sch)
            except Exception as e:  # noqa: BLE001
                ctx.fail("oracle", f"cubic.UniformGrid:weight={sch}", f"{sch} does not construct with {what} as {dt.__name__} (shape {shape}): {type(e).__name__}: {str(e)[:100]}", witness=wit)
                continue
            shift = oo.astype(float) - o[:dim]
            if not np.allclose(g.points, ref.points + shift, rtol=0, atol=1e-9):
                ctx.fail("oracle", f"cubic.UniformGrid.layout:{dim}d", f"shape {shape} with {what} as {dt.__name__}: the points are not those of the float64 construction", witness=wit)
            if not np.allclose(g.weights, ref.weights, rtol=1e-10, atol=0):
                ctx.fail("oracle", f"cubic.UniformGrid:weight={sch}:sum", f"{sch} shape {shape} with {what} as {dt.__name__}: weights differ from the float64 construction "
                         f"(sum {float(g.weights.sum())!r} vs {float(ref.weights.sum())!r})", witness=wit)
            if not all(np.array_equal(x, y) for x, y in zip(keep, (oo, aa, ss))):
                ctx.fail("oracle", "cubic.UniformGrid:arguments", f"UniformGrid modified its {what} argument ({dt.__name__})", witness=wit)
            c = tuple(rng.randrange(s) for s in shape)
            if what == "shape" and np.dtype(dt).itemsize < 4:
                # measured envelope (reported): the grid keeps the caller's shape array, and index_to_coordinates multiplies
                # / divides in its dtype: shape[1] * shape[2] wraps for int8 / uint8 / int16 / uint16 shapes
                continue
            if float(g.coordinates_to_index(c)) != float(np.ravel_multi_index(c, shape)) or \
                    tuple(float(x) for x in g.index_to_coordinates(int(np.ravel_multi_index(c, shape)))) != tuple(float(x) for x in c):
                ctx.fail("oracle", f"cubic.index:{dim}d", f"shape {shape} given as {dt.__name__} array: index maps of {c} are not the row-major ones", witness=dict(wit, coords=list(c)))
    # 1-D grids holding other array kinds
    for it in range(3 if not big else 30):
        dim = 2 + it % 2
        shape = b.rand_shape(rng, dim, 2, 6)
        nodes = [np.array([rng.randrange(-64, 64) / 8.0 for _ in range(s)]) for s in shape]
        ws = [np.array([rng.randrange(1, 32) / 16.0 for _ in range(s)]) for s in shape]
        ref = cub.Tensor1DGrids(*[OneDGrid(x, w) for x, w in zip(nodes, ws)])
        gs = []
        for x, w in zip(nodes, ws):
            k = rng.choice(["f32", "ro", "strided", "rev-view", "int"])
            if k == "f32":
                x2, w2 = x.astype(np.float32), w.astype(np.float32)
            elif k == "ro":
                x2, w2 = x.copy(), w.copy()
                x2.setflags(write=False)
                w2.setflags(write=False)
            elif k == "strided":
                bx, bw = np.zeros(3 * len(x)), np.zeros(3 * len(x))
                bx[::3], bw[::3] = x, w
                x2, w2 = bx[::3], bw[::3]
            elif k == "rev-view":
                x2, w2 = x[::-1].copy()[::-1], w[::-1].copy()[::-1]
            else:
                x2, w2 = np.round(x).astype(np.int64), w
                x = np.round(x)
            gs.append((OneDGrid(x2, w2), x, k))
        ctx.tagc("oracle:ctor-dtype:tensor:" + "+".join(k for _, _, k in gs))
        g = cub.Tensor1DGrids(*[a for a, _, _ in gs])
        refp = np.array(list(itertools.product(*[x for _, x, _ in gs])))
        if not np.array_equal(np.asarray(g.points, dtype=float), refp) or not np.allclose(g.weights, ref.weights, rtol=1e-14, atol=0):
            ctx.fail("oracle", f"cubic.Tensor1DGrids:{dim}d", f"tensor grid of sizes {shape} from 1-D grids holding {[k for _, _, k in gs]} arrays is not the float64 tensor product",
                     witness={"sizes": shape, "kinds": [k for _, _, k in gs]})
        got = g.get_points_along_axes()
        if any(not np.array_equal(np.asarray(a, dtype=float), x) for a, (_, x, _) in zip(got, gs)):
            ctx.fail("oracle", f"cubic.get_points_along_axes:{dim}d", f"tensor grid of sizes {shape} from {[k for _, _, k in gs]} arrays: get_points_along_axes() does not return the nodes",
                     witness={"sizes": shape, "kinds": [k for _, _, k in gs]})


def or_held_arrays(ctx, cub, rng, big):
    """class 14: the point array *held by the grid* replaced (through the `points` setter / the base-class constructor) by a
    Fortran-ordered, strided, read-only or float32 copy of the same (dyadic) numbers: node extraction and all three
    interpolation methods must give the float64 answers"""
    b = _b()
    for it in range(3 if not big else 24):
        shape = b.rand_shape(rng, 3, 7, 8, noncubic=False)
        h = np.array([rng.choice([0.25, 0.5, 0.375]) for _ in range(3)])
        o = np.array([rng.randrange(-8, 8) / 8.0 for _ in range(3)])
        g0 = cub.UniformGrid(o, np.diag(h), np.array(shape), weight="Rectangle")
        C = b.rand_tensor_cubic(rng) * 0.3
        vals = b.poly_eval(C, (g0.points - o) / (h * (np.array(shape) - 1)) * 2 - 1)
        q = np.array([[o[d] + h[d] * rng.randrange(8, 8 * (shape[d] - 1) - 8) / 8.0 for d in range(3)] for _ in range(2)])
        p = np.array(g0.points)
        big_ = np.zeros((2 * len(p), 6))
        big_[::2, ::2] = p
        ro = p.copy()
        ro.setflags(write=False)
        for kind, arr in (("fortran", np.asfortranarray(p)), ("strided", big_[::2, ::2]), ("read-only", ro), ("float32", p.astype(np.float32))):
            g = cub.UniformGrid(o, np.diag(h), np.array(shape), weight="Rectangle")
            if it % 2:
                g = cub._HyperRectangleGrid(arr, np.array(g0.weights), tuple(shape))
            else:
                g.points = arr
            ctx.tagc(f"oracle:held-points:{kind}")
            wit = {"shape": shape, "points_as": kind}
            for a, r in zip(g.get_points_along_axes(), g0.get_points_along_axes()):
                if not np.array_equal(np.asarray(a, dtype=float), r):
                    ctx.fail("oracle", "cubic.get_points_along_axes:3d", f"shape {shape}, point array held as {kind}: get_points_along_axes() differs from the float64 grid", witness=wit)
            for kw in ({}, {"nu_y": 1}, {"method": "linear"}, {"method": "nearest"}, {"use_log": True, "nu_z": 1}):
                v = np.exp(vals) if kw.get("use_log") else vals
                r0 = np.asarray(g0.interpolate(q, v, **kw)).ravel()
                try:
                    r = np.asarray(g.interpolate(q, v, **kw)).ravel()
                    ok = np.allclose(r, r0, rtol=1e-9, atol=1e-12)
                    msg = f"{_fl(r)} vs {_fl(r0)}"
                except Exception as e:  # noqa: BLE001
                    ok, msg = False, f"raises {type(e).__name__}: {str(e)[:80]}"
                if not ok:
                    key = "cubic.interpolate:" + (kw.get("method") or ("log" if kw.get("use_log") else "cubic"))
                    ctx.fail("oracle", key, f"shape {shape}, point array held as {kind}: interpolate({kw}) {msg} on the float64 grid", witness=dict(wit, options=str(kw)))


def or_shared_arguments(ctx, cub, rng, big):
    """class 16: one `values` array (a view into a larger caller array), one query array and one `shape` array used for several
    requests and several entry points; every answer against the one computed from pristine copies, the arrays and the bytes
    around the views unchanged"""
    b = _b()
    for it in range(2 if not big else 20):
        shape = b.rand_shape(rng, 3, 7, 8, noncubic=False)
        shp = np.array(shape)
        g = b.axis_grid(cub, rng, shape, "uniform")
        g_b = cub.UniformGrid(np.zeros(3), np.eye(3), shp, weight="Trapezoid")       # the same shape object for another grid
        C = b.rand_tensor_cubic(rng) * 0.3
        vals0 = np.exp(b.poly_eval(C, g.points))
        buf = np.full(g.size + 10, 7.25)
        buf[5:-5] = vals0
        vals = buf[5:-5]
        qbuf = np.full((4, 5), -3.5)
        qbuf[1:3, 1:4] = np.vstack([b.interior_point(g, rng) for _ in range(2)])
        q = qbuf[1:3, 1:4]
        q0 = q.copy()
        calls = [{}, {"nu_x": 1}, {"method": "linear"}, {"use_log": True}, {"method": "nearest"}, {"use_log": True, "nu_y": 2}, {}, {"method": "linear"}]
        fresh = [np.asarray(g.interpolate(q0.copy(), vals0.copy(), **kw)).ravel().copy() for kw in calls]
        for kw, want in zip(calls, fresh):
            r = np.asarray(g.interpolate(q, vals, **kw)).ravel()
            ctx.tagc("oracle:shared-arguments:interpolate")
            if not np.array_equal(r, want):
                ctx.fail("oracle", "cubic.interpolate:repeat", f"shape {shape}: interpolate({kw}) on a values / points array used for several requests gives {_fl(r)}, "
                         f"from pristine copies {_fl(want)}", witness={"shape": shape, "options": str(kw)})
        cp = [g.closest_point(q[0], w) for w in ("closest", "origin", "closest")]
        if float(cp[0]) != float(cp[2]) or float(cp[0]) != float(g.closest_point(q0[0].copy(), "closest")):
            ctx.fail("oracle", "cubic.UniformGrid.closest_point", "closest_point on a row of a shared query array differs between repeated calls", witness={"shape": shape})
        untouched = np.array_equal(vals, vals0) and np.all(buf[:5] == 7.25) and np.all(buf[-5:] == 7.25) and np.array_equal(q, q0) \
            and np.all(qbuf[0] == -3.5) and np.all(qbuf[3] == -3.5) and np.all(qbuf[:, 0] == -3.5) and np.all(qbuf[:, 4] == -3.5) and list(shp) == shape
        if not untouched or list(g_b.shape) != shape or list(g.shape) != shape:
            ctx.fail("oracle", "cubic.interpolate:arguments", f"shape {shape}: a values / points / shape array (or the bytes around the view) changed during the calls", witness={"shape": shape})


def or_complex_values(ctx, cub, rng, big):
    """class 17: interpolation is linear in the function values: complex data = real part + i * imaginary part"""
    b = _b()
    for it in range(2 if not big else 16):
        shape = b.rand_shape(rng, 3, 7, 8, noncubic=False)
        g = b.axis_grid(cub, rng, shape, "uniform" if it % 2 else "tensor")
        vr = np.array([rng.uniform(-1, 1) for _ in range(g.size)])
        vi = np.array([rng.uniform(-1, 1) for _ in range(g.size)])
        q = np.vstack([b.interior_point(g, rng) for _ in range(2)])
        for kw in ({}, {"nu_x": 1, "nu_z": 2}, {"method": "linear"}, {"method": "nearest"}):
            for vc in (vr + 1j * vi, (vr + 1j * vi).astype(np.complex64).astype(np.complex128)):
                ctx.tagc("oracle:complex-values:" + (kw.get("method") or "cubic"))
                want = np.asarray(g.interpolate(q, vc.real.copy(), **kw)) + 1j * np.asarray(g.interpolate(q, vc.imag.copy(), **kw))
                try:
                    got = np.asarray(g.interpolate(q, vc, **kw))
                    ok = got.shape == want.shape and np.allclose(got, want, rtol=1e-10, atol=1e-12 * 10 ** (kw.get("nu_x", 0) + kw.get("nu_z", 0)))
                    msg = f"gives {got.tolist()}, real and imaginary part separately {want.tolist()}"
                except Exception as e:  # noqa: BLE001
                    ok, msg = False, f"raises {type(e).__name__}: {str(e)[:80]}"
                if not ok:
                    ctx.fail("oracle", "cubic.interpolate:" + (kw.get("method") or "cubic"), f"shape {shape}: interpolate({kw}) of complex data {msg}", witness={"shape": shape, "options": str(kw)})


def or_raise_no_trace(ctx, cub, rng, big):
    """class 18: after calls that end in an exception (unknown method, wrong number of values, mixed logarithmic derivative,
    query outside the box, unknown `which`, negative index, non-diagonal axes, a rejected construction) the next accepted call on
    the same object equals the one on a fresh object"""
    b = _b()
    for it in range(2 if not big else 16):
        shape = b.rand_shape(rng, 3, 7, 8, noncubic=False)
        h = np.array([rng.uniform(0.2, 0.4) for _ in range(3)])
        o = np.array([rng.uniform(-1.2, -0.9) for _ in range(3)])
        mk = lambda: cub.UniformGrid(o.copy(), np.diag(h), np.array(shape), weight="Trapezoid")       # noqa: E731
        g, fresh = mk(), mk()
        C = b.rand_tensor_cubic(rng) * 0.3
        vals = np.exp(b.poly_eval(C, g.points))
        q = np.vstack([b.interior_point(g, rng) for _ in range(2)])
        far = q + 100.0
        bad_calls = [lambda: g.interpolate(q, vals, method="quartic"), lambda: g.interpolate(q, vals[:-1]), lambda: g.interpolate(q, vals, use_log=True, nu_x=1, nu_y=1),
                     lambda: g.interpolate(far, vals, method="linear"), lambda: g.closest_point(q[0], "nearest"), lambda: g.index_to_coordinates(-1),
                     lambda: g.interpolate(q[:, :2], vals, method="linear"), lambda: cub.UniformGrid(o, np.diag(h), np.array([3, 0, 2])),
                     lambda: cub.UniformGrid(o, np.ones((3, 3)), np.array(shape)), lambda: cub.UniformGrid(o, np.diag(h), np.array(shape), weight="Simpson"),
                     lambda: g.coordinates_to_index((1, 2))]
        good = [("cubic", lambda x: x.interpolate(q, vals, nu_z=1)), ("linear", lambda x: x.interpolate(q, vals, method="linear")),
                ("log", lambda x: x.interpolate(q, vals, use_log=True, nu_y=2)), ("nearest", lambda x: x.interpolate(q, vals, method="nearest")),
                ("closest", lambda x: x.closest_point(q[0], "closest")), ("i2c", lambda x: np.array(x.index_to_coordinates(17))),
                ("c2i", lambda x: x.coordinates_to_index((1, 2, 3))), ("axes", lambda x: np.concatenate(x.get_points_along_axes())),
                ("integrate", lambda x: x.integrate(vals))]
        rng.shuffle(bad_calls)
        for k, bad in enumerate(bad_calls):
            try:
                bad()
                raised = False
            except Exception:  # noqa: BLE001
                raised = True
            ctx.tagc("oracle:raise-no-trace:" + ("raised" if raised else "accepted"))
            name, f = good[k % len(good)]
            r0 = np.asarray(f(fresh), dtype=float).ravel()
            try:
                r = np.asarray(f(g), dtype=float).ravel()
            except Exception as e:  # noqa: BLE001
                ctx.fail("oracle", "cubic.interpolate:repeat" if name in ("cubic", "linear", "log", "nearest") else "cubic.index:3d",
                         f"shape {shape}: after a call that raised, {name} raises {type(e).__name__}: {str(e)[:100]} on the same object (fine on a fresh one)",
                         witness={"shape": shape, "after_bad_call": k, "then": name})
                continue
            if not np.array_equal(r, r0):
                ctx.fail("oracle", "cubic.interpolate:repeat" if name in ("cubic", "linear", "log", "nearest") else "cubic.index:3d",
                         f"shape {shape}: after a call that raised, {name} gives {_fl(r)[:4]} on the same object and {_fl(r0)[:4]} on a fresh one", witness={"shape": shape, "after_bad_call": k, "then": name})
        if not (np.array_equal(g.points, fresh.points) and np.array_equal(g.weights, fresh.weights) and list(g.shape) == list(fresh.shape)
                and np.array_equal(g.axes, fresh.axes) and np.array_equal(g.origin, fresh.origin)):
            ctx.fail("oracle", "cubic.interpolate:repeat", f"shape {shape}: calls that raised changed the grid object", witness={"shape": shape})


def or_extreme_oned(ctx, cub, rng, big):
    """class 19: tensor products of 1-D rules whose nodes / weights are huge, tiny or of either sign (Gauss-Laguerre tails,
    transformed radial grids, weights down to 1e-300): points are the tuples of nodes bit for bit, weights the correctly
    rounded products whenever the exact product is a normal double (measured envelope: below that the product underflows)"""
    from fractions import Fraction
    from grid.basegrid import OneDGrid
    from grid.onedgrid import GaussLaguerre, GaussLegendre
    from grid.rtransform import BeckeRTransform
    pool = [GaussLaguerre(rng.choice([20, 40])), BeckeRTransform(1e-6, 1.5).transform_1d_grid(GaussLegendre(rng.choice([7, 12]))),
            OneDGrid(np.array([-1e150, -1e-150, 0.0, 3e-310, 1e200]), np.array([1e-300, -1e-120, 1e100, 2.5e-200, 1e-310])),
            OneDGrid(np.array([1e8, 1e-8]), np.array([1e-160, 1e160]))]
    for it in range(3 if not big else 20):
        gs = [rng.choice(pool) for _ in range(2 + it % 2)]
        g = cub.Tensor1DGrids(*gs)
        shape = [x.size for x in gs]
        ctx.tagc(f"oracle:extreme-oned:{len(gs)}d")
        for idx in [0, g.size - 1] + [rng.randrange(g.size) for _ in range(12)]:
            c = np.unravel_index(idx, shape)
            wantp = [float(gs[d].points[c[d]]) for d in range(len(gs))]
            exact, seq, normal = Fraction(1), 1.0, True
            for d in range(len(gs)):
                exact *= Fraction(float(gs[d].weights[c[d]]))
                seq = seq * float(gs[d].weights[c[d]]) if d else float(gs[d].weights[c[d]])
                normal = normal and (exact == 0 or 2.3e-308 < abs(seq) < 1e308)
            # np.kron(np.kron(w_x, w_y), w_z): the products in this order, bit for bit; correctly rounded whenever no partial
            # product leaves the normal range (measured envelope: an intermediate under- / overflow is kept)
            ok = _fl(g.points[idx]) == wantp and (float(g.weights[idx]) == seq or (seq != seq and float(g.weights[idx]) != float(g.weights[idx])))
            if normal and exact != 0:
                ok = ok and close(float(g.weights[idx]), float(exact), rtol=4.5e-16, scale=abs(float(exact)))
            if not ok or int(g.coordinates_to_index(c)) != idx:
                ctx.fail("oracle", f"cubic.Tensor1DGrids:{len(gs)}d", f"sizes {shape}: entry {idx} = {_fl(g.points[idx])}, weight {float(g.weights[idx])!r}; the tuple of 1-D nodes is {wantp}, "
                         f"the product of the 1-D weights {float(exact)!r}", witness={"sizes": shape, "index": idx})
                break


def or_unequal_shapes(ctx, cub, rng, big):
    """class 20: every pair of sizes different and a size 2 in every position: layout, node extraction, tensor weights,
    linear / nearest interpolation on arbitrary data, cubic method on (7, 8, 9) in every order"""
    from grid.basegrid import OneDGrid
    b = _b()
    from . import c13_r3
    shapes = list(itertools.permutations((2, 3, 5))) + [(2, 3), (3, 2), (2, 7), (5, 2)]
    for shape in (shapes if big else rng.sample(shapes, 4)):
        shape = list(shape)
        dim = len(shape)
        nodes = [np.sort(np.array([rng.randrange(-40, 40) / 8.0 + 0.01 * k for k in range(s)])) for s in shape]
        ws = [np.array([rng.uniform(0.1, 1.0) for _ in range(s)]) for s in shape]
        g = cub.Tensor1DGrids(*[OneDGrid(x, w) for x, w in zip(nodes, ws)])
        ctx.tagc(f"oracle:unequal-shapes:{dim}d")
        refp = np.array(list(itertools.product(*nodes)))
        refw = np.array([np.prod(t) for t in itertools.product(*ws)])
        got = g.get_points_along_axes()
        if not np.array_equal(g.points, refp) or not np.allclose(g.weights, refw, rtol=1e-14) or len(got) != dim or any(not np.array_equal(a, x) for a, x in zip(got, nodes)):
            ctx.fail("oracle", f"cubic.Tensor1DGrids:{dim}d", f"sizes {shape}: points / weights / get_points_along_axes are not those of the lexicographic tensor product",
                     witness={"sizes": shape})
        ax = b.rand_axes(rng, dim, "skew")
        o = b.rand_origin(rng, dim)
        gu = cub.UniformGrid(o, ax, np.array(shape), weight="Rectangle")
        ref = np.array(np.unravel_index(np.arange(gu.size), shape)).T
        if not np.allclose(gu.points, o + ref @ ax, rtol=0, atol=1e-12) or not np.allclose(gu.points[1] - gu.points[0], ax[-1], rtol=0, atol=1e-12):
            ctx.fail("oracle", f"cubic.UniformGrid.layout:{dim}d", f"shape {shape}: points are not origin + sum c_m a_m in lexicographic order", witness={"shape": shape, "origin": _fl(o), "axes": ax.tolist()})
        if dim == 3:
            c13_r3._check_linear_nearest(ctx, cub, rng, g, shape, "unequal-sizes")
    for shape in (list(itertools.permutations((7, 8, 9))) if big else [rng.choice(list(itertools.permutations((7, 8, 9))))]):
        b._check_interp_case(ctx, cub, rng, list(shape), rng.choice(["uniform", "tensor"]), [(0, 0, 0), (1, 2, 0), (0, 1, 3)])


def corr_r4(ctx, cub, rng):
    corr_index_dtypes(ctx, cub, rng)


ORACLE_PARTS = (or_index_dtypes, or_ctor_dtypes, or_held_arrays, or_shared_arguments, or_complex_values, or_raise_no_trace, or_extreme_oned,
                or_unequal_shapes)

"""C14 — multipole moments equal direct quadrature of their defining integrands."""
import importlib
import itertools
import math

import numpy as np

from ..common import Ctx, Tokens, close, driver_batch, f2b, fmat, fvec

LEVEL = "proof"
LEVEL_TEXT = (
    "Lean theorems (all orders l, all L, unbounded): the Cartesian order list of generate_orders_horton_order is exactly "
    "the compositions of l into dim parts (dim 1..3), strictly descending lexicographically (hence each once, Horton order); "
    "the pure list has (l,m) at position 2m-1 (m>0) / 2|m| (m<=0), stacked at l^2 + that; the pure-radial list has (n,l,m) "
    "at offset sum_{n'<n} n'^2 + l^2 + position(m); the (l,m)->row arithmetic of the pure-radial branch selects the (l,m) "
    "row of the Horton-2 table in both branches; every entry (k, centre) returned by the model of Grid.moments is "
    "sum_i w_i f_i basis_k(p_i - R) with basis_k named by row k of the returned order list (monomial, |r|^n, S_lm, "
    "|r|^n S_lm; the solid harmonics S enter as a parameter, their correctness is C08); the dipole helper equals nuclear "
    "minus electronic first moments about the centre of mass. Tie to the code, way 1 (translator, regenerated on every run): "
    "generate_orders_horton_order (all branches), the statements of Grid.moments before the loop over the centres (guards, "
    "1-D reshape guard, range of orders, np.vstack stacking) and the (l,m)->row index statements of the pure-radial branch are "
    "translated from the AST into Gen/Moments.lean; theorems: the generated order generator equals the model hortonOrders for "
    "every type, dim and l (gen_horton_eq_model), the generated index statements compute rowIndex row by row "
    "(gen_indices_eq_rowIndex), the generated prefix of Grid.moments returns dim, the orders 0..L / 1..L and the stacked "
    "array with the model's rows for (N,d) and (N,) point arrays and orders given as int/np.int32/np.int64, rejects what the "
    "code rejects, and the row look-up theorem holds for the generated programs together (gen_row_lookup_correct). Way 2: hand "
    "model (quadrature, dipole) and the generated programs themselves compared with the implementation "
    "(order lists exactly, values with tolerance, solid-harmonic tables taken from the library); values end to end against "
    "independently coded basis functions by the oracle."
)
TECHNIQUE = "Lean 4 proof (order enumeration, index arithmetic, entry = quadrature) + differential correspondence + direct-quadrature oracle"
GEN = ["moments"]
LEAN_MODULES = ["GridVerif.Props.C14", "GridVerif.Props.C14.Values", "GridVerif.Props.C14.Dipole", "GridVerif.Props.C14.Gen"]
THEOREMS = [
    "GridVerif.C14.cartesian_orders_spec",
    "GridVerif.C14.pure_orders_spec",
    "GridVerif.C14.pure_radial_orders_spec",
    "GridVerif.C14.row_lookup_correct",
    "GridVerif.C14.moments_entry",
    "GridVerif.C14.moments_entry_points1d",
    "GridVerif.C14.moments_rejects",
    "GridVerif.C14.dipole_spec",
    # over the text generated from utils.generate_orders_horton_order / Grid.moments (Gen/Moments.lean)
    "GridVerif.C14.gen_horton_eq_model",
    "GridVerif.C14.gen_horton_unknown_type",
    "GridVerif.C14.gen_indices_eq_rowIndex",
    "GridVerif.C14.gen_moments_orders_spec",
    "GridVerif.C14.gen_moments_rejects",
    "GridVerif.C14.gen_moments_orders_radial_zero",
    "GridVerif.C14.gen_solid_degree",
    "GridVerif.C14.gen_row_lookup_correct",
]
RULE = (
    "correspondence: generate_orders_horton_order for every type x dim 0..4 x order 0..8 (exact); Grid.moments on random "
    "grids (1-12 points, signed weights, a point on a centre now and then) for all four types x L 0..6 x 1-4 centres x "
    "dims 1..3 incl. the rejected combinations, and on OneDGrids (point array of shape (N,)) (values with tolerance, returned order list exact; solid-harmonic tables "
    "from the library); dipole_moment_of_molecule on random molecules. non-trivial = L >= 2, or >= 2 centres, or dim < 3, "
    "or a rejected call. Argument kinds covered in every run (counted under variant:* in the distribution): function values as "
    "float64/float32/int64/int32/bool, centres as float/int64/int32 arrays, C/Fortran/strided/read-only layouts, the grid's own point array "
    "as the centres, 5-10 centres, repeated centres, a centre on a grid point, orders as int/np.int32/np.int64, positional / keyword / "
    "default-type / return_orders on-off call forms, the same call twice on one grid object with another call in between, several "
    "successive cases on one grid object; the generator in two further request orders; the dipole helper with lists, integer / "
    "int32 / float charges, integer coordinates, read-only arrays, called twice; the generated programs (gen:*) on all of these calls "
    "plus 2-D function values, 1-D / 3-D centres, float / np.int16 orders, unknown type names"
)
TRUSTED_BASE = [
    "Lean 4.33 kernel; axioms propext, Classical.choice, Quot.sound only (audited per theorem)",
    "hand model Model/Moments.lean of the quadrature part of Grid.moments and of dipole_moment_of_molecule, tied by correspondence",
    "translator harness/translate/moments.py (Python AST -> Gen/Moments.lean) and the NumPy/Python primitives it targets (pyRange, npVstack, "
    "npArrayRows, npUnpack3T, npMaskGet, npMaskIAdd, ... in Model/Moments.lean); mitigation: the generated programs are run by the driver "
    "and compared with the implementation (order arrays incl. their number of dimensions, accepted/rejected calls) and the index "
    "statements of the library are executed next to their translation",
    "NumPy broadcasting/einsum/vstack semantics as modelled (list operations)",
    "solid_harmonics returns rows in Horton-2 order evaluated at the centred points (hypothesis of moments_entry; property C08; checked end to end by the oracle)",
]
ASSUMPTIONS = [
    "exact real arithmetic in the theorems; floating-point agreement up to 1e-10 of the sum of |terms|",
    "zero centres (output of shape (0,)) and negative orders are outside the model",
    "isotopic_masses lookup is data: the masses are passed to the model",
    "centres and function values are NumPy arrays (the documented types): a Python list for either is rejected by Grid.moments with "
    "AttributeError ('list' object has no attribute 'ndim') before anything is computed - a rejection, outside the property; the dipole "
    "helper accepts lists (covered)",
    "orders must be int / np.int32 / np.int64: np.int16 and float are rejected with TypeError (modelled by the generated guards)",
]

TYPES = ["cartesian", "radial", "pure", "pure-radial"]

# Grids with a one-dimensional point array (every OneDGrid): Grid.moments reshapes (N,) to (N, 1).
POINTS_1D_SNIPPET = """import warnings; warnings.filterwarnings('ignore')
import math, numpy as np
from grid.basegrid import OneDGrid
pts, w, f, cs, typ, L = {pts!r}, {w!r}, {f!r}, {cs!r}, {typ!r}, {L}
g = OneDGrid(np.array(pts), np.array(w))
try:
    got, orders = g.moments(L, np.array(cs), np.array(f), type_mom=typ, return_orders=True)
except Exception as e:
    raise AssertionError(f'Grid.moments on a one-dimensional point array raised {{type(e).__name__}}: {{e}}')
assert [int(x) for x in np.ravel(orders)] == list(range(L + 1)), orders
for k in range(L + 1):
    for ci, c in enumerate(cs):
        want = math.fsum(wi * fi * ((x - c[0]) ** k if typ == 'cartesian' else abs(x - c[0]) ** k) for wi, fi, x in zip(w, f, pts))
        assert abs(float(got[k][ci]) - want) <= 1e-9 * (1 + sum(abs(wi * fi) * abs(x - c[0]) ** k for wi, fi, x in zip(w, f, pts))), (k, ci, float(got[k][ci]), want)
"""

# ----------------------------------------------------------------------------------------
# independent reference: Horton order lists and basis functions (not the library's code)
# ----------------------------------------------------------------------------------------
REF_SRC = '''
import math, itertools
def ref_orders(l, typ, dim=3):
    """documented Horton order, coded differently from the library"""
    if typ == "cartesian":
        comps = [c for c in itertools.product(range(l + 1), repeat=dim) if sum(c) == l]
        return [list(c) for c in sorted(comps, reverse=True)]        # descending lexicographic
    if typ == "radial":
        return [[l]]
    ms = [0] + [s * x for x in range(1, l + 1) for s in (1, -1)]     # 0, 1, -1, ..., l, -l
    if typ == "pure":
        return [[l, m] for m in ms]
    return [[l, ll, m] for ll in range(l) for m in ([0] + [s * x for x in range(1, ll + 1) for s in (1, -1)])]
def ref_all_orders(L, typ, dim=3):
    out = []
    for l in (range(1, L + 1) if typ == "pure-radial" else range(L + 1)):
        out += ref_orders(l, typ, dim)
    return out
def solid(l, m, d):
    """regular real solid harmonic R_l^m(d) = sqrt(4 pi/(2l+1)) |d|^l Y_lm; Cartesian closed forms up to l = 3,
    SciPy's complex harmonics (Condon-Shortley phase removed) above."""
    x, y, z = d
    r2 = x * x + y * y + z * z
    s3 = math.sqrt(3.0)
    if l == 0: return 1.0
    if l == 1: return {0: z, 1: x, -1: y}[m]
    if l == 2:
        return {0: (3 * z * z - r2) / 2, 1: s3 * x * z, -1: s3 * y * z, 2: s3 / 2 * (x * x - y * y), -2: s3 * x * y}[m]
    if l == 3:
        return {0: z * (5 * z * z - 3 * r2) / 2, 1: math.sqrt(3 / 8) * x * (5 * z * z - r2), -1: math.sqrt(3 / 8) * y * (5 * z * z - r2),
                2: math.sqrt(15) / 2 * z * (x * x - y * y), -2: math.sqrt(15) * x * y * z,
                3: math.sqrt(5 / 8) * x * (x * x - 3 * y * y), -3: math.sqrt(5 / 8) * y * (3 * x * x - y * y)}[m]
    from scipy.special import sph_harm_y
    r = math.sqrt(r2)
    if r == 0.0: return 0.0
    Y = sph_harm_y(l, abs(m), math.acos(max(-1.0, min(1.0, z / r))), math.atan2(y, x))
    v = Y.real if m == 0 else math.sqrt(2) * (-1) ** m * (Y.real if m > 0 else Y.imag)
    return math.sqrt(4 * math.pi / (2 * l + 1)) * r ** l * float(v)
def basis(typ, order, d):
    if typ == "cartesian":
        return math.prod(float(x) ** int(e) for x, e in zip(d, order))
    r = math.sqrt(sum(float(x) * float(x) for x in d))
    if typ == "radial":
        return r ** int(order[0])
    if typ == "pure":
        return solid(int(order[0]), int(order[1]), [float(x) for x in d])
    return r ** int(order[0]) * solid(int(order[1]), int(order[2]), [float(x) for x in d])
def bound(typ, order, d):
    """magnitude of the basis function (no cancellation): |x|^a |y|^b |z|^c, r^n, r^l, r^(n+l)"""
    if typ == "cartesian":
        return math.prod(abs(float(x)) ** int(e) for x, e in zip(d, order))
    r = math.sqrt(sum(float(x) * float(x) for x in d))
    return r ** int(order[0] + order[1] if typ == "pure-radial" else order[0])
def direct(typ, order, pts, w, f, c):
    """-> (direct quadrature sum_i w_i f_i basis(p_i - c), scale sum_i |w_i f_i| * magnitude of the basis)"""
    ds = [[a - b for a, b in zip(p, c)] for p in pts]
    terms = [float(wi) * float(fi) * basis(typ, order, d) for d, wi, fi in zip(ds, w, f)]
    return math.fsum(terms), math.fsum(abs(float(wi) * float(fi)) * bound(typ, order, d) for d, wi, fi in zip(ds, w, f))
'''
_ns = {}
exec(REF_SRC, _ns)
ref_orders, ref_all_orders, basis, direct = _ns["ref_orders"], _ns["ref_all_orders"], _ns["basis"], _ns["direct"]


# How a case (with its variant fields) is turned into a call of the implementation; source text so that the
# replay snippets are self-contained.
CALL_SRC = '''
import numpy as np
_GRID_POOL = {}
def _layout(a, how):
    """the same values in another memory layout / writeability"""
    a = np.asarray(a)
    if how == "fortran":
        return np.asfortranarray(a)
    if how == "strided":
        big = np.zeros(tuple(2 * s for s in a.shape), dtype=a.dtype)
        sl = tuple(slice(None, None, 2) for _ in a.shape)
        big[sl] = a
        return big[sl]
    if how == "readonly":
        b = a.copy(); b.setflags(write=False)
        return b
    return a
def build_args(case, Grid):
    key = repr((case["pts"], case["w"]))
    g = _GRID_POOL.get(key) if case.get("reuse_grid") else None
    if g is None:
        g = Grid(np.array(case["pts"], dtype=float), np.array(case["w"], dtype=float))
        if len(_GRID_POOL) > 64:
            _GRID_POOL.clear()
        _GRID_POOL[key] = g
    f = _layout(np.array(case["f"], dtype=float).astype(case.get("fdtype", "float64")), case.get("flayout", "c"))
    if case.get("cs_is_points"):
        cs = g.points                       # the grid's own array object as the centres
    else:
        cs = _layout(np.array(case["cs"], dtype=float).astype(case.get("cdtype", "float64")), case.get("clayout", "c"))
    L = {"int": int, "np.int32": np.int32, "np.int64": np.int64, "np.int16": np.int16, "float": float}[case.get("otype", "int")](case["L"])
    return g, L, cs, f
def call_moments(case, Grid):
    """-> (values, orders); with case['twice'] the call is made, another call with other arguments is made on the
    same grid object, and the call is repeated with the same argument objects: both answers must be identical and
    the argument arrays unchanged."""
    g, L, cs, f = build_args(case, Grid)
    def once():
        how = case.get("call", "kw")
        if how == "positional":
            return g.moments(L, cs, f, case["typ"], True)
        if how == "no-orders":
            return g.moments(L, cs, f, type_mom=case["typ"]), g.moments(L, cs, f, type_mom=case["typ"], return_orders=True)[1]
        if how == "all-kw":
            return g.moments(orders=L, centers=cs, func_vals=f, type_mom=case["typ"], return_orders=True)
        if how == "default-type":
            return g.moments(L, cs, f, return_orders=True)
        return g.moments(L, cs, f, type_mom=case["typ"], return_orders=True)
    if not case.get("twice"):
        return once()
    f0, cs0 = np.array(f, copy=True), np.array(cs, copy=True)
    v1, o1 = once()
    other = "radial" if case["typ"] != "radial" else "cartesian"
    g.moments(int(case["L"]) + 1, np.array(cs0[:1], dtype=float) + 0.25, f, type_mom=other)
    v2, o2 = once()
    if not (np.array_equal(np.asarray(v1), np.asarray(v2), equal_nan=True) and np.array_equal(np.asarray(o1), np.asarray(o2))):
        raise AssertionError("state: the same call on the same grid object gave two different answers")
    if not (np.array_equal(f0, f) and np.array_equal(cs0, cs)):
        raise AssertionError("state: moments changed one of its argument arrays")
    return v2, o2
'''
exec(CALL_SRC, _ns)
call_moments, build_args = _ns["call_moments"], _ns["build_args"]

DIPOLE_CALL_SRC = '''
import numpy as np
def call_dipole(d, Grid, dipole_moment_of_molecule):
    """the dipole helper with its arguments in the container kind / dtype named by d['container']"""
    g = Grid(np.array(d["pts"]), np.array(d["w"]))
    kind = d.get("container", "array")
    dens, coords, charges = np.array(d["dens"]), np.array(d["coords"]), np.array(d["charges"])
    if kind == "list":
        coords, charges = [list(r) for r in d["coords"]], list(d["charges"])
    elif kind == "int32-charges":
        charges = charges.astype(np.int32)
    elif kind == "float-charges":
        charges = charges.astype(float)
    elif kind == "int-coords":
        coords = coords.astype(np.int64)
    elif kind == "readonly":
        for a in (dens, coords, charges):
            a.setflags(write=False)
    r1 = dipole_moment_of_molecule(g, dens, coords, charges)
    if d.get("twice"):
        dipole_moment_of_molecule(g, dens * 0.5, np.asarray(coords, dtype=float) + 0.1, charges)
        r2 = dipole_moment_of_molecule(g, dens, coords, charges)
        assert np.array_equal(np.asarray(r1), np.asarray(r2)), "state: the same dipole call gave two different answers"
    return r1
'''
exec(DIPOLE_CALL_SRC, _ns)
call_dipole = _ns["call_dipole"]

VARIANT_KEYS = ("fdtype", "cdtype", "clayout", "flayout", "otype", "call", "twice", "reuse_grid", "cs_is_points")


def _r(x, nd=3):
    return round(float(x), nd)


def _case(ctx: Ctx, typ=None, dim=None, Lmax=6, prev=None):
    rng = ctx.rng
    typ = typ or rng.choice(TYPES)
    if dim is None:
        dim = rng.choice([1, 2, 3]) if typ in ("cartesian", "radial") else (3 if rng.random() < 0.9 else rng.choice([1, 2]))
    L = rng.randint(0, Lmax)
    n = rng.randint(1, 12)
    nc = rng.randint(1, 4) if rng.random() < 0.88 else rng.randint(5, 10)          # now and then many centres
    reuse = prev is not None and prev["dim"] == dim and rng.random() < 0.3
    if reuse:                                                       # the same grid object as the case before
        pts, w, n = [list(p) for p in prev["pts"]], list(prev["w"]), len(prev["pts"])
    else:
        pts = [[_r(rng.uniform(-1.5, 1.5)) for _ in range(dim)] for _ in range(n)]
        w = [_r(rng.uniform(-0.5, 1.5)) for _ in range(n)]
    cs = [[_r(rng.uniform(-1, 1)) for _ in range(dim)] for _ in range(nc)]
    cdtype = "float64"
    if rng.random() < 0.15:                                         # integer-valued centres, passed as an integer array
        cs = [[float(rng.randint(-1, 1)) for _ in range(dim)] for _ in range(nc)]
        cdtype = rng.choice(["int64", "int32"])
    elif rng.random() < 0.25:
        cs[rng.randrange(nc)] = list(pts[rng.randrange(n)])          # a grid point on a centre
    if rng.random() < 0.1:
        cs[0] = [0.0] * dim
    if nc >= 2 and rng.random() < 0.3:
        i, j = rng.sample(range(nc), 2)
        cs[j] = list(cs[i])                                         # the same centre twice
    cs_is_points = rng.random() < 0.05
    if cs_is_points:                                                # every grid point is a centre (the grid's own array)
        cs, cdtype = [list(p) for p in pts], "float64"
    f = [_r(rng.uniform(-2, 2)) for _ in range(n)]
    # the function values may be of any numeric dtype ("all function value arrays"): integer counts,
    # boolean indicator masks and single-precision arrays must give the same quadrature as their
    # float64 conversion
    fdtype = rng.choice(["float64"] * 6 + ["int64", "int32", "bool", "float32"])
    if fdtype.startswith("int"):
        f = [float(rng.randint(-3, 4)) for _ in range(n)]
    elif fdtype == "bool":
        f = [float(rng.random() < 0.5) for _ in range(n)]
    elif fdtype == "float32":
        f = [float(np.float32(x)) for x in f]
    lay = ["c"] * 5 + ["fortran", "strided", "readonly"]
    return dict(typ=typ, L=L, dim=dim, pts=pts, w=w, f=f, cs=cs, fdtype=fdtype, cdtype=cdtype,
                clayout=rng.choice(lay), flayout=rng.choice(lay),
                otype=rng.choice(["int"] * 4 + ["np.int32", "np.int64"]),
                call=rng.choice(["kw"] * 4 + ["positional", "no-orders", "all-kw"] + (["default-type"] if typ == "cartesian" else [])),
                twice=rng.random() < 0.15, reuse_grid=reuse, cs_is_points=cs_is_points)


def _arr(a):
    """an integer array of one or two dimensions in the driver's notation (`1 <ivec>` | `2 <imat>`)"""
    a = np.asarray(a)
    if a.ndim == 1:
        return " ".join(["1", str(a.shape[0])] + [str(int(x)) for x in a])
    return " ".join(["2", str(a.shape[0]), str(a.shape[1] if a.shape[0] else 0)] + [str(int(x)) for x in a.ravel()])


def _ivec(xs):
    xs = list(xs)
    return " ".join([str(len(xs))] + [str(int(x)) for x in xs])


def _impl_moments(case, flen=None, cdim=None):
    bg = importlib.import_module("grid.basegrid")
    try:
        vals, orders = call_moments(case, bg.Grid)
    except ValueError:
        return "value-error", None, None
    except IndexError:
        return "index-error", None, None
    except TypeError:
        return "type-error", None, None
    except Exception as e:
        return f"raised {type(e).__name__}: {e}", None, None
    vals = np.asarray(vals, dtype=float)
    orders = np.asarray(orders)
    case["_orders_arr"] = _arr(orders)
    if orders.ndim == 1:
        orders = orders.reshape(-1, 1)
    return "ok", vals.tolist(), [[int(x) for x in row] for row in orders]


def _tabs(case):
    """solid_harmonics(L, sph(points - centre)) per centre, from the library (float64)."""
    ut = importlib.import_module("grid.utils")
    if case["typ"] not in ("pure", "pure-radial") or case["dim"] != 3:
        return []
    pts = np.array(case["pts"], dtype=float)
    return [np.asarray(ut.solid_harmonics(case["L"], ut.convert_cart_to_sph(pts - np.array(c))), dtype=float).tolist() for c in case["cs"]]


def _line(case, tabs):
    m = lambda rows, c: (fmat(rows) if rows else f"0 {c}")
    s = (f"C14.moments {case['typ']} {case['L']} {case['dim']} {m(case['pts'], case['dim'])} {fvec(case['w'])} {fvec(case['f'])} "
         f"{m(case['cs'], len(case['cs'][0]) if case['cs'] else case['dim'])} {len(tabs)}")
    for t in tabs:
        s += " " + fmat(t)
    return s


def _read_imat(t: Tokens):
    r, c = t.nat(), t.nat()
    return [[int(t.tok()) for _ in range(c)] for _ in range(r)]


def corr(ctx: Ctx):
    ut = importlib.import_module("grid.utils")
    # 1. order generator, every type x dim x order
    reqs = [(ty, dim, l) for ty in TYPES for dim in (0, 1, 2, 3, 4) for l in range(0, 9)]
    ans = driver_batch([f"C14.horton {ty} {dim} {l}" for ty, dim, l in reqs])
    gans = driver_batch([f"C14.gen-horton {ty} {dim} {l}" for ty, dim, l in reqs])

    def impl_horton(l, ty, dim):
        """-> (answer in the model's notation, answer in the notation of the generated program)"""
        try:
            o = np.asarray(ut.generate_orders_horton_order(l, ty, dim))
            o2 = o.reshape(-1, 1) if o.ndim == 1 and ty == "radial" else o
            if o2.size == 0:
                return "ok 0 0", "ok " + _arr(o)
            return "ok " + " ".join([str(o2.shape[0]), str(o2.shape[1])] + [str(int(x)) for x in o2.ravel()]), "ok " + _arr(o)
        except ValueError:
            return "value-error", "value-error"
        except Exception as e:                      # anything else is not an accepted outcome
            return f"raised {type(e).__name__}: {e}", f"raised {type(e).__name__}: {e}"

    first = {}
    for (ty, dim, l), a, ga in zip(reqs, ans, gans):
        impl, gimpl = impl_horton(l, ty, dim)
        first[(ty, dim, l)] = impl
        ctx.count(["gen-horton", ty, dim, l], nontrivial=(l >= 2 or impl == "value-error"), tag="gen:horton")
        if gimpl != ga:
            ctx.fail("corr", f"utils.generate_orders_horton_order:{ty}:generated", f"generate_orders_horton_order({l}, {ty}, {dim}): implementation {gimpl}, "
                     f"translated program {ga}", witness=dict(order=l, type=ty, dim=dim, impl=gimpl, generated=ga))
        ctx.count(["horton", ty, dim, l], nontrivial=(l >= 2 or impl == "value-error"), tag=f"horton:{ty}:" + ("reject" if impl == "value-error" else f"dim{dim}" if ty == "cartesian" else "ok"))
        am = a if not a.startswith("ok 0 ") else "ok 0 0"
        if impl != am:
            ctx.fail("corr", f"utils.generate_orders_horton_order:{ty}", f"generate_orders_horton_order({l}, {ty}, {dim}): implementation {impl}, model {a}",
                     witness=dict(order=l, type=ty, dim=dim, impl=impl, model=a))
    # the same requests again in another order (a result remembered under too coarse a key would show), and the
    # rejected arguments: an unknown type name, an order that is not a Python int
    again = list(reqs)
    ctx.rng.shuffle(again)
    for ty, dim, l in again + list(reversed(reqs)):
        impl, _ = impl_horton(l, ty, dim)
        ctx.count(["horton-again", ty, dim, l], nontrivial=False, tag="horton:repeated")
        if impl != first[(ty, dim, l)]:
            ctx.fail("corr", f"utils.generate_orders_horton_order:{ty}:state", f"generate_orders_horton_order({l}, {ty}, {dim}) answered {first[(ty, dim, l)]} "
                     f"the first time and {impl} later in the same process", witness=dict(order=l, type=ty, dim=dim))
    bad = [("spherical", 3, 2), ("Cartesian", 3, 1), ("", 2, 0), ("pure_radial", 3, 2)]
    for (ty, dim, l), ga in zip(bad, driver_batch([f"C14.gen-horton {ty or '_'} {dim} {l}" for ty, dim, l in bad])):
        impl, _ = impl_horton(l, ty or "_", dim)
        ctx.count(["gen-horton", ty, dim, l], nontrivial=True, tag="gen:horton:unknown-type")
        if impl != ga:
            ctx.fail("corr", "utils.generate_orders_horton_order:unknown-type", f"type {ty!r}: implementation {impl}, translated program {ga}")
    # 2. the (l, m) -> row arithmetic against the position in the library's own stacked pure list
    stacked = [list(map(int, r)) for l in range(8) for r in ut.generate_orders_horton_order(l, "pure", 3)]
    lm = [(l, m) for l in range(8) for m in range(-l, l + 1)]
    ans = driver_batch([f"C14.rowindex {l} {m}" for l, m in lm])
    for (l, m), a in zip(lm, ans):
        ctx.count(["rowindex", l, m], nontrivial=l >= 1, tag="rowindex:" + ("m>0" if m > 0 else "m<=0"))
        if a != f"ok {stacked.index([l, m])}":
            ctx.fail("corr", "basegrid.moments:row-index", f"row of (l,m)=({l},{m}) in the library's Horton-2 list is {stacked.index([l, m])}, model arithmetic {a}")
    # 3. moments
    ncase = ctx.n(600, 10000)
    cases = []
    for ty in TYPES:                      # small, systematic part
        for L in range(0, 4):
            for dim in (1, 2, 3):
                c = _case(ctx, ty, dim)
                c["L"] = L
                cases.append(c)
    while len(cases) < ncase:
        cases.append(_case(ctx, prev=cases[-1]))
    # malformed: wrong f length, wrong centre dimension
    extra = []
    for _ in range(ctx.n(12, 100)):
        c = _case(ctx)
        c["cs_is_points"] = False
        if ctx.rng.random() < 0.5:
            c["f"] = c["f"] + [1.0]
            c["_bad"] = "f-length"
        else:
            c["cs"] = [row + [0.5] for row in c["cs"]]
            c["_bad"] = "centre-dim"
        extra.append(c)
    lines = []
    for c in cases + extra:
        c["_tabs"] = _tabs(c) if "_bad" not in c else []
        lines.append(_line(c, c["_tabs"]))
    ans = driver_batch(lines)
    for c, a in zip(cases + extra, ans):
        pub = {k: c[k] for k in ("typ", "L", "dim", "pts", "w", "f", "cs") + VARIANT_KEYS if k in c}
        tag, vals, orders = _impl_moments(c)
        c["_tag"] = tag
        rejected = tag != "ok"
        ctx.count(["moments", pub], nontrivial=(c["L"] >= 2 or len(c["cs"]) >= 2 or c["dim"] < 3 or rejected),
                  tag=f"moments:{c['typ']}:" + (c.get("_bad") or ("reject" if rejected else f"dim{c['dim']}")))
        for k in VARIANT_KEYS:
            if c.get(k) not in (None, False, "float64", "c", "int", "kw"):
                ctx.distribution[f"variant:{k}={c[k]}"] = ctx.distribution.get(f"variant:{k}={c[k]}", 0) + 1
        if len(c["cs"]) >= 5:
            ctx.distribution["variant:centres>=5"] = ctx.distribution.get("variant:centres>=5", 0) + 1
        t = Tokens(a)
        mt = t.tok()
        if mt != tag:
            ctx.fail("corr", f"basegrid.moments:{c['typ']}", f"moments(L={c['L']}, {c['typ']}, dim={c['dim']}, {c.get('_bad', '')}): implementation {tag}, model {a[:60]}", witness=pub)
            continue
        if tag != "ok":
            continue
        mvals = t.fmat()
        morders = _read_imat(t)
        if morders != orders:
            ctx.fail("corr", f"basegrid.moments:{c['typ']}:orders", f"returned order list differs: implementation {orders[:8]}…, model {morders[:8]}…", witness=pub)
            continue
        if len(mvals) != len(vals) or any(len(a_) != len(b_) for a_, b_ in zip(mvals, vals)):
            ctx.fail("corr", f"basegrid.moments:{c['typ']}:shape", f"shape differs: implementation {np.shape(vals)}, model {np.shape(mvals)}", witness=pub)
            continue
        for k, order in enumerate(orders):
            for ci, cen in enumerate(c["cs"]):
                _, scale = direct(c["typ"], order, c["pts"], c["w"], c["f"], cen)
                if not close(vals[k][ci], mvals[k][ci], rtol=1e-10, scale=scale + 1e-300):
                    ctx.fail("corr", f"basegrid.moments:{c['typ']}", f"entry (row {k} = {order}, centre {ci}): implementation {vals[k][ci]!r}, model {mvals[k][ci]!r}",
                             witness=dict(pub, row=k, order=order, centre=ci))
    # 3a. the translated programs of Grid.moments (Gen/Moments.lean) on the same calls: the statements before the
    #     loop over the centres (guards, reshape guard, list of orders, dim, stacked order array) see the arrays
    #     through their shapes; the index block of the pure-radial branch sees the order array.
    bg = importlib.import_module("grid.basegrid")
    tm = importlib.import_module("harness.translate.moments")
    try:
        idx_src = tm.index_block_source()
    except Exception as e:
        idx_src = None
        ctx.fail("corr", "translator:moments", f"the translator cannot carry the current source: {type(e).__name__}: {e}")
    stacked = [list(map(int, r)) for l in range(8) for r in ut.generate_orders_horton_order(l, "pure", 3)]
    gcases = list(cases + extra)
    # further rejected argument kinds that only the translated guards model
    for _ in range(ctx.n(16, 120)):
        c = _case(ctx)
        c.update(cs_is_points=False, twice=False, call="kw", cdtype="float64")
        c["_bad"] = ctx.rng.choice(["f-2d", "centres-1d", "orders-float", "orders-int16", "centres-3d"])
        gcases.append(c)
    glines = []
    for c in gcases:
        g, L, cs, f = build_args(c, bg.Grid)
        bad = c.get("_bad")
        if bad == "f-2d":
            f = f.reshape(-1, 1)
        elif bad == "centres-1d":
            cs = cs[0]
        elif bad == "centres-3d":
            cs = cs[None, :, :]
        elif bad == "orders-float":
            L, c["otype"] = float(c["L"]), "float"
        elif bad == "orders-int16":
            L, c["otype"] = np.int16(c["L"]), "np.int16"
        if "_tag" not in c:
            try:
                g.moments(L, cs, f, type_mom=c["typ"])
                c["_tag"] = "ok"
            except ValueError:
                c["_tag"] = "value-error"
            except TypeError:
                c["_tag"] = "type-error"
            except Exception as e:
                c["_tag"] = f"raised {type(e).__name__}: {e}"
        c["_shapes"] = (list(g.points.shape), list(np.shape(cs)), list(np.shape(f)))
        glines.append(f"C14.gen-orders {_ivec(g.points.shape)} {_ivec(np.shape(cs))} {_ivec(np.shape(f))} {int(c['L'])} {c.get('otype', 'int')} {c['typ']}")
    gans = driver_batch(glines)
    idx_lines, idx_cases = [], []
    for c, a in zip(gcases, gans):
        wit = dict(typ=c["typ"], L=c["L"], shapes=c["_shapes"], otype=c.get("otype", "int"), bad=c.get("_bad"))
        ctx.count(["gen-orders", wit], nontrivial=True, tag="gen:orders:" + (c.get("_bad") or ("ok" if c["_tag"] == "ok" else "reject")))
        t = Tokens(a)
        gt = t.tok()
        if c["_tag"] == "ok":
            want = f"ok {c['_shapes'][0][1] if len(c['_shapes'][0]) == 2 else 1} " + _ivec(range(1 if c["typ"] == "pure-radial" else 0, c["L"] + 1)) + " " + c["_orders_arr"]
            if a.strip() != want:
                ctx.fail("corr", "basegrid.moments:generated-orders", f"the implementation accepted the call and returned the order array [{c['_orders_arr'][:60]}…]; "
                         f"the translated statements give {a[:90]}", witness=wit)
                continue
            if c["typ"] == "pure-radial" and idx_src is not None:
                idx_lines.append("C14.gen-indices " + c["_orders_arr"])
                idx_cases.append(c)
        elif gt == "ok":
            # the translated prefix accepts; the implementation may still reject later, inside the loop over the
            # centres: only the pure types on points that are not three-dimensional (convert_cart_to_sph)
            if not (c["typ"] in ("pure", "pure-radial") and c["_shapes"][0][1:] != [3] and c["_tag"] == "value-error"):
                ctx.fail("corr", "basegrid.moments:generated-guards", f"implementation {c['_tag']}, the translated guards accept ({a[:60]})", witness=wit)
        elif gt != c["_tag"]:
            ctx.fail("corr", "basegrid.moments:generated-guards", f"implementation {c['_tag']}, translated guards {gt}", witness=wit)
    seen = set()
    for c, a in zip(idx_cases, driver_batch(idx_lines)):
        if c["L"] in seen and ctx.rng.random() < 0.7:
            continue
        seen.add(c["L"])
        orders = np.array([list(map(int, r)) for r in _read_imat(Tokens(c["_orders_arr"][2:]))])
        ns = {"np": np, "all_orders": orders.copy()}
        exec(idx_src, ns)                                            # the very statements of the library
        lib = [int(x) for x in ns["indices"]]
        ref = [stacked.index([int(l), int(m)]) for _, l, m in orders]  # position in the library's Horton-2 list
        ctx.count(["gen-indices", c["L"]], nontrivial=c["L"] >= 2, tag="gen:indices")
        if a.strip() != "ok " + _ivec(lib) or lib != ref:
            ctx.fail("corr", "basegrid.moments:row-index:generated", f"L={c['L']}: index statements of the library give {lib[:12]}…, translated program {a[:60]}…, "
                     f"rows of (l,m) in the Horton-2 list {ref[:12]}…", witness=dict(L=c["L"]))
    degs = [(ty, L) for ty in TYPES for L in range(0, 7) if not (ty == "pure-radial" and L == 0)]
    for (ty, L), a in zip(degs, driver_batch([f"C14.gen-degree {_ivec(range(1 if ty == 'pure-radial' else 0, L + 1))}" for ty, L in degs])):
        ctx.count(["gen-degree", ty, L], nontrivial=False, tag="gen:degree")
        if a.strip() != f"ok {L}":
            ctx.fail("corr", "basegrid.moments:solid-degree", f"degree handed to solid_harmonics for L={L} ({ty}): translated expression gives {a}")
    # 3b. one-dimensional point arrays (OneDGrid, points of shape (N,))
    flat, lines = [], []
    for i in range(ctx.n(60, 1200)):
        ty = TYPES[i % 4] if i < 16 else ctx.rng.choice(["cartesian", "radial", "cartesian", "radial", "pure", "pure-radial"])
        n, nc, L = ctx.rng.randint(1, 10), ctx.rng.randint(1, 4), (i // 4 if i < 16 else ctx.rng.randint(0, 6))
        c = dict(typ=ty, L=L, pts=sorted(_r(ctx.rng.uniform(-1.5, 1.5)) for _ in range(n)), w=[_r(ctx.rng.uniform(-0.5, 1.5)) for _ in range(n)],
                 f=[_r(ctx.rng.uniform(-2, 2)) for _ in range(n)], cs=[[_r(ctx.rng.uniform(-1, 1))] for _ in range(nc)])
        if ctx.rng.random() < 0.2:
            c["cs"][0] = [c["pts"][0]]
        c["cdtype"] = "float64"
        if ctx.rng.random() < 0.15:
            c["cs"], c["cdtype"] = [[float(ctx.rng.randint(-1, 1))] for _ in range(nc)], ctx.rng.choice(["int64", "int32"])
        c["otype"] = ctx.rng.choice(["int"] * 3 + ["np.int32", "np.int64"])
        c["fdtype"] = ctx.rng.choice(["float64"] * 4 + ["float32", "int64"])
        if c["fdtype"] == "float32":
            c["f"] = [float(np.float32(x)) for x in c["f"]]
        elif c["fdtype"] == "int64":
            c["f"] = [float(ctx.rng.randint(-3, 4)) for _ in range(n)]
        c["twice"] = ctx.rng.random() < 0.3
        flat.append(c)
        lines.append(f"C14.moments-flat {ty} {L} {fvec(c['pts'])} {fvec(c['w'])} {fvec(c['f'])} {fmat(c['cs'])}")
    ans = driver_batch(lines)
    for c, a in zip(flat, ans):
        try:
            c1 = dict(c, w=c["w"], reuse_grid=False)
            vals, orders = call_moments(c1, bg.OneDGrid)
            impl = "ok"
        except IndexError:
            impl = "index-error"
        except ValueError:
            impl = "value-error"
        except Exception as e:
            impl = f"raised-{type(e).__name__}:{e}"
        ctx.count(["moments-flat", c], nontrivial=True, tag=f"moments:points-1d:{c['typ']}:" + ("ok" if impl == "ok" else "reject"))
        t = Tokens(a)
        if t.tok() != impl:
            ctx.fail("corr", "basegrid.moments:points-1d", f"OneDGrid.moments(L={c['L']}, {c['typ']}): implementation {impl}, model {a[:40]}", witness=c)
            continue
        if impl != "ok":
            continue
        mvals, morders = t.fmat(), _read_imat(t)
        orders = np.asarray(orders)
        orders = [[int(x) for x in row] for row in (orders.reshape(-1, 1) if orders.ndim == 1 else orders)]
        if orders != morders or np.shape(vals) != np.shape(mvals):
            ctx.fail("corr", "basegrid.moments:points-1d", f"orders/shape differ: implementation {orders} {np.shape(vals)}, model {morders} {np.shape(mvals)}", witness=c)
            continue
        for k, order in enumerate(orders):
            for ci, cen in enumerate(c["cs"]):
                _, scale = direct(c["typ"], order, [[x] for x in c["pts"]], c["w"], c["f"], cen)
                if not close(float(vals[k][ci]), mvals[k][ci], rtol=1e-10, scale=scale + 1e-300):
                    ctx.fail("corr", "basegrid.moments:points-1d", f"entry ({k}, {ci}): implementation {float(vals[k][ci])!r}, model {mvals[k][ci]!r}", witness=c)
    # 4. dipole
    nd = ctx.n(40, 800)
    dcases, lines = [], []
    for _ in range(nd):
        na = ctx.rng.randint(1, 4)
        n = ctx.rng.randint(1, 15)
        d = dict(pts=[[_r(ctx.rng.uniform(-2, 2)) for _ in range(3)] for _ in range(n)],
                 w=[_r(ctx.rng.uniform(0.0, 1.5)) for _ in range(n)],
                 dens=[_r(ctx.rng.uniform(0.0, 2.0)) for _ in range(n)],
                 coords=[[_r(ctx.rng.uniform(-1.5, 1.5)) for _ in range(3)] for _ in range(na)],
                 charges=[ctx.rng.randint(1, 18) for _ in range(na)])
        d["masses"] = [float(ut.isotopic_masses[z]) for z in d["charges"]]
        # container kind / dtype of the arguments: lists and integer arrays are accepted by the helper
        d["container"] = ctx.rng.choice(["array"] * 3 + ["list", "int32-charges", "float-charges", "int-coords", "readonly"])
        if d["container"] == "int-coords":
            d["coords"] = [[float(ctx.rng.randint(-2, 2)) for _ in range(3)] for _ in range(na)]
        d["twice"] = ctx.rng.random() < 0.3
        dcases.append(d)
        lines.append(f"C14.dipole 3 {fmat(d['pts'])} {fvec(d['w'])} {fvec(d['dens'])} {fmat(d['coords'])} {fvec(d['charges'])} {fvec(d['masses'])}")
    ans = driver_batch(lines)
    bg = importlib.import_module("grid.basegrid")
    for d, a in zip(dcases, ans):
        try:
            got = [float(x) for x in call_dipole(d, bg.Grid, ut.dipole_moment_of_molecule)]
        except Exception as e:
            ctx.fail("corr", "utils.dipole_moment_of_molecule", f"raised {type(e).__name__}: {e} (arguments given as {d['container']})", witness=d)
            continue
        ctx.count(["dipole", {k: d[k] for k in ("pts", "w", "dens", "coords", "charges", "container", "twice")}], nontrivial=len(d["charges"]) >= 2,
                  tag=f"dipole:{len(d['charges'])}atoms:{d['container']}")
        t = Tokens(a)
        if t.tok() != "ok":
            ctx.fail("corr", "utils.dipole_moment_of_molecule", f"model answered {a}", witness=d)
            continue
        mv = t.fvec()
        scale = sum(abs(z) for z in d["charges"]) * 4 + sum(abs(x * y) for x, y in zip(d["w"], d["dens"])) * 4
        if len(mv) != len(got) or not all(close(x, y, rtol=1e-11, scale=scale) for x, y in zip(got, mv)):
            ctx.fail("corr", "utils.dipole_moment_of_molecule", f"implementation {got}, model {mv}", witness=d)


SNIPPET = """import warnings; warnings.filterwarnings('ignore')
import numpy as np
from grid.basegrid import Grid
{ref_src}
{call_src}
case = {case!r}
vals, orders = call_moments(case, Grid)      # arguments in the dtype / layout / call form named by the case
orders = np.asarray(orders); orders = orders.reshape(-1, 1) if orders.ndim == 1 else orders
want_orders = ref_all_orders(case['L'], case['typ'], case['dim'])
assert [list(map(int, r)) for r in orders] == want_orders, f'order list {{orders.tolist()}} is not the documented Horton order {{want_orders}}'
for k, order in enumerate(want_orders):
    for ci, c in enumerate(case['cs']):
        want, scale = direct(case['typ'], order, case['pts'], case['w'], case['f'], c)
        assert abs(float(vals[k][ci]) - want) <= 1e-9 * (scale + 1e-300), f'row {{k}} {{order}} centre {{ci}}: moments {{float(vals[k][ci])!r}}, direct quadrature {{want!r}}'
"""

DIPOLE_SNIPPET = """import warnings; warnings.filterwarnings('ignore')
import math, numpy as np
from grid.basegrid import Grid
from grid.utils import dipole_moment_of_molecule
{call_src}
d = {d!r}
try:
    got = call_dipole(d, Grid, dipole_moment_of_molecule)
except AssertionError:
    raise
except Exception as e:
    raise AssertionError(f'dipole_moment_of_molecule raised {{type(e).__name__}}: {{e}}')
M = math.fsum(d['masses'])
C = [math.fsum(m * r[j] for m, r in zip(d['masses'], d['coords'])) / M for j in range(3)]
want = [math.fsum(z * (r[j] - C[j]) for z, r in zip(d['charges'], d['coords'])) - math.fsum(w * rho * (p[j] - C[j]) for w, rho, p in zip(d['w'], d['dens'], d['pts'])) for j in range(3)]
assert len(got) == 3 and all(abs(float(a) - b) <= 1e-9 * (1 + abs(b)) for a, b in zip(got, want)), f'dipole {{list(got)}}, nuclear minus electronic first moments {{want}}'
"""

HISTORY_SNIPPET = """import warnings; warnings.filterwarnings('ignore')
import numpy as np
from grid.basegrid import Grid
{ref_src}
history = {history!r}          # successive calls on ONE grid object
g = Grid(np.array(history[0]['pts'], dtype=float), np.array(history[0]['w'], dtype=float))
for step, case in enumerate(history):
    vals, orders = g.moments(case['L'], np.array(case['cs'], dtype=float), np.array(case['f'], dtype=float), type_mom=case['typ'], return_orders=True)
    orders = np.asarray(orders); orders = orders.reshape(-1, 1) if orders.ndim == 1 else orders
    want_orders = ref_all_orders(case['L'], case['typ'], case['dim'])
    assert [list(map(int, r)) for r in orders] == want_orders, f'call {{step}}: order list {{orders.tolist()}} is not the documented Horton order'
    for k, order in enumerate(want_orders):
        for ci, c in enumerate(case['cs']):
            want, scale = direct(case['typ'], order, case['pts'], case['w'], case['f'], c)
            assert abs(float(vals[k][ci]) - want) <= 1e-9 * (scale + 1e-300), f'call {{step}} on the same grid object, row {{k}} {{order}} centre {{ci}}: moments {{float(vals[k][ci])!r}}, direct quadrature {{want!r}}'
"""


def _history_probe(ctx: Ctx, typ=None, dim=None, L=None):
    """State carried between calls: several calls on ONE grid object with overlapping arguments (same type, order and
    number of centres but other centres; same centres but other function values; another type in between; the first
    call again), every answer against direct quadrature."""
    bg = importlib.import_module("grid.basegrid")
    rng = ctx.rng
    c0 = _case(ctx, typ, dim, Lmax=3)
    if c0["typ"] in ("pure", "pure-radial") and c0["dim"] != 3:
        return                                   # rejected combination, nothing to integrate
    if L is not None:
        c0["L"] = L
    if c0["typ"] == "pure-radial" and c0["L"] == 0:
        c0["L"] = 1
    plain = dict(fdtype="float64", cdtype="float64", clayout="c", flayout="c", otype="int", call="kw", twice=False, reuse_grid=False, cs_is_points=False)
    c0.update(plain)
    n, d, nc = len(c0["pts"]), c0["dim"], len(c0["cs"])
    c0["f"] = [_r(rng.uniform(-2, 2)) for _ in range(n)]
    c1 = dict(c0, cs=[[_r(rng.uniform(-1, 1)) for _ in range(d)] for _ in range(nc)])
    c2 = dict(c0, f=[_r(rng.uniform(-2, 2)) for _ in range(n)])
    other = "radial" if c0["typ"] != "radial" else "cartesian"
    c3 = dict(c0, typ=other, L=c0["L"] + 1)
    history = [c0, c1, c2, c3, c0]
    g = bg.Grid(np.array(c0["pts"], dtype=float), np.array(c0["w"], dtype=float))
    keep = ("typ", "L", "dim", "pts", "w", "f", "cs")
    for step, c in enumerate(history):
        def report(what):
            ctx.fail("oracle", f"basegrid.moments:{c['typ']}:state", f"call {step} of a sequence of calls on one grid object ({[h['typ'] for h in history[:step + 1]]}): {what}",
                     witness=dict(history=[{k: h[k] for k in keep} for h in history[:step + 1]]),
                     snippet=HISTORY_SNIPPET.format(ref_src=REF_SRC, history=[{k: h[k] for k in keep} for h in history[:step + 1]]))
        try:
            vals, orders = g.moments(c["L"], np.array(c["cs"], dtype=float), np.array(c["f"], dtype=float), type_mom=c["typ"], return_orders=True)
        except Exception as e:
            report(f"raised {type(e).__name__}: {e}")
            return
        orders = np.asarray(orders)
        orders = orders.reshape(-1, 1) if orders.ndim == 1 else orders
        want_orders = ref_all_orders(c["L"], c["typ"], c["dim"])
        if [list(map(int, r)) for r in orders] != want_orders or np.shape(vals) != (len(want_orders), len(c["cs"])):
            report(f"order list / shape differ: {np.shape(vals)} for {len(want_orders)} orders and {len(c['cs'])} centres")
            return
        for k, order in enumerate(want_orders):
            for ci, cen in enumerate(c["cs"]):
                want, scale = direct(c["typ"], order, c["pts"], c["w"], c["f"], cen)
                if not close(float(vals[k][ci]), want, rtol=1e-9, scale=scale + 1e-300):
                    report(f"row {k} {order} centre {ci}: moments gives {float(vals[k][ci])!r}, direct quadrature {want!r}")
                    return


def oracle_at(ctx: Ctx, failure):
    """A correspondence disagreement -> the property itself at that input: the case alone on a fresh grid, and sequences of
    calls on one grid object with the same type / dimension / order (state carried between calls)."""
    w = failure.witness or {}
    if not (isinstance(w, dict) and {"typ", "L", "dim", "pts", "w", "f", "cs"} <= set(w)):
        return
    c = {k: w[k] for k in ("typ", "L", "dim", "pts", "w", "f", "cs") + VARIANT_KEYS if k in w}
    c["reuse_grid"] = False
    if not (c["typ"] in ("pure", "pure-radial") and c["dim"] != 3) and not (c["typ"] == "pure-radial" and c["L"] == 0) \
            and len(c["f"]) == len(c["pts"]) and all(len(x) == c["dim"] for x in c["cs"]):
        _oracle_case(ctx, c)
    for _ in range(6):
        _history_probe(ctx, c["typ"], c["dim"], c["L"])


# standard atomic weights (u), independent of the library's table; the library stores the
# mass of the most abundant isotope, so only a loose agreement is expected
_MASS_SANITY = {1: 1.008, 6: 12.011, 7: 14.007, 8: 15.999}


def _oracle_case(ctx: Ctx, c):
    """One case against direct quadrature with independently coded basis functions."""
    pub = {k: c[k] for k in ("typ", "L", "dim", "pts", "w", "f", "cs") + VARIANT_KEYS if k in c}
    pub["reuse_grid"] = False
    key = f"basegrid.moments:{c['typ']}" + (f":dim{c['dim']}" if c["dim"] != 3 else "")
    snip = SNIPPET.format(ref_src=REF_SRC, call_src=CALL_SRC, case=pub)
    try:
        tag, vals, orders = _impl_moments(c)
    except Exception as e:
        ctx.fail("oracle", key, f"moments raised {type(e).__name__}: {e}", witness=pub, snippet=snip)
        return
    if tag != "ok":
        ctx.fail("oracle", key, f"moments(L={c['L']}, {c['typ']}, dim={c['dim']}) raised {tag}", witness=pub, snippet=snip)
        return
    want_orders = ref_all_orders(c["L"], c["typ"], c["dim"])
    if orders != want_orders:
        ctx.fail("oracle", key + ":orders", f"returned order list {orders[:6]}… is not the documented Horton order {want_orders[:6]}…", witness=pub, snippet=snip)
        return
    if np.shape(vals) != (len(want_orders), len(c["cs"])):
        ctx.fail("oracle", key + ":shape", f"result has shape {np.shape(vals)}, expected {(len(want_orders), len(c['cs']))}", witness=pub, snippet=snip)
        return
    bad = None
    for k, order in enumerate(want_orders):
        for ci, cen in enumerate(c["cs"]):
            want, scale = direct(c["typ"], order, c["pts"], c["w"], c["f"], cen)
            if not close(vals[k][ci], want, rtol=1e-9, scale=scale + 1e-300):
                bad = bad or (k, order, ci, vals[k][ci], want)
    if bad:
        ctx.fail("oracle", key, f"row {bad[0]} (order {bad[1]}), centre {bad[2]}: moments gives {bad[3]!r}, direct quadrature of the defining integrand {bad[4]!r}",
                 witness=dict(pub, row=bad[0], order=bad[1], centre=bad[2], got=bad[3], want=bad[4]), snippet=snip)


def oracle(ctx: Ctx, budget: str):
    """The property on the implementation: every returned entry against direct quadrature
    with independently coded basis functions; order lists against the documented Horton
    order generated differently; dipole against its defining formula."""
    ut = importlib.import_module("grid.utils")
    bg = importlib.import_module("grid.basegrid")
    # order generator
    for ty in TYPES:
        for dim in (1, 2, 3):
            for l in range(0, 7 if budget == "small" else 12):
                want = ref_orders(l, ty, dim)
                try:
                    got = np.asarray(ut.generate_orders_horton_order(l, ty, dim))
                    got = got.reshape(-1, 1) if got.ndim == 1 and ty == "radial" else got
                    got = [[int(x) for x in r] for r in got]
                except Exception as e:
                    got = [f"raised {type(e).__name__}: {e}"]
                if got != want and not (got == [] and want == []):
                    ctx.fail("oracle", f"utils.generate_orders_horton_order:{ty}" + (f":dim{dim}" if ty == "cartesian" else ""),
                             f"generate_orders_horton_order({l}, {ty}, {dim}) = {got[:6]}…, documented Horton order {want[:6]}…",
                             witness=dict(order=l, type=ty, dim=dim),
                             snippet="import warnings; warnings.filterwarnings('ignore')\nimport numpy as np\nfrom grid.utils import generate_orders_horton_order\n" + REF_SRC
                             + f"\ntry:\n    got = np.asarray(generate_orders_horton_order({l}, {ty!r}, {dim})); got = got.reshape(-1,1) if got.ndim == 1 else got\n"
                               f"except Exception as e:\n    raise AssertionError(f'raised {{type(e).__name__}}: {{e}}')\n"
                               f"assert [list(map(int, r)) for r in got] == ref_orders({l}, {ty!r}, {dim}), got.tolist()\n")
    # moments: entry = direct quadrature
    n = 60 if budget == "small" else 700
    cases = []
    for ty in TYPES:
        for dim in ((1, 2, 3) if ty in ("cartesian", "radial") else (3,)):
            c = _case(ctx, ty, dim, Lmax=3)
            cases.append(c)
    while len(cases) < n:
        c = _case(ctx)
        if c["typ"] in ("pure", "pure-radial") and c["dim"] != 3:
            continue
        if c["typ"] == "pure-radial" and c["L"] == 0:
            continue
        cases.append(c)
    for c in cases:
        if c["typ"] == "pure-radial" and c["L"] == 0:
            c["L"] = 1
        _oracle_case(ctx, c)
    # state carried between calls on one grid object
    for _ in range(10 if budget == "small" else 150):
        _history_probe(ctx)
    # a library grid with a smooth function (atomic grid), low orders
    try:
        od = importlib.import_module("grid.onedgrid")
        rt = importlib.import_module("grid.rtransform")
        ag = importlib.import_module("grid.atomgrid")
        rg = rt.BeckeRTransform(1e-3, 1.5).transform_1d_grid(od.GaussLegendre(6))
        # grids whose `points` is derived from what they store: an atomic grid away from the origin (it stores the points
        # relative to its centre), rotated; a two-atom molecular grid; and the origin-centred atomic grid
        from grid.molgrid import MolGrid
        from grid.becke import BeckeWeights
        ctr = np.array([_r(ctx.rng.uniform(-1.5, 1.5)) for _ in range(3)])
        at0 = ag.AtomGrid(rg, degrees=[5])
        at1 = ag.AtomGrid(rg, degrees=[5], center=ctr, rotate=ctx.rng.randrange(1, 1000))
        at2 = ag.AtomGrid(rg, degrees=[3], center=-ctr)
        mol = MolGrid(np.array([1, 8]), [at1, at2], BeckeWeights(order=3), store=bool(ctx.rng.randrange(2)))
        for name, at, c0 in (("AtomGrid at the origin", at0, np.zeros(3)), (f"AtomGrid(center={ctr.tolist()}, rotated)", at1, ctr),
                             ("MolGrid of two off-origin atoms", mol, ctr)):
            P = np.asarray(at.points, dtype=float)
            q = P - c0
            fv = np.exp(-q[:, 0] ** 2 - 0.5 * (q[:, 1] - 0.2) ** 2 - q[:, 2] ** 2) * (1 + q[:, 0])
            cs = [[0.1, -0.2, 0.3], [0.0, 0.0, 0.0]]
            for ty in TYPES:
                vals, orders = at.moments(2, np.array(cs), fv, type_mom=ty, return_orders=True)
                orders = np.asarray(orders)
                orders = orders.reshape(-1, 1) if orders.ndim == 1 else orders
                ctx.tagc("oracle:moments:library-grid")
                for k, order in enumerate(orders):
                    for ci, cen in enumerate(cs):
                        want, scale = direct(ty, [int(x) for x in order], P.tolist(), np.asarray(at.weights, dtype=float).tolist(), fv.tolist(), cen)
                        if not close(float(vals[k][ci]), want, rtol=1e-9, scale=scale + 1e-300):
                            ctx.fail("oracle", f"basegrid.moments:{ty}:atomgrid", f"{name}: row {k} {order.tolist()} centre {ci}: {float(vals[k][ci])!r} vs direct quadrature over grid.points {want!r}",
                                     witness={"grid": name, "type_mom": ty, "order": order.tolist(), "center": cen})
    except ImportError:
        pass
    # 1-D grids of the library have a one-dimensional point array (N,)
    od = importlib.import_module("grid.onedgrid")
    for it in range(8 if budget == "small" else 100):
        typ = ("cartesian", "radial")[it % 2]
        if it < 2:
            g1 = od.GaussLegendre(5)
        else:
            n = ctx.rng.randint(1, 9)
            g1 = bg.OneDGrid(np.array(sorted(_r(ctx.rng.uniform(-1.5, 1.5)) for _ in range(n))), np.array([_r(ctx.rng.uniform(-0.5, 1.5)) for _ in range(n)]))
        L = ctx.rng.randint(0, 6)
        f1 = [_r(ctx.rng.uniform(-2, 2)) for _ in range(g1.size)]
        cs = [[_r(ctx.rng.uniform(-1, 1))] for _ in range(ctx.rng.randint(1, 3))]
        key = f"basegrid.moments:{typ}:points-1d"
        snip = POINTS_1D_SNIPPET.format(pts=[float(x) for x in g1.points], w=[float(x) for x in g1.weights], f=f1, cs=cs, typ=typ, L=L)
        wit = dict(points=[float(x) for x in g1.points], weights=[float(x) for x in g1.weights], f=f1, centers=cs, type_mom=typ, orders=L)
        try:
            got, orders = g1.moments(L, np.array(cs), np.array(f1), type_mom=typ, return_orders=True)
        except Exception as e:
            ctx.fail("oracle", key, f"{type(g1).__name__}.moments (points of shape (N,)) raised {type(e).__name__}: {e}", witness=wit, snippet=snip)
            continue
        if [int(x) for x in np.ravel(orders)] != list(range(L + 1)) or np.shape(got) != (L + 1, len(cs)):
            ctx.fail("oracle", key + ":orders", f"order list {np.ravel(orders).tolist()} / shape {np.shape(got)} for L={L}", witness=wit, snippet=snip)
            continue
        for k in range(L + 1):
            for ci, c in enumerate(cs):
                want, scale = direct(typ, [k], [[float(x)] for x in g1.points], g1.weights, f1, c)
                if not close(float(got[k][ci]), want, rtol=1e-9, scale=scale + 1e-300):
                    ctx.fail("oracle", key, f"row {k}, centre {ci}: moments {float(got[k][ci])!r}, direct quadrature {want!r}", witness=wit, snippet=snip)
    # dipole
    for _ in range(10 if budget == "small" else 200):
        na = ctx.rng.randint(1, 4)
        npt = ctx.rng.randint(1, 15)
        d = dict(pts=[[_r(ctx.rng.uniform(-2, 2)) for _ in range(3)] for _ in range(npt)],
                 w=[_r(ctx.rng.uniform(0.0, 1.5)) for _ in range(npt)],
                 dens=[_r(ctx.rng.uniform(0.0, 2.0)) for _ in range(npt)],
                 coords=[[_r(ctx.rng.uniform(-1.5, 1.5)) for _ in range(3)] for _ in range(na)],
                 charges=[ctx.rng.choice([1, 6, 7, 8]) for _ in range(na)])
        d["masses"] = [float(ut.isotopic_masses[z]) for z in d["charges"]]
        for z, m in zip(d["charges"], d["masses"]):
            if abs(m - _MASS_SANITY[z]) > 0.02 * _MASS_SANITY[z]:
                ctx.fail("oracle", "utils.isotopic_masses", f"mass of Z={z} is {m}, expected about {_MASS_SANITY[z]}")
        d["container"] = ctx.rng.choice(["array", "array", "list", "int32-charges", "float-charges", "readonly"])
        d["twice"] = ctx.rng.random() < 0.3
        try:
            got = [float(x) for x in call_dipole(d, bg.Grid, ut.dipole_moment_of_molecule)]
        except Exception as e:
            ctx.fail("oracle", "utils.dipole_moment_of_molecule", f"raised {type(e).__name__}: {e} (arguments given as {d['container']})",
                     witness=d, snippet=DIPOLE_SNIPPET.format(d=d, call_src=DIPOLE_CALL_SRC))
            continue
        M = math.fsum(d["masses"])
        C = [math.fsum(m * r[j] for m, r in zip(d["masses"], d["coords"])) / M for j in range(3)]
        want = [math.fsum(z * (r[j] - C[j]) for z, r in zip(d["charges"], d["coords"]))
                - math.fsum(w * rho * (p[j] - C[j]) for w, rho, p in zip(d["w"], d["dens"], d["pts"])) for j in range(3)]
        if len(got) != 3 or not all(close(a, b, rtol=1e-9, scale=1 + abs(b) + 40) for a, b in zip(got, want)):
            ctx.fail("oracle", "utils.dipole_moment_of_molecule", f"dipole {got}, nuclear minus electronic first moments about the centre of mass {want}",
                     witness=d, snippet=DIPOLE_SNIPPET.format(d=d, call_src=DIPOLE_CALL_SRC))

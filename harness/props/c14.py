"""C14 — multipole moments equal direct quadrature of their defining integrands."""
import importlib
import itertools
import math

import numpy as np

from ..common import Ctx, Tokens, b2f, close, driver_batch, f2b, fmat, fvec

LEVEL = "proof"
LEVEL_TEXT = (
    "Lean theorems (all orders l, all L, unbounded): the Cartesian order list of generate_orders_horton_order is exactly "
    "the compositions of l into dim parts (dim 1..3), strictly descending lexicographically (hence each once, Horton order); "
    "the pure list has (l,m) at position 2m-1 (m>0) / 2|m| (m<=0), stacked at l^2 + that; the pure-radial list has (n,l,m) "
    "at offset sum_{n'<n} n'^2 + l^2 + position(m); the (l,m)->row arithmetic of the pure-radial branch selects the (l,m) "
    "row of the Horton-2 table in both branches; every entry (k, centre) returned by the model of Grid.moments is "
    "sum_i w_i f_i basis_k(p_i - R) with basis_k named by row k of the returned order list (monomial, |r|^n, S_lm, "
    "|r|^n S_lm; the solid harmonics S enter as a parameter, their correctness is C08); the dipole helper equals nuclear "
    "minus electronic first moments about the centre of mass. Tie to the code, way 1 (translator, regenerated on every run): "
    "generate_orders_horton_order (all branches), the statements of Grid.moments before the loop over the centres (guards, "
    "1-D reshape guard, range of orders, np.vstack stacking) and the (l,m)->row index statements of the pure-radial branch are "
    "translated from the AST into Gen/Moments.lean; theorems: the generated order generator equals the model hortonOrders for "
    "every type, dim and l (gen_horton_eq_model), the generated index statements compute rowIndex row by row "
    "(gen_indices_eq_rowIndex), the generated prefix of Grid.moments returns dim, the orders 0..L / 1..L and the stacked "
    "array with the model's rows for (N,d) and (N,) point arrays and orders given as int/np.int32/np.int64, rejects what the "
    "code rejects, and the row look-up theorem holds for the generated programs together (gen_row_lookup_correct). Way 2: hand "
    "model (quadrature, dipole) and the generated programs themselves compared with the implementation "
    "(order lists exactly, values with tolerance, solid-harmonic tables taken from the library); values end to end against "
    "independently coded basis functions by the oracle. Round 3 (Gen/MomentsNum.lean, translator moments_num.py, generic carrier): the loop "
    "over the centres of Grid.moments (every branch of the type, np.prod / np.linalg.norm / einsum calls with their axes and subscripts, "
    "the index block, np.array(integrals).T, return_orders, the defaults of the signature), Grid.integrate, the dictionary "
    "utils.isotopic_masses as exact decimals, dipole_moment_of_molecule and MultiDomainGrid.moments are translated statement by statement; "
    "theorems: the generated loop body equals the model's perCentre for every type (gen_centre_eq_model); the property clause over the "
    "generated Grid.moments as a whole - entry (k, centre) = direct quadrature, returned order array = stacked Horton list, with and "
    "without return_orders (gen_moments_entry); the table has the keys 1..82 each once, every entry a positive decimal within 2.5 % of the "
    "standard atomic weight of its element, look-ups outside raise KeyError (gen_masses_keys, gen_masses_entries, gen_masses_sane; pairwise distinct, increasing in Z except at K, Ni, Br, I: gen_masses_distinct, gen_masses_increasing; "
    "gen_mass_keyerror, gen_mass_last); the generated dipole helper with the regenerated table equals the model and is nuclear minus "
    "electronic first moments about the centre of mass for every non-empty list of atomic numbers 1..82, charged or not "
    "(gen_dipole_eq_model, gen_dipole_spec: the mass sum is positive, so no hypothesis on it remains); Grid.integrate is sum_i w_i prod_k "
    "a_k[i] (gen_integrate_spec); the documented defaults and the NotImplementedError of MultiDomainGrid.moments."
)
TECHNIQUE = "Lean 4 proof (order enumeration, index arithmetic, entry = quadrature) + differential correspondence + direct-quadrature oracle"
GEN = ["moments", "moments_num"]
LEAN_MODULES = ["GridVerif.Props.C14", "GridVerif.Props.C14.Values", "GridVerif.Props.C14.Dipole", "GridVerif.Props.C14.Gen",
                "GridVerif.Props.C14.GenNum", "GridVerif.Props.C14.GenDipole", "GridVerif.Props.C14.GenAdditive"]
THEOREMS = [
    "GridVerif.C14.cartesian_orders_spec",
    "GridVerif.C14.pure_orders_spec",
    "GridVerif.C14.pure_radial_orders_spec",
    "GridVerif.C14.row_lookup_correct",
    "GridVerif.C14.moments_entry",
    "GridVerif.C14.moments_entry_points1d",
    "GridVerif.C14.moments_rejects",
    "GridVerif.C14.dipole_spec",
    # over the text generated from utils.generate_orders_horton_order / Grid.moments (Gen/Moments.lean)
    "GridVerif.C14.gen_horton_eq_model",
    "GridVerif.C14.gen_horton_unknown_type",
    "GridVerif.C14.gen_indices_eq_rowIndex",
    "GridVerif.C14.gen_moments_orders_spec",
    "GridVerif.C14.gen_moments_rejects",
    "GridVerif.C14.gen_moments_orders_radial_zero",
    "GridVerif.C14.gen_solid_degree",
    "GridVerif.C14.gen_row_lookup_correct",
    # round 3: over the numeric text generated from Grid.moments (loop over the centres), Grid.integrate,
    # utils.isotopic_masses, utils.dipole_moment_of_molecule, MultiDomainGrid.moments (Gen/MomentsNum.lean)
    "GridVerif.C14.gen_centre_eq_model",
    "GridVerif.C14.gen_moments_entry",
    "GridVerif.C14.gen_masses_keys",
    "GridVerif.C14.gen_masses_entries",
    "GridVerif.C14.gen_masses_sane",
    "GridVerif.C14.gen_masses_distinct",
    "GridVerif.C14.gen_masses_increasing",
    "GridVerif.C14.gen_mass_keyerror",
    "GridVerif.C14.gen_mass_last",
    "GridVerif.C14.massR_lookup",
    "GridVerif.C14.gen_dipole_eq_model",
    "GridVerif.C14.gen_dipole_spec",
    "GridVerif.C14.gen_integrate_spec",
    "GridVerif.C14.gen_moments_defaults",
    "GridVerif.C14.gen_multidomain_not_implemented",
    # round 6: additivity over any split of the grid, freshness of what is returned
    "GridVerif.C14.gen_moments_additive",
    "GridVerif.C14.gen_integrate_additive",
    "GridVerif.C14.gen_returns_fresh",
]
RULE = (
    "correspondence: generate_orders_horton_order for every type x dim 0..4 x order 0..8 (exact); Grid.moments on random "
    "grids (1-12 points, signed weights, a point on a centre now and then) for all four types x L 0..6 x 1-4 centres x "
    "dims 1..3 incl. the rejected combinations, and on OneDGrids (point array of shape (N,)) (values with tolerance, returned order list exact; solid-harmonic tables "
    "from the library); dipole_moment_of_molecule on random molecules. non-trivial = L >= 2, or >= 2 centres, or dim < 3, "
    "or a rejected call. Argument kinds covered in every run (counted under variant:* in the distribution): function values as "
    "float64/float32/int64/int32/bool, centres as float/int64/int32 arrays, C/Fortran/strided/read-only layouts, the grid's own point array "
    "as the centres, 5-10 centres, repeated centres, a centre on a grid point, orders as int/np.int32/np.int64, positional / keyword / "
    "default-type / return_orders on-off call forms, the same call twice on one grid object with another call in between, several "
    "successive cases on one grid object; the generator in two further request orders; the dipole helper with lists, integer / "
    "int32 / float charges, integer coordinates, read-only arrays, called twice; the generated programs (gen:*) on all of these calls "
    "plus 2-D function values, 1-D / 3-D centres, float / np.int16 orders, unknown type names. Round 3: the generated Grid.moments as a "
    "whole (gen:moments:*) on every one of these calls incl. return_orders on/off/default and the default type; the generated dipole helper, "
    "every key of isotopic_masses bit for bit and the integers around the range, Grid.integrate with 0-4 arguments (right / wrong length, "
    "2-D, 0-d, non-arrays, values scaled by 1e-300 … 1e12), MultiDomainGrid.moments; data of extreme magnitude in ~1/5 of the moment cases "
    "(variant:extreme=*: function values x 1e-300 … 1e12, weights x 1e-12 / 1e12, grid and centres translated by +-2^10 … 2^20 with "
    "the untranslated call as reference, a centre 2^10 … 2^15 away, a grid point 1e-8 … 1e-300 from a centre at the origin); the array "
    "returned by moments / by the order generator edited in place before the next call; grid points / weights unchanged by moments; oracle: "
    "13 library grids with derived point arrays (off-origin / single-shell AtomGrid, MolGrid, LocalGrid, wrapped PeriodicGrid incl. a "
    "negative 1-D lattice vector, UniformGrid with negative axes in 2-D / 3-D, Tensor1DGrids, OneDGrid, one-point Grid) with the grid's own "
    "centre, the origin, a grid point and a shell point as centres, integrate(f) = zeroth moment on each; dipole for every Z of the table "
    "(the last one in every run), net charges -2 … +2, molecules 2^k from the origin; masses against independent standard atomic weights. Round 4 (every run): lattice grids with centres exactly on grid points (origin, "
    "two lattice points) for all four types and L up to 6; sizes 1 and 2 with pairwise different numbers of points / centres / rows; dtype and "
    "layout (integer, bool, float32, read-only, strided, negative strides, Fortran) of the points / weights held by the Grid / OneDGrid object; "
    "function values as longdouble / float16 (corr) and complex128 / complex64 (oracle: real and imaginary parts separately), integrate of complex "
    "arrays; call forms: defaults given explicitly, keywords in another order, generate_orders_horton_order with dim omitted / by keyword, the dipole "
    "helper by keywords; one function-value array object (a view into a larger array) through all four types twice, integrate(f), integrate(f, f), "
    "the grid's own weights / points arrays as f / centres, the dipole helper, with the surrounding bytes checked; histories with rejected calls of "
    "every kind in between and comparison with a fresh grid object; corr and oracle run as independent parts (an exception in one is recorded, the "
    "others still run). Round 5 (every run, oracle): plain Grid / OneDGrid with synthetic points of 1025, 4097, 20001, 31234, 65537 and the exact multiples 1024, 2048, 4096, 20000, 65536 points "
    "(thorough: up to 1000003, incl. 2^19 and 10^6) for every moment type in 3-D, Cartesian / radial in 1-D / 2-D, integrate with 1-3 arrays and the dipole helper, against "
    "a vectorised per-point evaluation of the defining integrand and against additivity over an uneven split of the grid; order lists / moments with more "
    "than 1024 rows; 1025 / 2049 points through the model and the generated program; descending / shuffled / ascending point orders (Grid, OneDGrid, "
    "reversed library grids, AtomGrid on a descending radial grid); argument arrays edited in place between calls (f[:] = new, centres overwritten, f *= c; "
    "dipole density / coordinates); two grid objects differing only in a node exactly on the centre, used alternately; centres / function values / "
    "dipole density / coordinates given directly as float32, float16, longdouble, int64 (argument unchanged, second call identical)"
)
TRUSTED_BASE = [
    "Lean 4.33 kernel; axioms propext, Classical.choice, Quot.sound only (audited per theorem)",
    "hand model Model/Moments.lean of the quadrature part of Grid.moments and of dipole_moment_of_molecule, tied by correspondence and (round 3) "
    "by gen_centre_eq_model / gen_dipole_eq_model to the text generated from the source",
    "translator harness/translate/moments_num.py and the NumPy primitives of Model/MomentsNum.lean (npSubRow, npPowMatArrCol, npProdAxis2, "
    "npNormAxis1, npEinsum*, npTakeRows, npArrayT, pyDictGet, decimalK, npEinsumAllI, …: shape checks raise, size-1 broadcasting is not "
    "modelled); an `(N,)` point array enters the generated loop as N rows of one entry; mitigation: the generated programs are run by the "
    "driver on every call of the correspondence",
    "translator harness/translate/moments.py (Python AST -> Gen/Moments.lean) and the NumPy/Python primitives it targets (pyRange, npVstack, "
    "npArrayRows, npUnpack3T, npMaskGet, npMaskIAdd, ... in Model/Moments.lean); mitigation: the generated programs are run by the driver "
    "and compared with the implementation (order arrays incl. their number of dimensions, accepted/rejected calls) and the index "
    "statements of the library are executed next to their translation",
    "NumPy broadcasting/einsum/vstack semantics as modelled (list operations)",
    "solid_harmonics returns rows in Horton-2 order evaluated at the centred points (hypothesis of moments_entry; property C08; checked end to end by the oracle)",
]
ASSUMPTIONS = [
    "exact real arithmetic in the theorems; floating-point agreement up to 1e-10 of the sum of |terms|",
    "zero centres (output of shape (0,)) and negative orders are outside the model",
    "isotopic_masses: the hand model takes the masses as an argument; the generated dipole helper reads the regenerated table (exact decimals; in "
    "Float the quotient numerator/denominator is the double Python reads from the literal, checked bit for bit)",
    "separations between 1e-155 and 1e-162 of a grid point from a centre are not generated (pure types lose accuracy / return nan there: "
    "underflow of r^2 in convert_cart_to_sph; judged outside the claim, DESIGN 3: overflow/underflow paths are not modelled; info line of every run); below 1e-162 the point counts as coincident (absolute floor 1e-150 sum|w f|)",
    "centres and function values are NumPy arrays (the documented types): a Python list for either is rejected by Grid.moments with "
    "AttributeError ('list' object has no attribute 'ndim') before anything is computed - a rejection, outside the property; the dipole "
    "helper accepts lists (covered)",
    "orders must be int / np.int32 / np.int64: np.int16 and float are rejected with TypeError (modelled by the generated guards)",
]

TYPES = ["cartesian", "radial", "pure", "pure-radial"]


class _Parts:
    """Independent parts of `corr` / `oracle` (round 4: crash-proof): `with parts("name"): …` catches what the part raises,
    so that the other parts still run.  An exception whose innermost frame is library code (…/grid/*.py, not the harness)
    is the library raising inside the envelope: recorded as a failure `<stage> C14.<name>:raises` with the traceback as
    witness.  Anything else (harness bug, driver / translator problem) is kept and the first one is re-raised by
    `finish()` after every part has run, where the runner reports it as it did before."""

    def __init__(self, ctx, stage):
        self.ctx, self.stage, self.first, self.name = ctx, stage, None, None

    def __call__(self, name):
        self.name = name
        return self

    def __enter__(self):
        return self

    def __exit__(self, et, ev, tb):
        if et is None:
            return False
        if not issubclass(et, Exception):
            return False                                   # KeyboardInterrupt, SystemExit
        import traceback
        frames = traceback.extract_tb(tb)
        inner = frames[-1].filename if frames else ""
        lib = ("/grid/" in inner and "/verif/" not in inner and "site-packages" not in inner) or any(
            "/grid/" in f.filename and "/harness/" not in f.filename and "site-packages" not in f.filename for f in frames[-3:])
        if lib and not isinstance(ev, AssertionError):
            self.ctx.fail(self.stage, f"C14.{self.name}:raises", f"part '{self.name}' of the {self.stage}: the library raised {et.__name__}: {ev}",
                          witness="".join(traceback.format_exception(et, ev, tb))[-2500:])
        elif self.first is None:
            self.first = ev
        self.ctx.info(f"{self.stage} part '{self.name}' raised {et.__name__}: {str(ev)[:200]}")
        return True

    def finish(self):
        if self.first is not None:
            raise self.first

# Grids with a one-dimensional point array (every OneDGrid): Grid.moments reshapes (N,) to (N, 1).
POINTS_1D_SNIPPET = """import warnings; warnings.filterwarnings('ignore')
import math, numpy as np
from grid.basegrid import OneDGrid
pts, w, f, cs, typ, L = {pts!r}, {w!r}, {f!r}, {cs!r}, {typ!r}, {L}
g = OneDGrid(np.array(pts), np.array(w))
try:
    got, orders = g.moments(L, np.array(cs), np.array(f), type_mom=typ, return_orders=True)
except Exception as e:
    raise AssertionError(f'Grid.moments on a one-dimensional point array raised {{type(e).__name__}}: {{e}}')
assert [int(x) for x in np.ravel(orders)] == list(range(L + 1)), orders
for k in range(L + 1):
    for ci, c in enumerate(cs):
        want = math.fsum(wi * fi * ((x - c[0]) ** k if typ == 'cartesian' else abs(x - c[0]) ** k) for wi, fi, x in zip(w, f, pts))
        assert abs(float(got[k][ci]) - want) <= 1e-9 * (1 + sum(abs(wi * fi) * abs(x - c[0]) ** k for wi, fi, x in zip(w, f, pts))), (k, ci, float(got[k][ci]), want)
"""

# ----------------------------------------------------------------------------------------
# independent reference: Horton order lists and basis functions (not the library's code)
# ----------------------------------------------------------------------------------------
REF_SRC = '''
import math, itertools
def ref_orders(l, typ, dim=3):
    """documented Horton order, coded differently from the library"""
    if typ == "cartesian":
        comps = [c for c in itertools.product(range(l + 1), repeat=dim) if sum(c) == l]
        return [list(c) for c in sorted(comps, reverse=True)]        # descending lexicographic
    if typ == "radial":
        return [[l]]
    ms = [0] + [s * x for x in range(1, l + 1) for s in (1, -1)]     # 0, 1, -1, ..., l, -l
    if typ == "pure":
        return [[l, m] for m in ms]
    return [[l, ll, m] for ll in range(l) for m in ([0] + [s * x for x in range(1, ll + 1) for s in (1, -1)])]
def ref_all_orders(L, typ, dim=3):
    out = []
    for l in (range(1, L + 1) if typ == "pure-radial" else range(L + 1)):
        out += ref_orders(l, typ, dim)
    return out
def solid(l, m, d):
    """regular real solid harmonic R_l^m(d) = sqrt(4 pi/(2l+1)) |d|^l Y_lm; Cartesian closed forms up to l = 3,
    SciPy's complex harmonics (Condon-Shortley phase removed) above."""
    x, y, z = d
    r2 = x * x + y * y + z * z
    s3 = math.sqrt(3.0)
    if l == 0: return 1.0
    if l == 1: return {0: z, 1: x, -1: y}[m]
    if l == 2:
        return {0: (3 * z * z - r2) / 2, 1: s3 * x * z, -1: s3 * y * z, 2: s3 / 2 * (x * x - y * y), -2: s3 * x * y}[m]
    if l == 3:
        return {0: z * (5 * z * z - 3 * r2) / 2, 1: math.sqrt(3 / 8) * x * (5 * z * z - r2), -1: math.sqrt(3 / 8) * y * (5 * z * z - r2),
                2: math.sqrt(15) / 2 * z * (x * x - y * y), -2: math.sqrt(15) * x * y * z,
                3: math.sqrt(5 / 8) * x * (x * x - 3 * y * y), -3: math.sqrt(5 / 8) * y * (3 * x * x - y * y)}[m]
    from scipy.special import sph_harm_y
    r = math.sqrt(r2)
    if r == 0.0: return 0.0
    Y = sph_harm_y(l, abs(m), math.acos(max(-1.0, min(1.0, z / r))), math.atan2(y, x))
    v = Y.real if m == 0 else math.sqrt(2) * (-1) ** m * (Y.real if m > 0 else Y.imag)
    return math.sqrt(4 * math.pi / (2 * l + 1)) * r ** l * float(v)
def basis(typ, order, d):
    if typ == "cartesian":
        return math.prod(float(x) ** int(e) for x, e in zip(d, order))
    r = math.sqrt(sum(float(x) * float(x) for x in d))
    if typ == "radial":
        return r ** int(order[0])
    if typ == "pure":
        return solid(int(order[0]), int(order[1]), [float(x) for x in d])
    return r ** int(order[0]) * solid(int(order[1]), int(order[2]), [float(x) for x in d])
def bound(typ, order, d):
    """magnitude of the basis function (no cancellation): |x|^a |y|^b |z|^c, r^n, r^l, r^(n+l)"""
    if typ == "cartesian":
        return math.prod(abs(float(x)) ** int(e) for x, e in zip(d, order))
    r = math.sqrt(sum(float(x) * float(x) for x in d))
    return r ** int(order[0] + order[1] if typ == "pure-radial" else order[0])
def direct(typ, order, pts, w, f, c):
    """-> (direct quadrature sum_i w_i f_i basis(p_i - c), scale sum_i |w_i f_i| * magnitude of the basis)"""
    ds = [[a - b for a, b in zip(p, c)] for p in pts]
    terms = [float(wi) * float(fi) * basis(typ, order, d) for d, wi, fi in zip(ds, w, f)]
    return math.fsum(terms), math.fsum(abs(float(wi) * float(fi)) * bound(typ, order, d) for d, wi, fi in zip(ds, w, f))
'''
_ns = {}
exec(REF_SRC, _ns)
ref_orders, ref_all_orders, basis, direct = _ns["ref_orders"], _ns["ref_all_orders"], _ns["basis"], _ns["direct"]


# How a case (with its variant fields) is turned into a call of the implementation; source text so that the
# replay snippets are self-contained.
CALL_SRC = '''
import numpy as np
_GRID_POOL = {}
def _layout(a, how):
    """the same values in another memory layout / writeability"""
    a = np.asarray(a)
    if how == "fortran":
        return np.asfortranarray(a)
    if how == "strided":
        big = np.zeros(tuple(2 * s for s in a.shape), dtype=a.dtype)
        sl = tuple(slice(None, None, 2) for _ in a.shape)
        big[sl] = a
        return big[sl]
    if how == "readonly":
        b = a.copy(); b.setflags(write=False)
        return b
    if how == "negstride":                       # a view with negative strides onto reversed storage
        return np.ascontiguousarray(a[(slice(None, None, -1),) * a.ndim])[(slice(None, None, -1),) * a.ndim] if a.ndim else a
    return a
def build_args(case, Grid):
    key = repr((case["pts"], case["w"], case.get("pdtype"), case.get("playout"), case.get("wdtype"), case.get("wlayout")))
    g = _GRID_POOL.get(key) if case.get("reuse_grid") else None
    if g is None:
        # the arrays held by the grid object, in the dtype / layout named by the case (round 4, class 14)
        g = Grid(_layout(np.array(case["pts"], dtype=float).astype(case.get("pdtype", "float64")), case.get("playout", "c")),
                 _layout(np.array(case["w"], dtype=float).astype(case.get("wdtype", "float64")), case.get("wlayout", "c")))
        if len(_GRID_POOL) > 64:
            _GRID_POOL.clear()
        _GRID_POOL[key] = g
    f = _layout(np.array(case["f"], dtype=float).astype(case.get("fdtype", "float64")), case.get("flayout", "c"))
    if case.get("cs_is_points"):
        cs = g.points                       # the grid's own array object as the centres
    else:
        cs = _layout(np.array(case["cs"], dtype=float).astype(case.get("cdtype", "float64")), case.get("clayout", "c"))
    L = {"int": int, "np.int32": np.int32, "np.int64": np.int64, "np.int16": np.int16, "float": float}[case.get("otype", "int")](case["L"])
    return g, L, cs, f
def call_moments(case, Grid):
    """-> (values, orders); with case['twice'] the call is made, another call with other arguments is made on the
    same grid object, and the call is repeated with the same argument objects: both answers must be identical and
    the argument arrays unchanged."""
    g, L, cs, f = build_args(case, Grid)
    def once():
        how = case.get("call", "kw")
        if how == "positional":
            return g.moments(L, cs, f, case["typ"], True)
        if how == "no-orders":
            return g.moments(L, cs, f, type_mom=case["typ"]), g.moments(L, cs, f, type_mom=case["typ"], return_orders=True)[1]
        if how == "all-kw":
            return g.moments(orders=L, centers=cs, func_vals=f, type_mom=case["typ"], return_orders=True)
        if how == "default-type":
            return g.moments(L, cs, f, return_orders=True)
        if how == "explicit-defaults":           # the default of return_orders given explicitly
            return g.moments(L, cs, f, case["typ"], False), g.moments(L, cs, f, case["typ"], return_orders=True)[1]
        if how == "kw-shuffled":
            return g.moments(return_orders=True, type_mom=case["typ"], func_vals=f, centers=cs, orders=L)
        return g.moments(L, cs, f, type_mom=case["typ"], return_orders=True)
    if not case.get("twice"):
        return once()
    f0, cs0 = np.array(f, copy=True), np.array(cs, copy=True)
    p0, w0 = np.array(g.points, copy=True), np.array(g.weights, copy=True)
    v1, o1 = once()
    v1c, o1c = np.array(v1, copy=True), np.array(o1, copy=True)
    # what the call returned belongs to the caller: it is edited in place before the next calls
    for a in (v1, o1):
        if isinstance(a, np.ndarray) and a.flags.writeable and a.size:
            a[...] = -7
    other = "radial" if case["typ"] != "radial" else "cartesian"
    g.moments(int(case["L"]) + 1, np.array(cs0[:1], dtype=float) + 0.25, f, type_mom=other)
    v2, o2 = once()
    if not (np.array_equal(v1c, np.asarray(v2), equal_nan=True) and np.array_equal(o1c, np.asarray(o2))):
        raise AssertionError("state: the same call on the same grid object gave two different answers (the first answer was edited in place by the caller in between)")
    if not (np.array_equal(f0, f) and np.array_equal(cs0, cs)):
        raise AssertionError("state: moments changed one of its argument arrays")
    if not (np.array_equal(p0, g.points) and np.array_equal(w0, g.weights)):
        raise AssertionError("state: moments changed the points / weights of the grid")
    return v2, o2
'''
exec(CALL_SRC, _ns)
call_moments, build_args = _ns["call_moments"], _ns["build_args"]

DIPOLE_CALL_SRC = '''
import numpy as np
def call_dipole(d, Grid, dipole_moment_of_molecule):
    """the dipole helper with its arguments in the container kind / dtype named by d['container']"""
    g = Grid(np.array(d["pts"]), np.array(d["w"]))
    kind = d.get("container", "array")
    dens, coords, charges = np.array(d["dens"]), np.array(d["coords"]), np.array(d["charges"])
    if kind == "list":
        coords, charges = [list(r) for r in d["coords"]], list(d["charges"])
    elif kind == "int32-charges":
        charges = charges.astype(np.int32)
    elif kind == "float-charges":
        charges = charges.astype(float)
    elif kind == "int-coords":
        coords = coords.astype(np.int64)
    elif kind == "readonly":
        for a in (dens, coords, charges):
            a.setflags(write=False)
    elif kind == "float32-coords":               # round 5, class 23 (the values are float32-representable)
        coords = coords.astype(np.float32)
    elif kind == "longdouble-density":
        dens = dens.astype(np.longdouble)
    elif kind == "float32-density":
        dens = dens.astype(np.float32)
    elif kind == "inplace":                      # round 5, class 25: the same array objects with other contents before
        dens0, coords0 = dens.copy(), np.asarray(coords, dtype=float).copy()
        dens[:] = dens0[::-1] * 0.5
        coords = coords0 + 0.75
        dipole_moment_of_molecule(g, dens, coords, charges)
        dens[:] = dens0
        coords -= 0.75
    if kind == "keywords":
        r1 = dipole_moment_of_molecule(charges=charges, coords=coords, density=dens, grid=g)
    else:
        r1 = dipole_moment_of_molecule(g, dens, coords, charges)
    if d.get("twice"):
        dipole_moment_of_molecule(g, dens * 0.5, np.asarray(coords, dtype=float) + 0.1, charges)
        r2 = dipole_moment_of_molecule(g, dens, coords, charges)
        assert np.array_equal(np.asarray(r1), np.asarray(r2)), "state: the same dipole call gave two different answers"
    return r1
'''
exec(DIPOLE_CALL_SRC, _ns)
call_dipole = _ns["call_dipole"]

VARIANT_KEYS = ("fdtype", "cdtype", "clayout", "flayout", "otype", "call", "twice", "reuse_grid", "cs_is_points", "extreme",
                "pdtype", "playout", "wdtype", "wlayout", "shape", "lattice")
PUB_KEYS = ("typ", "L", "dim", "pts", "w", "f", "cs") + VARIANT_KEYS + ("atol", "unshifted")


def _r(x, nd=3):
    return round(float(x), nd)


def _case(ctx: Ctx, typ=None, dim=None, Lmax=6, prev=None):
    rng = ctx.rng
    typ = typ or rng.choice(TYPES)
    if dim is None:
        dim = rng.choice([1, 2, 3]) if typ in ("cartesian", "radial") else (3 if rng.random() < 0.9 else rng.choice([1, 2]))
    L = rng.randint(0, Lmax)
    n = rng.randint(1, 12)
    nc = rng.randint(1, 4) if rng.random() < 0.88 else rng.randint(5, 10)          # now and then many centres
    reuse = prev is not None and prev["dim"] == dim and rng.random() < 0.3
    if reuse:                                                       # the same grid object as the case before
        pts, w, n = [list(p) for p in prev["pts"]], list(prev["w"]), len(prev["pts"])
    else:
        pts = [[_r(rng.uniform(-1.5, 1.5)) for _ in range(dim)] for _ in range(n)]
        w = [_r(rng.uniform(-0.5, 1.5)) for _ in range(n)]
    cs = [[_r(rng.uniform(-1, 1)) for _ in range(dim)] for _ in range(nc)]
    cdtype = "float64"
    if rng.random() < 0.15:                                         # integer-valued centres, passed as an integer array
        cs = [[float(rng.randint(-1, 1)) for _ in range(dim)] for _ in range(nc)]
        cdtype = rng.choice(["int64", "int32"])
    elif rng.random() < 0.25:
        cs[rng.randrange(nc)] = list(pts[rng.randrange(n)])          # a grid point on a centre
    if rng.random() < 0.1:
        cs[0] = [0.0] * dim
    if nc >= 2 and rng.random() < 0.3:
        i, j = rng.sample(range(nc), 2)
        cs[j] = list(cs[i])                                         # the same centre twice
    cs_is_points = rng.random() < 0.05
    if cs_is_points:                                                # every grid point is a centre (the grid's own array)
        cs, cdtype = [list(p) for p in pts], "float64"
    f = [_r(rng.uniform(-2, 2)) for _ in range(n)]
    # the function values may be of any numeric dtype ("all function value arrays"): integer counts,
    # boolean indicator masks and single-precision arrays must give the same quadrature as their
    # float64 conversion
    fdtype = rng.choice(["float64"] * 6 + ["int64", "int32", "bool", "float32", "longdouble", "float16"])
    if fdtype.startswith("int"):
        f = [float(rng.randint(-3, 4)) for _ in range(n)]
    elif fdtype == "bool":
        f = [float(rng.random() < 0.5) for _ in range(n)]
    elif fdtype == "float32":
        f = [float(np.float32(x)) for x in f]
    elif fdtype == "float16":
        f = [float(np.float16(x)) for x in f]
    lay = ["c"] * 5 + ["fortran", "strided", "readonly"]
    c = dict(typ=typ, L=L, dim=dim, pts=pts, w=w, f=f, cs=cs, fdtype=fdtype, cdtype=cdtype,
             clayout=rng.choice(lay), flayout=rng.choice(lay),
             otype=rng.choice(["int"] * 4 + ["np.int32", "np.int64"]),
             call=rng.choice(["kw"] * 4 + ["positional", "no-orders", "all-kw", "explicit-defaults", "kw-shuffled"] + (["default-type"] if typ == "cartesian" else [])),
             twice=rng.random() < 0.15, reuse_grid=reuse, cs_is_points=cs_is_points)
    if rng.random() < 0.22 and not reuse and not cs_is_points:
        _extreme(ctx, c)
    elif rng.random() < 0.2 and not reuse:
        _gridkinds(ctx, c)
    return c


GRID_LAYOUTS = ["c", "fortran", "strided", "readonly", "negstride"]


def _gridkinds(ctx: Ctx, c):
    """Round 4, class 14: dtype / layout of the arrays *held by the grid object* (points, weights): integer, float32,
    read-only, strided, negative strides, Fortran order; the reference is the float64 computation on the same values."""
    rng = ctx.rng
    n, dim = len(c["pts"]), c["dim"]
    c["pdtype"] = rng.choice(["float64", "float64", "float32", "int64", "int32"])
    c["wdtype"] = rng.choice(["float64", "float64", "float32", "int64", "bool"])
    c["playout"], c["wlayout"] = rng.choice(GRID_LAYOUTS), rng.choice(GRID_LAYOUTS)
    if c["pdtype"].startswith("int"):
        c["pts"] = [[float(rng.randint(-2, 2)) for _ in range(dim)] for _ in range(n)]
        if c.get("cs_is_points"):
            c["cs"] = [list(p_) for p_ in c["pts"]]
    elif c["pdtype"] == "float32":
        c["pts"] = [[float(np.float32(x)) for x in p_] for p_ in c["pts"]]
        if c.get("cs_is_points"):
            c["cs"] = [list(p_) for p_ in c["pts"]]
    if c.get("cs_is_points") and c["pdtype"] != "float64":
        c["cs_is_points"] = False                      # the centres stay float64 copies of the points
    if c["wdtype"] == "int64":
        c["w"] = [float(rng.randint(-1, 3)) for _ in range(n)]
    elif c["wdtype"] == "bool":
        c["w"] = [float(rng.random() < 0.7) for _ in range(n)]
    elif c["wdtype"] == "float32":
        c["w"] = [float(np.float32(x)) for x in c["w"]]
    c["gridkind"] = f"p:{c['pdtype']}/{c['playout']},w:{c['wdtype']}/{c['wlayout']}"


def _small_case(ctx: Ctx, typ, dim, n, nc, L):
    """Round 4, class 20: sizes 1 and 2 and pairwise different numbers of points / centres / rows."""
    rng = ctx.rng
    c = _case(ctx, typ, dim)
    for k in ("pdtype", "playout", "wdtype", "wlayout", "gridkind", "extreme", "atol", "unshifted"):
        c.pop(k, None)
    c.update(L=L, pts=[[_r(rng.uniform(-1.5, 1.5)) for _ in range(dim)] for _ in range(n)], w=[_r(rng.uniform(-0.5, 1.5)) for _ in range(n)],
             f=[_r(rng.uniform(-2, 2)) for _ in range(n)], cs=[[_r(rng.uniform(-1, 1)) for _ in range(dim)] for _ in range(nc)],
             fdtype="float64", cdtype="float64", cs_is_points=False, reuse_grid=False, shape=f"N{n}xM{nc}xL{L}")
    return c


def _lattice_case(ctx: Ctx, typ, dim, L):
    """Round 4, classes 19 / 12: a lattice grid (points {-1, -1/2, 0, 1/2, 1}^dim, a random subset that keeps the origin)
    with centres exactly ON grid points — the origin, two other lattice points — and one off the lattice: every centred
    point set contains r = 0, points on the poles (+-z axis), on the x and y axes and in the coordinate planes, where the
    spherical coordinates and the solid harmonics the moments consume are special."""
    rng = ctx.rng
    c = _case(ctx, typ, dim)
    for k in ("pdtype", "playout", "wdtype", "wlayout", "gridkind", "extreme", "atol", "unshifted"):
        c.pop(k, None)
    vals = [-1.0, -0.5, 0.0, 0.5, 1.0]
    allp = [list(p_) for p_ in itertools.product(vals, repeat=dim)]
    keep = [p_ for p_ in allp if not any(p_) or rng.random() < (0.25 if dim == 3 else 0.6)]
    for ax in range(dim):                                # the poles / axis points next to the origin always
        for sgn in (1.0, -1.0):
            q = [0.0] * dim
            q[ax] = sgn * 0.5
            if q not in keep:
                keep.append(q)
    rng.shuffle(keep)
    n = len(keep)
    cs = [[0.0] * dim, list(rng.choice(keep)), list(rng.choice(keep)), [_r(rng.uniform(-1, 1)) for _ in range(dim)]]
    c.update(L=L, pts=keep, w=[_r(rng.uniform(-0.5, 1.5)) for _ in range(n)], f=[_r(rng.uniform(-2, 2)) for _ in range(n)], cs=cs,
             fdtype="float64", cdtype="float64", cs_is_points=False, reuse_grid=False, lattice=True)
    return c


EXTREME_KINDS = ["fscale", "wscale", "shift", "far", "near"]
NEAR_EPS = [1e-8, 1e-12, 1e-50, 1e-100, 1e-150, 1e-170, 1e-200, 1e-300]


def _extreme(ctx: Ctx, c, kind=None):
    """Data of extreme but legal magnitude (round 3, class 8 / 7 / 12), in place:
    fscale  function values scaled by 1e-300 … 1e12 (results are compared relative to that scale);
    wscale  weights scaled by 1e-12 / 1e12;
    shift   grid and centres translated by +-2^k, k = 10..20, coordinates dyadic so that the translation is exact
            (the moments are translation invariant: the oracle compares with the untranslated call);
    far     one centre 2^10 … 2^15 away from the grid (monomials up to ~1e27, compared relative to sum |w f| |d|^n);
    near    the origin as a centre and a grid point eps away from it, eps = 1e-8 … 1e-300: both sides of the `r == 0.0`
            branch of convert_cart_to_sph and of the underflow of r^2 (below ~1e-162 the squares underflow and the point
            counts as coincident: absolute error <= eps^l |w f|, hence the absolute floor 1e-150; separations between
            1e-155 and 1e-162 are NOT generated: see the report, the pure types lose accuracy / return nan there)."""
    rng = ctx.rng
    kind = kind or rng.choice(EXTREME_KINDS)
    c.update(fdtype="float64", cdtype="float64", extreme=kind)
    n, dim = len(c["pts"]), c["dim"]
    if kind == "fscale":
        s_ = rng.choice([1e-300, 1e-50, 1e-12, 1e12])
        c["f"] = [_r(rng.uniform(-2, 2)) * s_ for _ in range(n)]
        c["extreme"] = f"fscale:{s_:g}"
    elif kind == "wscale":
        s_ = rng.choice([1e-12, 1e12])
        c["w"] = [x * s_ for x in c["w"]]
        c["f"] = [_r(rng.uniform(-2, 2)) for _ in range(n)]
        c["extreme"] = f"wscale:{s_:g}"
    elif kind == "shift":
        k = rng.randint(10, 20)
        T = [rng.choice([-1.0, 1.0]) * 2.0 ** k for _ in range(dim)]
        dy = lambda x: round(x * 1024) / 1024
        c["unshifted"] = dict(pts=[[dy(x) for x in p] for p in c["pts"]], cs=[[dy(x) for x in p] for p in c["cs"]])
        c["pts"] = [[x + t for x, t in zip(p, T)] for p in c["unshifted"]["pts"]]
        c["cs"] = [[x + t for x, t in zip(p, T)] for p in c["unshifted"]["cs"]]
        c["f"] = [_r(rng.uniform(-2, 2)) for _ in range(n)]
        c["extreme"] = f"shift:2^{k}"
    elif kind == "far":
        k = rng.randint(10, 15)
        c["cs"][rng.randrange(len(c["cs"]))] = [rng.choice([-1.0, 1.0]) * 2.0 ** k * rng.choice([1.0, 0.5, 0.0]) + rng.choice([0.0, 0.25]) for _ in range(dim)]
        c["f"] = [_r(rng.uniform(-2, 2)) for _ in range(n)]
        c["L"] = min(c["L"], 4)
        c["extreme"] = f"far:2^{k}"
    else:
        eps = rng.choice(NEAR_EPS)
        d = [rng.choice([0.0, 1.0, -1.0, 0.5, -0.25]) for _ in range(dim)]
        if not any(d):
            d[rng.randrange(dim)] = 1.0
        c["cs"][0] = [0.0] * dim
        c["pts"][0] = [x * eps for x in d]
        if rng.random() < 0.5:           # every grid point that close (the tiny terms are then the whole integral)
            c["pts"] = [[rng.choice([0.0, 1.0, -1.0, 0.5, -0.25, 0.75]) * eps for _ in range(dim)] for _ in range(n)]
            c["cs"] = c["cs"][:1] + [[rng.choice([0.0, 1.0, -0.5]) * eps for _ in range(dim)] for _ in c["cs"][1:]]
        c["f"] = [_r(rng.uniform(-2, 2)) for _ in range(n)]
        c["atol"] = 1e-150 * (1.0 + sum(abs(a * b) for a, b in zip(c["w"], c["f"])))
        c["extreme"] = f"near:{eps:g}"


def _systematic_cases(ctx: Ctx):
    """Round 4, in every run: (a) lattice grids with centres exactly on grid points for all four types (dimension 1-3 for
    Cartesian / radial), (b) sizes 1 and 2 and pairwise different numbers of points / centres / rows (the returned matrix is
    rows x centres: a missing or doubled transposition shows when they differ, a wrong axis when one of them is 1)."""
    out = []
    for k, ty in enumerate(TYPES):
        for j, L in enumerate((1, 2, 4) if ctx.thorough or True else (2,)):
            dim = 3 if ty in ("pure", "pure-radial") else (3, 2, 1)[(j + k + ctx.seed) % 3]
            out.append(_lattice_case(ctx, ty, dim, L))
        out.append(_lattice_case(ctx, ty, 3, 6 if ty != "cartesian" else 3))
    shapes = [(1, 1), (1, 2), (2, 1), (2, 2), (1, 3), (2, 3), (3, 2), (3, 1), (4, 2), (2, 5)]
    for k, ty in enumerate(TYPES):
        for j, (n, nc) in enumerate(shapes):
            L = (j + k + ctx.seed) % 3 + (1 if ty == "pure-radial" else 0)
            dim = 3 if ty in ("pure", "pure-radial") else (3, 1, 2)[(j + ctx.seed) % 3]
            out.append(_small_case(ctx, ty, dim, n, nc, L))
    return out


def _arr(a):
    """an integer array of one or two dimensions in the driver's notation (`1 <ivec>` | `2 <imat>`)"""
    a = np.asarray(a)
    if a.ndim == 1:
        return " ".join(["1", str(a.shape[0])] + [str(int(x)) for x in a])
    return " ".join(["2", str(a.shape[0]), str(a.shape[1] if a.shape[0] else 0)] + [str(int(x)) for x in a.ravel()])


def _ivec(xs):
    xs = list(xs)
    return " ".join([str(len(xs))] + [str(int(x)) for x in xs])


def _impl_moments(case, flen=None, cdim=None):
    bg = importlib.import_module("grid.basegrid")
    try:
        vals, orders = call_moments(case, bg.Grid)
    except ValueError:
        return "value-error", None, None
    except IndexError:
        return "index-error", None, None
    except TypeError:
        return "type-error", None, None
    except Exception as e:
        return f"raised {type(e).__name__}: {e}", None, None
    vals = np.asarray(vals, dtype=float)
    orders = np.asarray(orders)
    case["_orders_arr"] = _arr(orders)
    if orders.ndim == 1:
        orders = orders.reshape(-1, 1)
    return "ok", vals.tolist(), [[int(x) for x in row] for row in orders]


def _tabs(case):
    """solid_harmonics(L, sph(points - centre)) per centre, from the library (float64)."""
    ut = importlib.import_module("grid.utils")
    if case["typ"] not in ("pure", "pure-radial") or case["dim"] != 3:
        return []
    pts = np.array(case["pts"], dtype=float)
    return [np.asarray(ut.solid_harmonics(case["L"], ut.convert_cart_to_sph(pts - np.array(c))), dtype=float).tolist() for c in case["cs"]]


def _line(case, tabs):
    m = lambda rows, c: (fmat(rows) if rows else f"0 {c}")
    s = (f"C14.moments {case['typ']} {case['L']} {case['dim']} {m(case['pts'], case['dim'])} {fvec(case['w'])} {fvec(case['f'])} "
         f"{m(case['cs'], len(case['cs'][0]) if case['cs'] else case['dim'])} {len(tabs)}")
    for t in tabs:
        s += " " + fmat(t)
    return s


def _read_imat(t: Tokens):
    r, c = t.nat(), t.nat()
    return [[int(t.tok()) for _ in range(c)] for _ in range(r)]


def corr(ctx: Ctx):
    ut = importlib.import_module("grid.utils")
    bg = importlib.import_module("grid.basegrid")
    parts = _Parts(ctx, "corr")
    with parts("orders"):
        # 1. order generator, every type x dim x order
        reqs = [(ty, dim, l) for ty in TYPES for dim in (0, 1, 2, 3, 4) for l in range(0, 9)]
        ans = driver_batch([f"C14.horton {ty} {dim} {l}" for ty, dim, l in reqs])
        gans = driver_batch([f"C14.gen-horton {ty} {dim} {l}" for ty, dim, l in reqs])

        def impl_horton(l, ty, dim):
            """-> (answer in the model's notation, answer in the notation of the generated program)"""
            try:
                o = np.asarray(ut.generate_orders_horton_order(l, ty, dim))
                o2 = o.reshape(-1, 1) if o.ndim == 1 and ty == "radial" else o
                if o2.size == 0:
                    return "ok 0 0", "ok " + _arr(o)
                res = "ok " + " ".join([str(o2.shape[0]), str(o2.shape[1])] + [str(int(x)) for x in o2.ravel()]), "ok " + _arr(o)
                if isinstance(o, np.ndarray) and o.flags.writeable:
                    o[...] = -9                 # the returned array is the caller's: edited in place, later calls must not see it
                return res
            except ValueError:
                return "value-error", "value-error"
            except Exception as e:                      # anything else is not an accepted outcome
                return f"raised {type(e).__name__}: {e}", f"raised {type(e).__name__}: {e}"

        first = {}
        for (ty, dim, l), a, ga in zip(reqs, ans, gans):
            impl, gimpl = impl_horton(l, ty, dim)
            first[(ty, dim, l)] = impl
            ctx.count(["gen-horton", ty, dim, l], nontrivial=(l >= 2 or impl == "value-error"), tag="gen:horton")
            if gimpl != ga:
                ctx.fail("corr", f"utils.generate_orders_horton_order:{ty}:generated", f"generate_orders_horton_order({l}, {ty}, {dim}): implementation {gimpl}, "
                         f"translated program {ga}", witness=dict(order=l, type=ty, dim=dim, impl=gimpl, generated=ga))
            ctx.count(["horton", ty, dim, l], nontrivial=(l >= 2 or impl == "value-error"), tag=f"horton:{ty}:" + ("reject" if impl == "value-error" else f"dim{dim}" if ty == "cartesian" else "ok"))
            am = a if not a.startswith("ok 0 ") else "ok 0 0"
            if impl != am:
                ctx.fail("corr", f"utils.generate_orders_horton_order:{ty}", f"generate_orders_horton_order({l}, {ty}, {dim}): implementation {impl}, model {a}",
                         witness=dict(order=l, type=ty, dim=dim, impl=impl, model=a))
        # round 4, class 15: `dim` omitted / given as the default / by keyword, everything by keyword
        for ty in TYPES:
            for l in range(0, 5):
                ref = np.asarray(ut.generate_orders_horton_order(l, ty, 3))
                forms = {"dim omitted": lambda: ut.generate_orders_horton_order(l, ty), "dim=3": lambda: ut.generate_orders_horton_order(l, ty, dim=3),
                         "all keywords": lambda: ut.generate_orders_horton_order(order=l, type_ord=ty, dim=3),
                         "keywords shuffled": lambda: ut.generate_orders_horton_order(dim=3, type_ord=ty, order=l)}
                for name, call in forms.items():
                    ctx.count(["horton-form", ty, l, name], nontrivial=False, tag="horton:call-form")
                    try:
                        got = np.asarray(call())
                        okf = got.shape == ref.shape and np.array_equal(got, ref)
                    except Exception as e:
                        got, okf = f"raised {type(e).__name__}: {e}", False
                    if not okf:
                        ctx.fail("corr", f"utils.generate_orders_horton_order:{ty}:call-form", f"generate_orders_horton_order({l}, {ty!r}) with {name}: {got if isinstance(got, str) else got.tolist()[:6]}, "
                                 f"with dim=3 positionally {ref.tolist()[:6]}", witness=dict(order=l, type=ty, form=name))
        # the same requests again in another order (a result remembered under too coarse a key would show), and the
        # rejected arguments: an unknown type name, an order that is not a Python int
        again = list(reqs)
        ctx.rng.shuffle(again)
        for ty, dim, l in again + list(reversed(reqs)):
            impl, _ = impl_horton(l, ty, dim)
            ctx.count(["horton-again", ty, dim, l], nontrivial=False, tag="horton:repeated")
            if impl != first[(ty, dim, l)]:
                ctx.fail("corr", f"utils.generate_orders_horton_order:{ty}:state", f"generate_orders_horton_order({l}, {ty}, {dim}) answered {first[(ty, dim, l)]} "
                         f"the first time and {impl} later in the same process", witness=dict(order=l, type=ty, dim=dim))
        bad = [("spherical", 3, 2), ("Cartesian", 3, 1), ("", 2, 0), ("pure_radial", 3, 2)]
        for (ty, dim, l), ga in zip(bad, driver_batch([f"C14.gen-horton {ty or '_'} {dim} {l}" for ty, dim, l in bad])):
            impl, _ = impl_horton(l, ty or "_", dim)
            ctx.count(["gen-horton", ty, dim, l], nontrivial=True, tag="gen:horton:unknown-type")
            if impl != ga:
                ctx.fail("corr", "utils.generate_orders_horton_order:unknown-type", f"type {ty!r}: implementation {impl}, translated program {ga}")
        # 2. the (l, m) -> row arithmetic against the position in the library's own stacked pure list
        stacked = [list(map(int, r)) for l in range(8) for r in ut.generate_orders_horton_order(l, "pure", 3)]
        lm = [(l, m) for l in range(8) for m in range(-l, l + 1)]
        ans = driver_batch([f"C14.rowindex {l} {m}" for l, m in lm])
        for (l, m), a in zip(lm, ans):
            ctx.count(["rowindex", l, m], nontrivial=l >= 1, tag="rowindex:" + ("m>0" if m > 0 else "m<=0"))
            if a != f"ok {stacked.index([l, m])}":
                ctx.fail("corr", "basegrid.moments:row-index", f"row of (l,m)=({l},{m}) in the library's Horton-2 list is {stacked.index([l, m])}, model arithmetic {a}")
    with parts("moments"):
        # 3. moments
        ncase = ctx.n(600, 10000)
        cases = []
        for ty in TYPES:                      # small, systematic part
            for L in range(0, 4):
                for dim in (1, 2, 3):
                    c = _case(ctx, ty, dim)
                    c["L"] = L
                    cases.append(c)
        cases += _systematic_cases(ctx)
        for ty, n_ in (("cartesian", 1025), ("radial", 2049)):      # round 5, class 21: past a block boundary, through the model too
            c = _small_case(ctx, ty, 3, n_, 2, 2)
            c.update(call="kw", twice=False, shape=f"N{n_}")
            cases.append(c)
        while len(cases) < ncase:
            cases.append(_case(ctx, prev=cases[-1]))
        # malformed: wrong f length, wrong centre dimension
        extra = []
        for _ in range(ctx.n(12, 100)):
            c = _case(ctx)
            c["cs_is_points"] = False
            if ctx.rng.random() < 0.5:
                c["f"] = c["f"] + [1.0]
                c["_bad"] = "f-length"
            else:
                c["cs"] = [row + [0.5] for row in c["cs"]]
                c["_bad"] = "centre-dim"
            extra.append(c)
        lines = []
        for c in cases + extra:
            c["_tabs"] = _tabs(c) if "_bad" not in c else []
            lines.append(_line(c, c["_tabs"]))
        ans = driver_batch(lines)
        for c, a in zip(cases + extra, ans):
            pub = {k: c[k] for k in PUB_KEYS if k in c}
            tag, vals, orders = _impl_moments(c)
            c["_tag"] = tag
            rejected = tag != "ok"
            ctx.count(["moments", pub], nontrivial=(c["L"] >= 2 or len(c["cs"]) >= 2 or c["dim"] < 3 or rejected),
                      tag=f"moments:{c['typ']}:" + (c.get("_bad") or ("reject" if rejected else f"dim{c['dim']}")))
            for k in VARIANT_KEYS:
                if c.get(k) not in (None, False, "float64", "c", "int", "kw"):
                    ctx.distribution[f"variant:{k}={c[k]}"] = ctx.distribution.get(f"variant:{k}={c[k]}", 0) + 1
            if len(c["cs"]) >= 5:
                ctx.distribution["variant:centres>=5"] = ctx.distribution.get("variant:centres>=5", 0) + 1
            t = Tokens(a)
            mt = t.tok()
            if mt != tag:
                ctx.fail("corr", f"basegrid.moments:{c['typ']}", f"moments(L={c['L']}, {c['typ']}, dim={c['dim']}, {c.get('_bad', '')}): implementation {tag}, model {a[:60]}", witness=pub)
                continue
            if tag != "ok":
                continue
            mvals = t.fmat()
            morders = _read_imat(t)
            if morders != orders:
                ctx.fail("corr", f"basegrid.moments:{c['typ']}:orders", f"returned order list differs: implementation {orders[:8]}…, model {morders[:8]}…", witness=pub)
                continue
            if len(mvals) != len(vals) or any(len(a_) != len(b_) for a_, b_ in zip(mvals, vals)):
                ctx.fail("corr", f"basegrid.moments:{c['typ']}:shape", f"shape differs: implementation {np.shape(vals)}, model {np.shape(mvals)}", witness=pub)
                continue
            c["_vals"], c["_scale"] = vals, [[0.0] * len(c["cs"]) for _ in orders]
            for k, order in enumerate(orders):
                for ci, cen in enumerate(c["cs"]):
                    _, scale = direct(c["typ"], order, c["pts"], c["w"], c["f"], cen)
                    c["_scale"][k][ci] = scale
                    if not close(vals[k][ci], mvals[k][ci], rtol=1e-10, scale=scale + 1e-300, atol=c.get("atol", 0.0)):
                        ctx.fail("corr", f"basegrid.moments:{c['typ']}", f"entry (row {k} = {order}, centre {ci}): implementation {vals[k][ci]!r}, model {mvals[k][ci]!r}",
                                 witness=dict(pub, row=k, order=order, centre=ci))
        # 3a. the translated programs of Grid.moments (Gen/Moments.lean) on the same calls: the statements before the
        #     loop over the centres (guards, reshape guard, list of orders, dim, stacked order array) see the arrays
        #     through their shapes; the index block of the pure-radial branch sees the order array.
        bg = importlib.import_module("grid.basegrid")
        tm = importlib.import_module("harness.translate.moments")
        try:
            idx_src = tm.index_block_source()
        except Exception as e:
            idx_src = None
            ctx.fail("corr", "translator:moments", f"the translator cannot carry the current source: {type(e).__name__}: {e}")
        stacked = [list(map(int, r)) for l in range(8) for r in ut.generate_orders_horton_order(l, "pure", 3)]
        gcases = list(cases + extra)
        # further rejected argument kinds that only the translated guards model
        for _ in range(ctx.n(16, 120)):
            c = _case(ctx)
            c.update(cs_is_points=False, twice=False, call="kw", cdtype="float64")
            c["_bad"] = ctx.rng.choice(["f-2d", "centres-1d", "orders-float", "orders-int16", "centres-3d"])
            gcases.append(c)
        glines, flines = [], []
        for c in gcases:
            g, L, cs, f = build_args(c, bg.Grid)
            bad = c.get("_bad")
            if bad == "f-2d":
                f = f.reshape(-1, 1)
            elif bad == "centres-1d":
                cs = cs[0]
            elif bad == "centres-3d":
                cs = cs[None, :, :]
            elif bad == "orders-float":
                L, c["otype"] = float(c["L"]), "float"
            elif bad == "orders-int16":
                L, c["otype"] = np.int16(c["L"]), "np.int16"
            if "_tag" not in c:
                try:
                    g.moments(L, cs, f, type_mom=c["typ"])
                    c["_tag"] = "ok"
                except ValueError:
                    c["_tag"] = "value-error"
                except TypeError:
                    c["_tag"] = "type-error"
                except Exception as e:
                    c["_tag"] = f"raised {type(e).__name__}: {e}"
            c["_shapes"] = (list(g.points.shape), list(np.shape(cs)), list(np.shape(f)))
            P, csA = np.asarray(g.points, dtype=float), np.asarray(cs, dtype=float)
            c["_ret"] = "default" if c.get("call") == "no-orders" and not bad else "0" if c.get("call") == "explicit-defaults" and not bad else "1"
            flines.append(f"C14.gen-moments {'default' if c.get('call') == 'default-type' and not bad else c['typ']} {int(c['L'])} {c.get('otype', 'int')} {c['_ret']} "
                          f"{_ivec(P.shape)} {fmat((P.reshape(-1, 1) if P.ndim == 1 else P).tolist())} {fvec(np.asarray(g.weights, dtype=float))} "
                          f"{_ivec(csA.shape)} {fmat(csA.tolist()) if csA.ndim == 2 else '0 0'} {_ivec(np.shape(f))} {fvec(np.asarray(f, dtype=float).ravel())} "
                          f"{len(c.get('_tabs', []))}" + "".join(" " + fmat(t) for t in c.get("_tabs", [])))
            glines.append(f"C14.gen-orders {_ivec(g.points.shape)} {_ivec(np.shape(cs))} {_ivec(np.shape(f))} {int(c['L'])} {c.get('otype', 'int')} {c['typ']}")
        gans = driver_batch(glines)
        idx_lines, idx_cases = [], []
        for c, a in zip(gcases, gans):
            wit = dict(typ=c["typ"], L=c["L"], shapes=c["_shapes"], otype=c.get("otype", "int"), bad=c.get("_bad"))
            ctx.count(["gen-orders", wit], nontrivial=True, tag="gen:orders:" + (c.get("_bad") or ("ok" if c["_tag"] == "ok" else "reject")))
            t = Tokens(a)
            gt = t.tok()
            if c["_tag"] == "ok":
                want = f"ok {c['_shapes'][0][1] if len(c['_shapes'][0]) == 2 else 1} " + _ivec(range(1 if c["typ"] == "pure-radial" else 0, c["L"] + 1)) + " " + c["_orders_arr"]
                if a.strip() != want:
                    ctx.fail("corr", "basegrid.moments:generated-orders", f"the implementation accepted the call and returned the order array [{c['_orders_arr'][:60]}…]; "
                             f"the translated statements give {a[:90]}", witness=wit)
                    continue
                if c["typ"] == "pure-radial" and idx_src is not None:
                    idx_lines.append("C14.gen-indices " + c["_orders_arr"])
                    idx_cases.append(c)
            elif gt == "ok":
                # the translated prefix accepts; the implementation may still reject later, inside the loop over the
                # centres: only the pure types on points that are not three-dimensional (convert_cart_to_sph)
                if not (c["typ"] in ("pure", "pure-radial") and c["_shapes"][0][1:] != [3] and c["_tag"] == "value-error"):
                    ctx.fail("corr", "basegrid.moments:generated-guards", f"implementation {c['_tag']}, the translated guards accept ({a[:60]})", witness=wit)
            elif gt != c["_tag"]:
                ctx.fail("corr", "basegrid.moments:generated-guards", f"implementation {c['_tag']}, translated guards {gt}", witness=wit)
        seen = set()
        for c, a in zip(idx_cases, driver_batch(idx_lines)):
            if c["L"] in seen and ctx.rng.random() < 0.7:
                continue
            seen.add(c["L"])
            orders = np.array([list(map(int, r)) for r in _read_imat(Tokens(c["_orders_arr"][2:]))])
            ns = {"np": np, "all_orders": orders.copy()}
            exec(idx_src, ns)                                            # the very statements of the library
            lib = [int(x) for x in ns["indices"]]
            ref = [stacked.index([int(l), int(m)]) for _, l, m in orders]  # position in the library's Horton-2 list
            ctx.count(["gen-indices", c["L"]], nontrivial=c["L"] >= 2, tag="gen:indices")
            if a.strip() != "ok " + _ivec(lib) or lib != ref:
                ctx.fail("corr", "basegrid.moments:row-index:generated", f"L={c['L']}: index statements of the library give {lib[:12]}…, translated program {a[:60]}…, "
                         f"rows of (l,m) in the Horton-2 list {ref[:12]}…", witness=dict(L=c["L"]))
        # 3a'. the whole of Grid.moments as generated (Gen/MomentsNum.lean: the statements before the loop, the loop over the
        #      centres with every branch of the type, np.array(integrals).T, return_orders; defaults of the signature) on the
        #      same calls: values, order array, rejections
        for c, a in zip(gcases, driver_batch(flines)):
            wit = dict({k: c[k] for k in PUB_KEYS if k in c}, bad=c.get("_bad"))
            ctx.count(["gen-moments", wit], nontrivial=True, tag="gen:moments:" + (c.get("_bad") or (c["typ"] if c["_tag"] == "ok" else "reject")))
            t = Tokens(a)
            gt = t.tok()
            if gt != c["_tag"]:
                ctx.fail("corr", "basegrid.moments:generated", f"moments(L={c['L']}, {c['typ']}, {c.get('_bad', '')}): implementation {c['_tag']}, the translated function {a[:60]}", witness=wit)
                continue
            if gt != "ok" or "_vals" not in c:
                continue
            gvals = t.fmat()
            rest = " ".join(t.t[t.i:])
            if rest != ("0" if c["_ret"] in ("default", "0") else "1 " + c["_orders_arr"]):
                ctx.fail("corr", "basegrid.moments:generated:orders", f"order array / return_orders: implementation [{c['_orders_arr'][:50]}…] (return_orders {c['_ret']}), "
                         f"translated function [{rest[:50]}…]", witness=wit)
                continue
            if np.shape(gvals) != np.shape(c["_vals"]):
                ctx.fail("corr", "basegrid.moments:generated:shape", f"shape: implementation {np.shape(c['_vals'])}, translated function {np.shape(gvals)}", witness=wit)
                continue
            for k in range(len(gvals)):
                for ci in range(len(gvals[k])):
                    if not close(c["_vals"][k][ci], gvals[k][ci], rtol=1e-10, scale=c["_scale"][k][ci] + 1e-300, atol=c.get("atol", 0.0)):
                        ctx.fail("corr", f"basegrid.moments:generated:{c['typ']}", f"entry (row {k}, centre {ci}): implementation {c['_vals'][k][ci]!r}, translated function {gvals[k][ci]!r}",
                                 witness=dict(wit, row=k, centre=ci))
        degs = [(ty, L) for ty in TYPES for L in range(0, 7) if not (ty == "pure-radial" and L == 0)]
        for (ty, L), a in zip(degs, driver_batch([f"C14.gen-degree {_ivec(range(1 if ty == 'pure-radial' else 0, L + 1))}" for ty, L in degs])):
            ctx.count(["gen-degree", ty, L], nontrivial=False, tag="gen:degree")
            if a.strip() != f"ok {L}":
                ctx.fail("corr", "basegrid.moments:solid-degree", f"degree handed to solid_harmonics for L={L} ({ty}): translated expression gives {a}")
    with parts("points-1d"):
        # 3b. one-dimensional point arrays (OneDGrid, points of shape (N,))
        flat, lines = [], []
        for i in range(ctx.n(60, 1200)):
            ty = TYPES[i % 4] if i < 16 else ctx.rng.choice(["cartesian", "radial", "cartesian", "radial", "pure", "pure-radial"])
            n, nc, L = ctx.rng.randint(1, 10), ctx.rng.randint(1, 4), (i // 4 if i < 16 else ctx.rng.randint(0, 6))
            c = dict(typ=ty, L=L, pts=sorted(_r(ctx.rng.uniform(-1.5, 1.5)) for _ in range(n)), w=[_r(ctx.rng.uniform(-0.5, 1.5)) for _ in range(n)],
                     f=[_r(ctx.rng.uniform(-2, 2)) for _ in range(n)], cs=[[_r(ctx.rng.uniform(-1, 1))] for _ in range(nc)])
            if ctx.rng.random() < 0.2:
                c["cs"][0] = [c["pts"][0]]
            c["cdtype"] = "float64"
            if ctx.rng.random() < 0.15:
                c["cs"], c["cdtype"] = [[float(ctx.rng.randint(-1, 1))] for _ in range(nc)], ctx.rng.choice(["int64", "int32"])
            c["otype"] = ctx.rng.choice(["int"] * 3 + ["np.int32", "np.int64"])
            c["fdtype"] = ctx.rng.choice(["float64"] * 4 + ["float32", "int64"])
            if c["fdtype"] == "float32":
                c["f"] = [float(np.float32(x)) for x in c["f"]]
            elif c["fdtype"] == "int64":
                c["f"] = [float(ctx.rng.randint(-3, 4)) for _ in range(n)]
            c["twice"] = ctx.rng.random() < 0.3
            if ctx.rng.random() < 0.25:               # round 4, class 14: the arrays held by the OneDGrid object
                c["pdtype"], c["wdtype"] = ctx.rng.choice(["float32", "float64", "int64"]), ctx.rng.choice(["float32", "float64"])
                c["playout"], c["wlayout"] = ctx.rng.choice(GRID_LAYOUTS), ctx.rng.choice(GRID_LAYOUTS)
                if c["pdtype"] == "float32":
                    c["pts"] = sorted(set(float(np.float32(x)) for x in c["pts"]))
                elif c["pdtype"] == "int64":
                    c["pts"] = sorted(set(float(round(2 * x)) for x in c["pts"]))
                k_ = len(c["pts"])
                c["w"], c["f"] = c["w"][:k_], c["f"][:k_]
                if c["wdtype"] == "float32":
                    c["w"] = [float(np.float32(x)) for x in c["w"]]
            flat.append(c)
            lines.append(f"C14.moments-flat {ty} {L} {fvec(c['pts'])} {fvec(c['w'])} {fvec(c['f'])} {fmat(c['cs'])}")
        ans = driver_batch(lines)
        for c, a in zip(flat, ans):
            try:
                c1 = dict(c, w=c["w"], reuse_grid=False)
                vals, orders = call_moments(c1, bg.OneDGrid)
                impl = "ok"
            except IndexError:
                impl = "index-error"
            except ValueError:
                impl = "value-error"
            except Exception as e:
                impl = f"raised-{type(e).__name__}:{e}"
            ctx.count(["moments-flat", c], nontrivial=True, tag=f"moments:points-1d:{c['typ']}:" + ("ok" if impl == "ok" else "reject"))
            t = Tokens(a)
            if t.tok() != impl:
                ctx.fail("corr", "basegrid.moments:points-1d", f"OneDGrid.moments(L={c['L']}, {c['typ']}): implementation {impl}, model {a[:40]}", witness=c)
                continue
            if impl != "ok":
                continue
            mvals, morders = t.fmat(), _read_imat(t)
            orders = np.asarray(orders)
            orders = [[int(x) for x in row] for row in (orders.reshape(-1, 1) if orders.ndim == 1 else orders)]
            if orders != morders or np.shape(vals) != np.shape(mvals):
                ctx.fail("corr", "basegrid.moments:points-1d", f"orders/shape differ: implementation {orders} {np.shape(vals)}, model {morders} {np.shape(mvals)}", witness=c)
                continue
            for k, order in enumerate(orders):
                for ci, cen in enumerate(c["cs"]):
                    _, scale = direct(c["typ"], order, [[x] for x in c["pts"]], c["w"], c["f"], cen)
                    if not close(float(vals[k][ci]), mvals[k][ci], rtol=1e-10, scale=scale + 1e-300):
                        ctx.fail("corr", "basegrid.moments:points-1d", f"entry ({k}, {ci}): implementation {float(vals[k][ci])!r}, model {mvals[k][ci]!r}", witness=c)
    with parts("dipole"):
        # 4. dipole
        nd = ctx.n(40, 800)
        dcases, lines = [], []
        for _ in range(nd):
            na = ctx.rng.randint(1, 4)
            n = ctx.rng.randint(1, 15)
            d = dict(pts=[[_r(ctx.rng.uniform(-2, 2)) for _ in range(3)] for _ in range(n)],
                     w=[_r(ctx.rng.uniform(0.0, 1.5)) for _ in range(n)],
                     dens=[_r(ctx.rng.uniform(0.0, 2.0)) for _ in range(n)],
                     coords=[[_r(ctx.rng.uniform(-1.5, 1.5)) for _ in range(3)] for _ in range(na)],
                     charges=[ctx.rng.choice([ctx.rng.randint(1, 18), ctx.rng.randint(1, 82), 82, 1]) for _ in range(na)])
            d["masses"] = [float(ut.isotopic_masses[z]) for z in d["charges"]]
            # container kind / dtype of the arguments: lists and integer arrays are accepted by the helper
            d["container"] = ctx.rng.choice(["array"] * 3 + ["list", "int32-charges", "float-charges", "int-coords", "readonly", "keywords"])
            if d["container"] == "int-coords":
                d["coords"] = [[float(ctx.rng.randint(-2, 2)) for _ in range(3)] for _ in range(na)]
            d["twice"] = ctx.rng.random() < 0.3
            dcases.append(d)
            lines.append(f"C14.dipole 3 {fmat(d['pts'])} {fvec(d['w'])} {fvec(d['dens'])} {fmat(d['coords'])} {fvec(d['charges'])} {fvec(d['masses'])}")
        ans = driver_batch(lines)
        bg = importlib.import_module("grid.basegrid")
        for d, a in zip(dcases, ans):
            try:
                got = [float(x) for x in call_dipole(d, bg.Grid, ut.dipole_moment_of_molecule)]
            except Exception as e:
                ctx.fail("corr", "utils.dipole_moment_of_molecule", f"raised {type(e).__name__}: {e} (arguments given as {d['container']})", witness=d)
                continue
            ctx.count(["dipole", {k: d[k] for k in ("pts", "w", "dens", "coords", "charges", "container", "twice")}], nontrivial=len(d["charges"]) >= 2,
                      tag=f"dipole:{len(d['charges'])}atoms:{d['container']}")
            t = Tokens(a)
            if t.tok() != "ok":
                ctx.fail("corr", "utils.dipole_moment_of_molecule", f"model answered {a}", witness=d)
                continue
            mv = t.fvec()
            scale = sum(abs(z) for z in d["charges"]) * 4 + sum(abs(x * y) for x, y in zip(d["w"], d["dens"])) * 4
            if len(mv) != len(got) or not all(close(x, y, rtol=1e-11, scale=scale) for x, y in zip(got, mv)):
                ctx.fail("corr", "utils.dipole_moment_of_molecule", f"implementation {got}, model {mv}", witness=d)
            d["_got"], d["_scale"] = got, scale
        _corr_generated_rest(ctx, bg, ut, dcases)
    parts.finish()


def _corr_generated_rest(ctx: Ctx, bg, ut, dcases):
    """The other programs of Gen/MomentsNum.lean next to the implementation: the dipole helper (with the mass table as
    regenerated), the table itself entry by entry (bit-exact), Grid.integrate, MultiDomainGrid.moments."""
    rng = ctx.rng
    parts = _Parts(ctx, "corr")
    with parts("gen-dipole"):
        # 4a. dipole_moment_of_molecule as generated: masses come from the generated table, moments from the generated Grid.moments
        lines = [f"C14.gen-dipole {_ivec([len(d['pts']), 3])} {fmat(d['pts'])} {fvec(d['w'])} {fvec(d['dens'])} {fmat(d['coords'])} {_ivec(d['charges'])}" for d in dcases]
        for d, a in zip(dcases, driver_batch(lines)):
            if "_got" not in d:
                continue
            ctx.count(["gen-dipole", {k: d[k] for k in ("pts", "w", "dens", "coords", "charges")}], nontrivial=len(d["charges"]) >= 2, tag="gen:dipole")
            t = Tokens(a)
            if t.tok() != "ok":
                ctx.fail("corr", "utils.dipole_moment_of_molecule:generated", f"the translated function answered {a}", witness=d)
                continue
            mv = t.fvec()
            if len(mv) != len(d["_got"]) or not all(close(x, y, rtol=1e-11, scale=d["_scale"]) for x, y in zip(d["_got"], mv)):
                ctx.fail("corr", "utils.dipole_moment_of_molecule:generated", f"implementation {d['_got']}, translated function {mv}", witness=d)
    with parts("gen-masses"):
        # 4b. isotopic_masses: every key of the library's dictionary and the integers around its range
        keys = sorted(set(ut.isotopic_masses) | set(range(-2, max(ut.isotopic_masses) + 4)))
        for z, a in zip(keys, driver_batch([f"C14.gen-mass {z}" for z in keys])):
            want = ("ok " + f2b(ut.isotopic_masses[z])) if z in ut.isotopic_masses else "key-error"
            ctx.count(["gen-mass", z], nontrivial=z in ut.isotopic_masses, tag="gen:mass")
            if a.strip() != want:
                ctx.fail("corr", "utils.isotopic_masses:generated", f"isotopic_masses[{z}]: implementation {ut.isotopic_masses.get(z)!r} ({want}), regenerated table {a}", witness=dict(Z=z))
    with parts("gen-integrate"):
        # 4c. Grid.integrate: 0-4 arguments, arrays of the right / a wrong length, 2-D arrays, objects that are not arrays
        icases, lines = [], []
        for it in range(ctx.n(60, 600)):
            n = rng.randint(1, 8)
            w = [_r(rng.uniform(-0.5, 1.5)) for _ in range(n)]
            k = 0 if it % 15 == 14 else rng.randint(1, 4)
            args = []
            for _ in range(k):
                r = rng.random()
                if r < 0.8:
                    args.append(("nd", [n], [_r(rng.uniform(-2, 2)) for _ in range(n)]))
                elif r < 0.86:
                    m = rng.choice([n + 1, max(n - 1, 0)])
                    args.append(("nd", [m], [_r(rng.uniform(-2, 2)) for _ in range(m)]))
                elif r < 0.92:
                    args.append(("nd", [n, 1], [_r(rng.uniform(-2, 2)) for _ in range(n)]))
                elif r < 0.96:
                    args.append(("nd", [], [1.5]))                  # a 0-d array
                else:
                    args.append(("other", None, [_r(rng.uniform(-2, 2)) for _ in range(n)]))   # a Python list
            scale = rng.choice([1.0] * 4 + [1e-300, 1e-12, 1e12])
            if scale != 1.0 and args and args[0][0] == "nd":
                args[0] = ("nd", args[0][1], [x * scale for x in args[0][2]])
            icases.append(dict(w=w, args=args))
            lines.append(f"C14.gen-integrate {n} {fvec(w)} {k}" + "".join(" other" if a[0] == "other" else f" nd {_ivec(a[1])} {fvec(a[2])}" for a in args))
        for c, a in zip(icases, driver_batch(lines)):
            g = bg.Grid(np.zeros((len(c["w"]), 3)), np.array(c["w"]))
            pyargs = [list(x[2]) if x[0] == "other" else np.array(x[2], dtype=float).reshape(x[1]) for x in c["args"]]
            try:
                got, tag = float(g.integrate(*pyargs)), "ok"
            except ValueError:
                got, tag = None, "value-error"
            except TypeError:
                got, tag = None, "type-error"
            except Exception as e:
                got, tag = None, f"raised {type(e).__name__}: {e}"
            ctx.count(["gen-integrate", c], nontrivial=len(c["args"]) != 1, tag="gen:integrate:" + ("ok" if tag == "ok" else "reject"))
            t = Tokens(a)
            if t.tok() != tag:
                ctx.fail("corr", "basegrid.integrate:generated", f"Grid.integrate with {len(c['args'])} argument(s): implementation {tag}, translated function {a[:40]}", witness=c)
                continue
            if tag != "ok":
                continue
            gv = b2f(t.tok())
            terms = [wi * math.prod(x[2][i] for x in c["args"]) for i, wi in enumerate(c["w"])]
            want, sc = math.fsum(terms), math.fsum(abs(x) for x in terms)
            if not (close(got, gv, rtol=1e-12, scale=sc + 1e-300) and close(got, want, rtol=1e-12, scale=sc + 1e-300)):
                ctx.fail("corr", "basegrid.integrate:generated", f"implementation {got!r}, translated function {gv!r}, sum of w_i prod_k a_k[i] {want!r}", witness=c)
    with parts("gen-multidomain"):
        # 4d. MultiDomainGrid.moments: documented as not implemented
        try:
            ng = importlib.import_module("grid.ngrid")
            od = importlib.import_module("grid.onedgrid")
            md = ng.MultiDomainGrid([od.GaussLegendre(3), od.GaussLegendre(4)])
            calls = [("int", "default", "default", lambda: md.moments(1, np.zeros((1, 2)), np.ones(12))),
                     ("int", "radial", "1", lambda: md.moments(2, np.zeros((1, 2)), np.ones(12), type_mom="radial", return_orders=True)),
                     ("int", "pure", "0", lambda: md.moments(0, np.zeros((2, 2)), np.ones(12), "pure", False))]
            for (ot, ty, ret, call), a in zip(calls, driver_batch([f"C14.gen-multidomain {L} {ty} {ret}" for L, (_, ty, ret, _) in zip((1, 2, 0), calls)])):
                try:
                    call()
                    tag = "ok"
                except NotImplementedError:
                    tag = "not-implemented-error"
                except Exception as e:
                    tag = f"raised {type(e).__name__}: {e}"
                ctx.count(["gen-multidomain", ty, ret], nontrivial=False, tag="gen:multidomain")
                if a.strip() != tag:
                    ctx.fail("corr", "ngrid.MultiDomainGrid.moments:generated", f"implementation {tag}, translated function {a}")
        except ImportError:
            pass
    parts.finish()


SNIPPET = """import warnings; warnings.filterwarnings('ignore')
import numpy as np
from grid.basegrid import Grid
{ref_src}
{call_src}
case = {case!r}
vals, orders = call_moments(case, Grid)      # arguments in the dtype / layout / call form named by the case
orders = np.asarray(orders); orders = orders.reshape(-1, 1) if orders.ndim == 1 else orders
want_orders = ref_all_orders(case['L'], case['typ'], case['dim'])
assert [list(map(int, r)) for r in orders] == want_orders, f'order list {{orders.tolist()}} is not the documented Horton order {{want_orders}}'
for k, order in enumerate(want_orders):
    for ci, c in enumerate(case['cs']):
        want, scale = direct(case['typ'], order, case['pts'], case['w'], case['f'], c)
        assert abs(float(vals[k][ci]) - want) <= 1e-9 * (scale + 1e-300) + case.get('atol', 0.0), f'row {{k}} {{order}} centre {{ci}}: moments {{float(vals[k][ci])!r}}, direct quadrature {{want!r}}'
if case.get('unshifted'):      # translation invariance: the same grid and centres before the (exact) translation
    v0, _ = call_moments(dict(case, pts=case['unshifted']['pts'], cs=case['unshifted']['cs'], twice=False), Grid)
    for k, order in enumerate(want_orders):
        for ci, c in enumerate(case['cs']):
            _, scale = direct(case['typ'], order, case['pts'], case['w'], case['f'], c)
            assert abs(float(vals[k][ci]) - float(v0[k][ci])) <= 1e-12 * (scale + 1e-300), f'row {{k}} centre {{ci}}: {{float(vals[k][ci])!r}} after the translation, {{float(v0[k][ci])!r}} before'
"""

DIPOLE_SNIPPET = """import warnings; warnings.filterwarnings('ignore')
import math, numpy as np
from grid.basegrid import Grid
from grid.utils import dipole_moment_of_molecule
{call_src}
d = {d!r}
try:
    got = call_dipole(d, Grid, dipole_moment_of_molecule)
except AssertionError:
    raise
except Exception as e:
    raise AssertionError(f'dipole_moment_of_molecule raised {{type(e).__name__}}: {{e}}')
M = math.fsum(d['masses'])
C = [math.fsum(m * r[j] for m, r in zip(d['masses'], d['coords'])) / M for j in range(3)]
want = [math.fsum(z * (r[j] - C[j]) for z, r in zip(d['charges'], d['coords'])) - math.fsum(w * rho * (p[j] - C[j]) for w, rho, p in zip(d['w'], d['dens'], d['pts'])) for j in range(3)]
sc = 1 + (sum(d['charges']) + math.fsum(abs(a * b) for a, b in zip(d['w'], d['dens']))) * max(0.0, max(abs(x) for r in d['coords'] for x in r) - 2.0)
assert len(got) == 3 and all(abs(float(a) - b) <= 1e-9 * (sc + abs(b)) for a, b in zip(got, want)), f'dipole {{list(got)}}, nuclear minus electronic first moments {{want}}'
"""

REJECT_SRC = """
def rejected_call(g, case):
    \"\"\"a call that must end in an exception (round 4, class 18)\"\"\"
    kind = case['reject']
    cs, f, L, typ = np.array(case['cs'], dtype=float), np.array(case['f'], dtype=float), case['L'], case['typ']
    if kind == 'f-length':
        f = np.append(f, 1.0)
    elif kind == 'centre-dim':
        cs = np.hstack([cs, np.ones((len(cs), 1))])
    elif kind == 'pure-radial-0':
        typ, L = 'pure-radial', 0
    elif kind == 'unknown-type':
        typ = 'spherical'
    elif kind == 'orders-float':
        L = float(L)
    elif kind == 'f-2d':
        f = f.reshape(-1, 1)
    elif kind == 'centres-1d':
        cs = cs[0]
    elif kind == 'pure-dim':
        typ, L = 'pure', max(L, 1)
    return g.moments(L, cs, f, type_mom=typ, return_orders=True)
"""
exec("import numpy as np\n" + REJECT_SRC, _ns)
rejected_call = _ns["rejected_call"]

HISTORY_SNIPPET = """import warnings; warnings.filterwarnings('ignore')
import math, numpy as np
from grid.basegrid import Grid
{ref_src}
""" + REJECT_SRC.replace("{", "{{").replace("}", "}}") + """
history = {history!r}          # successive calls on ONE grid object
g = Grid(np.array(history[0]['pts'], dtype=float), np.array(history[0]['w'], dtype=float))
for step, case in enumerate(history):
    if case.get('reject'):
        try:
            rejected_call(g, case)
        except Exception:
            continue
        raise AssertionError(f'call {{step}}: a bad argument ({{case["reject"]}}) was accepted')
    vals, orders = g.moments(case['L'], np.array(case['cs'], dtype=float), np.array(case['f'], dtype=float), type_mom=case['typ'], return_orders=True)
    orders = np.asarray(orders); orders = orders.reshape(-1, 1) if orders.ndim == 1 else orders
    want_orders = ref_all_orders(case['L'], case['typ'], case['dim'])
    assert [list(map(int, r)) for r in orders] == want_orders, f'call {{step}}: order list {{orders.tolist()}} is not the documented Horton order'
    alt = g.moments(case['L'], np.array(case['cs'], dtype=float), np.array(case['f'], dtype=float), type_mom=case['typ'])
    assert isinstance(alt, np.ndarray) and alt.shape == np.shape(vals) and np.array_equal(alt, np.asarray(vals), equal_nan=True), f'call {{step}}: without return_orders the call returns a {{type(alt).__name__}} with other values than with it'
    i0, s0 = float(g.integrate(np.array(case['f'], dtype=float))), sum(abs(a * b) for a, b in zip(case['w'], case['f']))
    assert abs(i0 - math.fsum(a * b for a, b in zip(case['w'], case['f']))) <= 1e-9 * (s0 + 1e-300), f'call {{step}}: integrate(f) = {{i0!r}} is not sum w_i f_i'
    fresh = Grid(np.array(case['pts'], dtype=float), np.array(case['w'], dtype=float)).moments(case['L'], np.array(case['cs'], dtype=float), np.array(case['f'], dtype=float), type_mom=case['typ'])
    assert np.array_equal(np.asarray(fresh), np.asarray(vals), equal_nan=True), f'call {{step}}: the answer differs from the one of a fresh grid object'
    for k, order in enumerate(want_orders):
        for ci, c in enumerate(case['cs']):
            want, scale = direct(case['typ'], order, case['pts'], case['w'], case['f'], c)
            assert abs(float(vals[k][ci]) - want) <= 1e-9 * (scale + 1e-300), f'call {{step}} on the same grid object, row {{k}} {{order}} centre {{ci}}: moments {{float(vals[k][ci])!r}}, direct quadrature {{want!r}}'
"""


def _history_probe(ctx: Ctx, typ=None, dim=None, L=None):
    """State carried between calls: several calls on ONE grid object with overlapping arguments (same type, order and
    number of centres but other centres; same centres but other function values; another type in between; the first
    call again), every answer against direct quadrature."""
    bg = importlib.import_module("grid.basegrid")
    rng = ctx.rng
    c0 = _case(ctx, typ, dim, Lmax=3)
    if c0["typ"] in ("pure", "pure-radial") and c0["dim"] != 3:
        return                                   # rejected combination, nothing to integrate
    if L is not None:
        c0["L"] = L
    if c0["typ"] == "pure-radial" and c0["L"] == 0:
        c0["L"] = 1
    plain = dict(fdtype="float64", cdtype="float64", clayout="c", flayout="c", otype="int", call="kw", twice=False, reuse_grid=False, cs_is_points=False)
    c0.update(plain)
    n, d, nc = len(c0["pts"]), c0["dim"], len(c0["cs"])
    c0["f"] = [_r(rng.uniform(-2, 2)) for _ in range(n)]
    c1 = dict(c0, cs=[[_r(rng.uniform(-1, 1)) for _ in range(d)] for _ in range(nc)])
    c2 = dict(c0, f=[_r(rng.uniform(-2, 2)) for _ in range(n)])
    other = "radial" if c0["typ"] != "radial" else "cartesian"
    c3 = dict(c0, typ=other, L=c0["L"] + 1)
    # round 4, class 18: calls that end in an exception in between (bad argument of every kind) must leave no trace
    rej = lambda kind: dict(c0, reject=kind)
    kinds = ["f-length", "centre-dim", "pure-radial-0", "unknown-type", "orders-float", "f-2d", "centres-1d"]
    rng.shuffle(kinds)
    if c0["dim"] != 3:
        kinds.insert(0, "pure-dim")               # rejected inside the loop over the centres (convert_cart_to_sph)
    history = [c0, rej(kinds[0]), c1, rej(kinds[1]), rej(kinds[2]), c2, c3, rej(kinds[3]), c0]
    g = bg.Grid(np.array(c0["pts"], dtype=float), np.array(c0["w"], dtype=float))
    keep = ("typ", "L", "dim", "pts", "w", "f", "cs", "reject")
    history = [{k: h[k] for k in keep if k in h} for h in history]
    for step, c in enumerate(history):
        if c.get("reject"):
            try:
                rejected_call(g, c)
            except Exception:
                continue
            ctx.fail("oracle", f"basegrid.moments:{c['typ']}:accepts:{c['reject']}", f"a call with a bad argument ({c['reject']}) was accepted",
                     witness=dict(history=history[:step + 1]), snippet=HISTORY_SNIPPET.format(ref_src=REF_SRC, history=history[:step + 1]))
            return
        def report(what):
            ctx.fail("oracle", f"basegrid.moments:{c['typ']}:state", f"call {step} of a sequence of calls on one grid object ({[h['typ'] for h in history[:step + 1]]}): {what}",
                     witness=dict(history=history[:step + 1]), snippet=HISTORY_SNIPPET.format(ref_src=REF_SRC, history=history[:step + 1]))
        try:
            vals, orders = g.moments(c["L"], np.array(c["cs"], dtype=float), np.array(c["f"], dtype=float), type_mom=c["typ"], return_orders=True)
        except Exception as e:
            report(f"raised {type(e).__name__}: {e}")
            return
        orders = np.asarray(orders)
        orders = orders.reshape(-1, 1) if orders.ndim == 1 else orders
        want_orders = ref_all_orders(c["L"], c["typ"], c["dim"])
        if [list(map(int, r)) for r in orders] != want_orders or np.shape(vals) != (len(want_orders), len(c["cs"])):
            report(f"order list / shape differ: {np.shape(vals)} for {len(want_orders)} orders and {len(c['cs'])} centres")
            return
        # two option values alternating on one object, and another public method (integrate) in between
        try:
            alt = g.moments(c["L"], np.array(c["cs"], dtype=float), np.array(c["f"], dtype=float), type_mom=c["typ"])
            i0 = float(g.integrate(np.array(c["f"], dtype=float)))
        except Exception as e:
            report(f"moments without return_orders / integrate raised {type(e).__name__}: {e}")
            return
        if not (isinstance(alt, np.ndarray) and alt.shape == np.shape(vals) and np.array_equal(alt, np.asarray(vals), equal_nan=True)):
            report(f"the call without return_orders returns a {type(alt).__name__} with other values than the call with it")
            return
        if not close(i0, math.fsum(a * b for a, b in zip(c["w"], c["f"])), rtol=1e-9, scale=sum(abs(a * b) for a, b in zip(c["w"], c["f"])) + 1e-300):
            report(f"integrate(f) = {i0!r} is not sum w_i f_i")
            return
        try:
            fresh = bg.Grid(np.array(c["pts"], dtype=float), np.array(c["w"], dtype=float)).moments(
                c["L"], np.array(c["cs"], dtype=float), np.array(c["f"], dtype=float), type_mom=c["typ"])
        except Exception as e:
            report(f"the same call on a fresh grid object raised {type(e).__name__}: {e}")
            return
        if not np.array_equal(np.asarray(fresh), np.asarray(vals), equal_nan=True):
            report("after the earlier calls (accepted and rejected) the answer differs from the one of a fresh grid object")
            return
        for k, order in enumerate(want_orders):
            for ci, cen in enumerate(c["cs"]):
                want, scale = direct(c["typ"], order, c["pts"], c["w"], c["f"], cen)
                if not close(float(vals[k][ci]), want, rtol=1e-9, scale=scale + 1e-300):
                    report(f"row {k} {order} centre {ci}: moments gives {float(vals[k][ci])!r}, direct quadrature {want!r}")
                    return


def _oracle_dipole_case(ctx: Ctx, d):
    """dipole_moment_of_molecule on one molecule against nuclear minus electronic first moments about the centre of mass."""
    ut = importlib.import_module("grid.utils")
    bg = importlib.import_module("grid.basegrid")
    d = {k: v for k, v in d.items() if not k.startswith("_")}
    snip = DIPOLE_SNIPPET.format(d=d, call_src=DIPOLE_CALL_SRC)
    try:
        got = [float(x) for x in call_dipole(d, bg.Grid, ut.dipole_moment_of_molecule)]
    except Exception as e:
        ctx.fail("oracle", "utils.dipole_moment_of_molecule", f"raised {type(e).__name__}: {e} (arguments given as {d.get('container', 'array')})", witness=d, snippet=snip)
        return
    M = math.fsum(d["masses"])
    C = [math.fsum(m * r[j] for m, r in zip(d["masses"], d["coords"])) / M for j in range(3)]
    want = [math.fsum(z * (r[j] - C[j]) for z, r in zip(d["charges"], d["coords"]))
            - math.fsum(w * rho * (p[j] - C[j]) for w, rho, p in zip(d["w"], d["dens"], d["pts"])) for j in range(3)]
    far = max(abs(x) for r in d["coords"] for x in r)
    # as before for molecules near the origin; a molecule 2^k away: relative to the size of the terms Z |R|, w rho |p|
    sc = 1 + 40 + (sum(d["charges"]) + math.fsum(abs(a * b) for a, b in zip(d["w"], d["dens"]))) * max(0.0, far - 2.0)
    if len(got) != 3 or not all(close(a, b, rtol=1e-9, scale=abs(b) + sc) for a, b in zip(got, want)):
        ctx.fail("oracle", "utils.dipole_moment_of_molecule", f"dipole {got}, nuclear minus electronic first moments about the centre of mass {want}", witness=d, snippet=snip)


def oracle_at(ctx: Ctx, failure):
    """A correspondence disagreement -> the property itself at that input: the case alone on a fresh grid, and sequences of
    calls on one grid object with the same type / dimension / order (state carried between calls)."""
    w = failure.witness or {}
    if isinstance(w, dict) and {"pts", "w", "dens", "coords", "charges", "masses"} <= set(w):
        _oracle_dipole_case(ctx, w)                       # a disagreement on the dipole helper
        return
    if isinstance(w, dict) and set(w) == {"w", "args"} and all(a[0] == "nd" and a[1] == [len(w["w"])] for a in w["args"]) and w["args"]:
        terms = [wi * math.prod(a[2][i] for a in w["args"]) for i, wi in enumerate(w["w"])]
        arrays = [list(a[2]) for a in w["args"]]
        snip = INTEGRATE_SNIPPET.format(w=w["w"], arrays=arrays)
        try:
            got = float(importlib.import_module("grid.basegrid").Grid(np.zeros((len(w["w"]), 3)), np.array(w["w"])).integrate(*[np.array(a) for a in arrays]))
            if not close(got, math.fsum(terms), rtol=1e-12, scale=math.fsum(abs(t) for t in terms) + 1e-300):
                ctx.fail("oracle", "basegrid.integrate", f"integrate gives {got!r}, sum_i w_i prod_k a_k[i] = {math.fsum(terms)!r}", witness=w, snippet=snip)
        except Exception as e:
            ctx.fail("oracle", "basegrid.integrate", f"integrate raised {type(e).__name__}: {e}", witness=w, snippet=snip)
        return
    if not (isinstance(w, dict) and {"typ", "L", "dim", "pts", "w", "f", "cs"} <= set(w)):
        return
    c = {k: w[k] for k in PUB_KEYS if k in w}
    c["reuse_grid"] = False
    if not (c["typ"] in ("pure", "pure-radial") and c["dim"] != 3) and not (c["typ"] == "pure-radial" and c["L"] == 0) \
            and len(c["f"]) == len(c["pts"]) and all(len(x) == c["dim"] for x in c["cs"]):
        _oracle_case(ctx, c)
    for _ in range(6):
        _history_probe(ctx, c["typ"], c["dim"], c["L"])


# standard atomic weights (u), independent of the library's table; the library stores the
# mass of the most abundant isotope, so only a loose agreement is expected
_MASS_SANITY = {1: 1.008, 6: 12.011, 7: 14.007, 8: 15.999}
# most abundant isotopes (Audi & Wapstra), for spot checks of the table incl. its first and last entry
_MASS_SPOT = {1: 1.007825, 2: 4.002603, 6: 12.0, 7: 14.003074, 8: 15.994915, 9: 18.998403, 16: 31.972071, 26: 55.934942, 73: 180.947996, 74: 183.950933, 75: 186.955751, 79: 196.966552, 82: 207.976636}
# The whole table as transcribed from the source (after repair 5ffbd8c of the rows 73 / 74, which held the masses of
# 184-W / 187-Re): a *regression* reference for the entries without an independent value here — an edit of one entry
# is reported with the entry as the failing input.
_MASS_REFERENCE = {
    1: 1.007825, 2: 4.002603, 3: 7.016004, 4: 9.012182, 5: 11.009305, 6: 12.0, 7: 14.003074, 8: 15.994915,
    9: 18.998403, 10: 19.99244, 11: 22.98977, 12: 23.985042, 13: 26.981538, 14: 27.976927, 15: 30.973762, 16: 31.972071,
    17: 34.968853, 18: 39.962383, 19: 38.963707, 20: 39.962591, 21: 44.95591, 22: 47.947947, 23: 50.943964, 24: 51.940512,
    25: 54.93805, 26: 55.934942, 27: 58.9332, 28: 57.935348, 29: 62.929601, 30: 63.929147, 31: 68.925581, 32: 73.921178,
    33: 74.921596, 34: 79.916522, 35: 78.918338, 36: 83.911507, 37: 84.911789, 38: 87.905614, 39: 88.905848, 40: 89.904704,
    41: 92.906378, 42: 97.905408, 43: 97.907216, 44: 101.90435, 45: 102.905504, 46: 105.903483, 47: 106.905093, 48: 113.903358,
    49: 114.903878, 50: 119.902197, 51: 120.903818, 52: 129.906223, 53: 126.904468, 54: 131.904154, 55: 132.905447, 56: 137.905241,
    57: 138.906348, 58: 139.905434, 59: 140.907648, 60: 141.907719, 61: 144.912744, 62: 151.919728, 63: 152.921226, 64: 157.924101,
    65: 158.925343, 66: 161.926795, 67: 164.930319, 68: 165.93029, 69: 168.934211, 70: 173.938858, 71: 174.940768, 72: 179.946549,
    73: 180.947996, 74: 183.950933, 75: 186.955751, 76: 191.961479, 77: 192.962924, 78: 194.964774, 79: 196.966552, 80: 201.970626,
    81: 204.974412, 82: 207.976636,
}
# standard atomic weights of H … Pb (typed independently of the library's table); the mass of a naturally occurring
# isotope lies within 2.5 % of it (largest observed deviation of the pinned table: Zn-64, 2.2 %)
_STD_WEIGHTS = [1.008, 4.0026, 6.94, 9.0122, 10.81, 12.011, 14.007, 15.999, 18.998, 20.180, 22.990, 24.305, 26.982, 28.085, 30.974, 32.06,
                35.45, 39.948, 39.098, 40.078, 44.956, 47.867, 50.942, 51.996, 54.938, 55.845, 58.933, 58.693, 63.546, 65.38, 69.723, 72.630,
                74.922, 78.971, 79.904, 83.798, 85.468, 87.62, 88.906, 91.224, 92.906, 95.95, 98.0, 101.07, 102.91, 106.42, 107.87, 112.41,
                114.82, 118.71, 121.76, 127.60, 126.90, 131.29, 132.91, 137.33, 138.91, 140.12, 140.91, 144.24, 145.0, 150.36, 151.96, 157.25,
                158.93, 162.50, 164.93, 167.26, 168.93, 173.05, 174.97, 178.49, 180.95, 183.84, 186.21, 190.23, 192.22, 195.08, 196.97, 200.59,
                204.38, 207.2]


def _oracle_case(ctx: Ctx, c):
    """One case against direct quadrature with independently coded basis functions."""
    pub = {k: c[k] for k in PUB_KEYS if k in c}
    pub["reuse_grid"] = False
    key = f"basegrid.moments:{c['typ']}" + (f":dim{c['dim']}" if c["dim"] != 3 else "")
    snip = SNIPPET.format(ref_src=REF_SRC, call_src=CALL_SRC, case=pub)
    try:
        tag, vals, orders = _impl_moments(c)
    except Exception as e:
        ctx.fail("oracle", key, f"moments raised {type(e).__name__}: {e}", witness=pub, snippet=snip)
        return
    if tag != "ok":
        ctx.fail("oracle", key, f"moments(L={c['L']}, {c['typ']}, dim={c['dim']}) raised {tag}", witness=pub, snippet=snip)
        return
    want_orders = ref_all_orders(c["L"], c["typ"], c["dim"])
    if orders != want_orders:
        ctx.fail("oracle", key + ":orders", f"returned order list {orders[:6]}… is not the documented Horton order {want_orders[:6]}…", witness=pub, snippet=snip)
        return
    if np.shape(vals) != (len(want_orders), len(c["cs"])):
        ctx.fail("oracle", key + ":shape", f"result has shape {np.shape(vals)}, expected {(len(want_orders), len(c['cs']))}", witness=pub, snippet=snip)
        return
    bad = None
    for k, order in enumerate(want_orders):
        for ci, cen in enumerate(c["cs"]):
            want, scale = direct(c["typ"], order, c["pts"], c["w"], c["f"], cen)
            if not close(vals[k][ci], want, rtol=1e-9, scale=scale + 1e-300, atol=c.get("atol", 0.0)):
                bad = bad or (k, order, ci, vals[k][ci], want)
    if bad:
        ctx.fail("oracle", key, f"row {bad[0]} (order {bad[1]}), centre {bad[2]}: moments gives {bad[3]!r}, direct quadrature of the defining integrand {bad[4]!r}",
                 witness=dict(pub, row=bad[0], order=bad[1], centre=bad[2], got=bad[3], want=bad[4]), snippet=snip)
        return
    if c.get("unshifted"):
        # translation invariance (exactly representable shift): the untranslated grid and centres give the same moments
        c0 = dict(c, pts=c["unshifted"]["pts"], cs=c["unshifted"]["cs"], twice=False, reuse_grid=False)
        tag0, v0, _ = _impl_moments(c0)
        if tag0 != "ok":
            ctx.fail("oracle", key + ":translated", f"the untranslated call raised {tag0}", witness=pub, snippet=snip)
            return
        for k, order in enumerate(want_orders):
            for ci, cen in enumerate(c["cs"]):
                _, scale = direct(c["typ"], order, c["pts"], c["w"], c["f"], cen)
                if not close(vals[k][ci], v0[k][ci], rtol=1e-12, scale=scale + 1e-300):
                    ctx.fail("oracle", key + ":translated", f"row {k} (order {order}), centre {ci}: {vals[k][ci]!r} on the grid translated by {c['extreme']}, "
                             f"{v0[k][ci]!r} before the translation", witness=dict(pub, row=k, centre=ci), snippet=snip)
                    return

# ----------------------------------------------------------------------------------------
# round 3, class 12: grids whose public `points` is derived from what they store (off-origin / rotated / single-shell
# AtomGrid, MolGrid, LocalGrid, wrapped PeriodicGrid incl. a negative 1-D lattice vector, UniformGrid with negative
# axes in 2-D and 3-D, Tensor1DGrids, OneDGrid), with centres on special points: the grid's own centre, the Cartesian
# origin, a grid point, a point of a shell.  Every entry against direct quadrature over grid.points / grid.weights.
# ----------------------------------------------------------------------------------------
LIBGRID_PRELUDE = """import warnings; warnings.filterwarnings('ignore')
import numpy as np
from grid.basegrid import Grid, OneDGrid, LocalGrid
from grid.onedgrid import GaussLegendre, GaussChebyshev
from grid.rtransform import BeckeRTransform
from grid.atomgrid import AtomGrid
from grid.molgrid import MolGrid
from grid.becke import BeckeWeights
from grid.periodicgrid import PeriodicGrid
from grid.cubic import UniformGrid, Tensor1DGrids
rg = BeckeRTransform(1e-3, 1.5).transform_1d_grid(GaussLegendre(5))
rg1 = OneDGrid(np.array([0.75]), np.array([0.4]), (0, np.inf))      # a single radial shell
def smooth(P):
    Q = np.asarray(P, dtype=float).reshape(len(P), -1)
    Q = Q - Q.mean(axis=0)
    return np.exp(-0.3 * np.sum(Q * Q, axis=1)) * (1.0 + 0.5 * Q[:, 0])
"""

LIBGRID_SNIPPET = """{prelude}
{ref_src}
g = {expr}
P = np.asarray(g.points, dtype=float); P2 = P.reshape(len(P), -1); W = np.asarray(g.weights, dtype=float)
fv = smooth(P)
cs, typ, L = {cs!r}, {typ!r}, {L}
vals, orders = g.moments(L, np.array(cs, dtype=float), fv, type_mom=typ, return_orders=True)
orders = np.asarray(orders); orders = orders.reshape(-1, 1) if orders.ndim == 1 else orders
want_orders = ref_all_orders(L, typ, P2.shape[1])
assert [list(map(int, r)) for r in orders] == want_orders, orders.tolist()
assert np.shape(vals) == (len(want_orders), len(cs)), np.shape(vals)
for k, order in enumerate(want_orders):
    for ci, c in enumerate(cs):
        want, scale = direct(typ, order, P2.tolist(), W.tolist(), fv.tolist(), c)
        assert abs(float(vals[k][ci]) - want) <= 1e-9 * (scale + 1e-300), f'row {{k}} {{order}} centre {{ci}}: moments {{float(vals[k][ci])!r}}, direct quadrature over grid.points {{want!r}}'
assert abs(float(g.integrate(fv)) - float(np.asarray(g.moments(0, np.array(cs[:1], dtype=float), fv, type_mom='radial'))[0][0])) <= 1e-9 * float(np.sum(np.abs(W * fv)))
"""


def _library_grids(ctx: Ctx, budget: str):
    rng = ctx.rng
    ns = {}
    exec(LIBGRID_PRELUDE, ns)
    v3 = lambda a, b: [_r(rng.uniform(a, b)) for _ in range(3)]
    ctr = v3(-1.5, 1.5)
    rot = rng.randrange(1, 1000)
    pts = [v3(-1.5, 1.5) for _ in range(rng.randint(4, 9))]
    w = [_r(rng.uniform(-0.5, 1.5)) for _ in pts]
    c_loc = v3(-0.5, 0.5)
    vecs = [[1.5, 0.0, 0.0], [0.25, -1.25, 0.0], [0.0, 0.5, -2.0]]
    pts1 = [_r(rng.uniform(-3, 3)) for _ in range(rng.randint(2, 7))]
    axes = [[-0.5, 0.0, 0.125], [0.0, -0.25, 0.0], [0.0, 0.125, 0.75 * rng.choice([-1, 1])]]
    grids = [
        ("AtomGrid off-origin, rotated", f"AtomGrid(rg, degrees=[5], center=np.array({ctr}), rotate={rot})", [ctr]),
        ("AtomGrid with a single shell", f"AtomGrid(rg1, degrees=[3], center=np.array({ctr}))", [ctr, [ctr[0], ctr[1], ctr[2] + 0.75]]),
        ("MolGrid of two off-origin atoms", f"MolGrid(np.array([1, 8]), [AtomGrid(rg, degrees=[5], center=np.array({ctr}), rotate={rot}), "
         f"AtomGrid(rg, degrees=[3], center=-np.array({ctr}))], BeckeWeights(order=3), store={bool(rng.randrange(2))})", [ctr, [-x for x in ctr]]),
        ("LocalGrid of a Grid", f"Grid(np.array({pts}), np.array({w})).get_localgrid(np.array({c_loc}), 1.75)", [c_loc]),
        ("LocalGrid of a Grid, infinite radius", f"Grid(np.array({pts}), np.array({w})).get_localgrid(np.array({c_loc}), np.inf)", [c_loc]),
        ("LocalGrid of an off-origin AtomGrid", f"AtomGrid(rg, degrees=[5], center=np.array({ctr})).get_localgrid(np.array({ctr}) + 0.25, 1.5)",
         [ctr, [x + 0.25 for x in ctr]]),
        ("PeriodicGrid, wrapped", f"PeriodicGrid(np.array({[[x * 3 for x in p_] for p_ in pts]}), np.array({w}), np.array({vecs}), wrap=True)", []),
        ("PeriodicGrid in one dimension, negative lattice vector", f"PeriodicGrid(np.array({pts1}), np.array({w[:len(pts1)] + [0.5] * max(0, len(pts1) - len(w))}), np.array([-1.5]), wrap=True)", []),
        ("UniformGrid with negative axes", f"UniformGrid(np.array({v3(-1, 1)}), np.array({axes}), np.array([3, 2, 4]), weight='Trapezoid')", []),
        ("UniformGrid in two dimensions, negative axes", f"UniformGrid(np.array([0.5, -0.25]), np.array([[-0.5, 0.125], [0.0, -0.75]]), np.array([3, 4]), weight='Rectangle')", []),
        ("Tensor1DGrids", "Tensor1DGrids(GaussLegendre(3), GaussChebyshev(2), GaussLegendre(2))", []),
        ("GaussChebyshev (OneDGrid)", "GaussChebyshev(5)", []),
        ("Grid of one point", f"Grid(np.array([{ctr}]), np.array([0.7]))", [ctr]),
        # round 5, class 22: a descending radial grid (as decreasing transforms produce them), unsorted degrees
        ("AtomGrid on a descending radial grid", f"AtomGrid(OneDGrid(rg.points[::-1].copy(), rg.weights[::-1].copy(), (0, np.inf)), degrees=[3, 7, 3, 5, 3], center=np.array({ctr}))", [ctr]),
        ("reversed GaussChebyshev (OneDGrid)", "OneDGrid(GaussChebyshev(6).points[::-1].copy(), GaussChebyshev(6).weights[::-1].copy())", []),
    ]
    for name, expr, special in grids:
        try:
            g = eval(expr, ns)
        except ImportError:
            continue
        except Exception as e:
            ctx.fail("oracle", "basegrid.moments:library-grid:build", f"{name}: construction raised {type(e).__name__}: {e}", witness=dict(grid=expr))
            continue
        P = np.asarray(g.points, dtype=float)
        P2, W = P.reshape(len(P), -1), np.asarray(g.weights, dtype=float)
        dim = P2.shape[1]
        fv = ns["smooth"](P)
        cs = [[_r(rng.uniform(-1, 1)) for _ in range(dim)], [0.0] * dim, P2[rng.randrange(len(P2))].tolist()] + [list(c) for c in special]
        for ty in (TYPES if dim == 3 else TYPES[:2]):
            L = 2 if ty != "cartesian" or len(P2) < 200 else 1
            key = f"basegrid.moments:{ty}:{type(g).__name__}"
            snip = LIBGRID_SNIPPET.format(prelude=LIBGRID_PRELUDE, ref_src=REF_SRC, expr=expr, cs=cs, typ=ty, L=L)
            wit = dict(grid=expr, type_mom=ty, orders=L, centers=cs)
            ctx.tagc(f"oracle:moments:derived-points:{type(g).__name__}")
            try:
                vals, orders = g.moments(L, np.array(cs, dtype=float), fv, type_mom=ty, return_orders=True)
                i0 = float(g.integrate(fv))
                m0 = float(np.asarray(g.moments(0, np.array(cs[:1], dtype=float), fv, type_mom="radial"))[0][0])
            except Exception as e:
                ctx.fail("oracle", key, f"{name}: moments raised {type(e).__name__}: {e}", witness=wit, snippet=snip)
                continue
            orders = np.asarray(orders)
            orders = [[int(x) for x in r] for r in (orders.reshape(-1, 1) if orders.ndim == 1 else orders)]
            want_orders = ref_all_orders(L, ty, dim)
            if orders != want_orders or np.shape(vals) != (len(want_orders), len(cs)):
                ctx.fail("oracle", key + ":orders", f"{name}: order list / shape {np.shape(vals)}", witness=wit, snippet=snip)
                continue
            if not close(i0, m0, rtol=1e-9, scale=float(np.sum(np.abs(W * fv)))):
                ctx.fail("oracle", key + ":integrate", f"{name}: integrate(f) = {i0!r} but the zeroth radial moment is {m0!r}", witness=wit, snippet=snip)
            bad = None
            for k, order in enumerate(want_orders):
                for ci, cen in enumerate(cs):
                    want, scale = direct(ty, order, P2.tolist(), W.tolist(), fv.tolist(), cen)
                    if not close(float(vals[k][ci]), want, rtol=1e-9, scale=scale + 1e-300):
                        bad = bad or (k, order, ci, float(vals[k][ci]), want)
            if bad:
                ctx.fail("oracle", key, f"{name}: row {bad[0]} {bad[1]} centre {bad[2]} ({cs[bad[2]]}): {bad[3]!r} vs direct quadrature over grid.points {bad[4]!r}",
                         witness=dict(wit, row=bad[0], centre=bad[2]), snippet=snip)


INTEGRATE_SNIPPET = """import warnings; warnings.filterwarnings('ignore')
import math, numpy as np
from grid.basegrid import Grid
w, arrays = {w!r}, {arrays!r}
g = Grid(np.zeros((len(w), 3)), np.array(w))
got = float(g.integrate(*[np.array(a) for a in arrays]))
terms = [wi * math.prod(a[i] for a in arrays) for i, wi in enumerate(w)]
assert abs(got - math.fsum(terms)) <= 1e-12 * (math.fsum(abs(t) for t in terms) + 1e-300), (got, math.fsum(terms))
"""

MULTIDOMAIN_SNIPPET = """import warnings; warnings.filterwarnings('ignore')
import math, itertools, numpy as np
from grid.basegrid import OneDGrid
from grid.ngrid import MultiDomainGrid
x, wx, y, wy, L, c = {x!r}, {wx!r}, {y!r}, {wy!r}, {L}, {c!r}
md = MultiDomainGrid([OneDGrid(np.array(x), np.array(wx)), OneDGrid(np.array(y), np.array(wy))])
f = [math.exp(-a * a - 0.5 * b * b) * (1 + a) for a, b in itertools.product(x, y)]
try:
    vals, orders = md.moments(L, np.array([c]), np.array(f), type_mom='cartesian', return_orders=True)
except NotImplementedError:
    raise SystemExit(0)          # documented: not implemented for multi-domain grids
orders = [[int(v) for v in r] for r in np.asarray(orders)]
assert orders == [[a, l - a] for l in range(L + 1) for a in range(l, -1, -1)], orders
for k, (a, b) in enumerate(orders):
    want = math.fsum(u * v * fv * (p - c[0]) ** a * (q - c[1]) ** b for ((p, u), (q, v)), fv in zip(itertools.product(zip(x, wx), zip(y, wy)), f))
    assert abs(float(vals[k][0]) - want) <= 1e-9 * (1 + abs(want)), f'row {{k}} ({{a}}, {{b}}): {{float(vals[k][0])!r}}, direct quadrature over the product grid {{want!r}}'
"""


def _underflow_info(ctx: Ctx):
    """Outside the claim (DESIGN 3: overflow / underflow paths are not modelled), recorded as an info line: a grid point about
    1e-160 straight above a centre — r^2 underflows in convert_cart_to_sph, z/r > 1, arccos gives nan — makes the pure
    moments of order >= 1 nan; between 1e-155 and 1e-162 the pure types lose accuracy.  Not a violation, never a failure."""
    try:
        bg = importlib.import_module("grid.basegrid")
        v = np.asarray(bg.Grid(np.array([[0.0, 0.0, 1e-160]]), np.array([1.0])).moments(1, np.zeros((1, 3)), np.array([1.0]), type_mom="pure"), dtype=float).ravel()
        ctx.info("outside the claim (underflow of r^2, DESIGN 3): Grid([[0,0,1e-160]],[1.]).moments(1, zeros((1,3)), [1.], 'pure') = "
                 f"{v.tolist()} (exact: [1, 1e-160, 0, 0]); separations 1e-155 … 1e-162 from a centre are not generated")
    except Exception as e:
        ctx.info(f"underflow probe raised {type(e).__name__}: {e}")

# ----------------------------------------------------------------------------------------
# round 4, class 16 (+ 12 / 19): ONE function-value array object — a float64 view into a larger caller array — handed to
# every entry point in turn on a lattice grid with centres exactly on grid points: all four moment types (twice, in two
# orders), integrate(f), integrate(f, f), moments with the grid's own weights array as f and its own points array as
# centres, the dipole helper with the same array as the density.  Every answer against a reference computed from a
# pristine copy; afterwards the array, the bytes around the view, the centres and the grid are unchanged.
# ----------------------------------------------------------------------------------------
SHARED_SRC = """
def shared_scenario(data, Grid, dipole_moment_of_molecule):
    pts, w, fvals, cs = data['pts'], data['w'], data['f'], data['cs']
    n = len(pts)
    big = np.full(n + 7, 12345.678)
    big[3:3 + n] = fvals
    big0 = big.copy()
    f = big[3:3 + n]                                   # the caller's view: np.asarray(f) is f itself
    centers = np.array(cs, dtype=float)
    g = Grid(np.array(pts, dtype=float), np.array(w, dtype=float))
    def unchanged(where):
        assert np.array_equal(big, big0), f'{where}: the function-value array of the caller (or the bytes around the view) was modified: {big.tolist()} instead of {big0.tolist()}'
        assert np.array_equal(centers, np.array(cs, dtype=float)), f'{where}: the centres were modified'
        assert np.array_equal(np.asarray(g.points), np.array(pts, dtype=float)) and np.array_equal(np.asarray(g.weights), np.array(w, dtype=float)), f'{where}: the grid was modified'
    def check(typ, L, farr, flist, carr, clist, where):
        vals, orders = g.moments(L, carr, farr, type_mom=typ, return_orders=True)
        orders = np.asarray(orders); orders = orders.reshape(-1, 1) if orders.ndim == 1 else orders
        want_orders = ref_all_orders(L, typ, len(pts[0]))
        assert [list(map(int, r)) for r in orders] == want_orders, f'{where}: order list {orders.tolist()}'
        assert np.shape(vals) == (len(want_orders), len(clist)), f'{where}: shape {np.shape(vals)}'
        for k, order in enumerate(want_orders):
            for ci, c in enumerate(clist):
                want, scale = direct(typ, order, pts, w, flist, c)
                got = float(vals[k][ci])
                assert got == got and abs(got - want) <= 1e-9 * (scale + 1e-300), f'{where}: {typ} row {k} {order} centre {ci} {c}: moments {got!r}, direct quadrature {want!r}'
    types = data['types']
    for rnd, seq in enumerate((types, types[::-1])):
        for typ in seq:
            check(typ, data['L'] if typ != 'pure-radial' else max(1, data['L']), f, fvals, centers, cs, f'pass {rnd}, same f array, {typ}')
            unchanged(f'after {typ} (pass {rnd})')
    i1 = float(g.integrate(f)); unchanged('after integrate(f)')
    t1 = [a * b for a, b in zip(w, fvals)]
    assert abs(i1 - math.fsum(t1)) <= 1e-12 * (math.fsum(map(abs, t1)) + 1e-300), f'integrate(f) = {i1!r}, sum w f = {math.fsum(t1)!r}'
    i2 = float(g.integrate(f, f)); unchanged('after integrate(f, f)')
    t2 = [a * b * b for a, b in zip(w, fvals)]
    assert abs(i2 - math.fsum(t2)) <= 1e-12 * (math.fsum(map(abs, t2)) + 1e-300), f'integrate(f, f) with one array object twice = {i2!r}, sum w f^2 = {math.fsum(t2)!r}'
    for typ in types:                                   # the grid's own arrays as arguments
        check(typ, 1, g.weights, w, g.points, pts, f'f is grid.weights, centres are grid.points, {typ}')
        unchanged(f'after {typ} with the own arrays of the grid')
    if len(pts[0]) == 3:
        dens = np.abs(f)                                 # a new array; the same object for both calls below
        d1 = dipole_moment_of_molecule(g, dens, np.array(data['coords']), np.array(data['charges']))
        d2 = dipole_moment_of_molecule(g, dens, np.array(data['coords']), np.array(data['charges']))
        assert np.array_equal(np.asarray(d1), np.asarray(d2)), f'the dipole helper answered {list(d1)} and then {list(d2)} for the same density array'
        assert np.array_equal(dens, np.abs(np.array(fvals))), 'the dipole helper modified the density array'
        check('cartesian', 1, dens, [abs(x) for x in fvals], centers, cs, 'cartesian moments of the density array after the dipole helper')
        unchanged('after the dipole helper')
"""
exec(SHARED_SRC, _ns)
_ns["math"] = math
shared_scenario = _ns["shared_scenario"]

SHARED_SNIPPET = """import warnings; warnings.filterwarnings('ignore')
import math, numpy as np
from grid.basegrid import Grid
from grid.utils import dipole_moment_of_molecule
{ref_src}
{shared_src}
shared_scenario({data!r}, Grid, dipole_moment_of_molecule)
"""


def _oracle_shared_args(ctx: Ctx, budget: str):
    ut = importlib.import_module("grid.utils")
    bg = importlib.import_module("grid.basegrid")
    for it in range(3 if budget == "small" else 30):
        dim = (3, 3, 2, 1)[(it + ctx.seed) % 4] if it else 3
        c = _lattice_case(ctx, "cartesian", dim, ctx.rng.randint(1, 3))
        data = dict(pts=c["pts"], w=c["w"], f=c["f"], cs=c["cs"], L=c["L"], types=TYPES if dim == 3 else TYPES[:2],
                    coords=[[_r(ctx.rng.uniform(-1, 1)) for _ in range(3)] for _ in range(2)], charges=[ctx.rng.randint(1, 82), ctx.rng.randint(1, 82)])
        ctx.tagc(f"oracle:shared-arguments:dim{dim}")
        try:
            shared_scenario(data, bg.Grid, ut.dipole_moment_of_molecule)
        except AssertionError as e:
            ctx.fail("oracle", "basegrid.moments:shared-arguments", str(e)[:600], witness=data,
                     snippet=SHARED_SNIPPET.format(ref_src=REF_SRC, shared_src=SHARED_SRC, data=data))
        except Exception as e:
            ctx.fail("oracle", "basegrid.moments:shared-arguments", f"raised {type(e).__name__}: {e}", witness=data,
                     snippet=SHARED_SNIPPET.format(ref_src=REF_SRC, shared_src=SHARED_SRC, data=data))


# round 4, class 17: kinds of function values — complex data (the moments are linear: real and imaginary part are the
# moments of the real and imaginary parts), Python-complex-valued object-free arrays, longdouble; integrate likewise.
VALUEKIND_SNIPPET = """import warnings; warnings.filterwarnings('ignore')
import math, numpy as np
from grid.basegrid import Grid
{ref_src}
pts, w, fr, fi, cs, typ, L, kind = {pts!r}, {w!r}, {fr!r}, {fi!r}, {cs!r}, {typ!r}, {L}, {kind!r}
f = (np.array(fr) + 1j * np.array(fi)).astype(kind) if kind.startswith('complex') else np.array(fr).astype(kind)
g = Grid(np.array(pts), np.array(w))
vals = np.asarray(g.moments(L, np.array(cs), f, type_mom=typ))
for k, order in enumerate(ref_all_orders(L, typ, len(pts[0]))):
    for ci, c in enumerate(cs):
        for part, fl in (('real', fr), ('imag', fi)):
            want, scale = direct(typ, order, pts, w, fl, c)
            got = float(getattr(vals[k][ci], part))
            assert abs(got - want) <= 1e-9 * (scale + 1e-300), f'{{part}} part of row {{k}} {{order}} centre {{ci}}: {{got!r}}, direct quadrature {{want!r}}'
i0 = complex(g.integrate(f))
for part, fl in (('real', fr), ('imag', fi)):
    t = [a * b for a, b in zip(w, fl)]
    assert abs(getattr(i0, part) - math.fsum(t)) <= 1e-9 * (math.fsum(map(abs, t)) + 1e-300), f'integrate: {{part}} part {{getattr(i0, part)!r}}, sum w f = {{math.fsum(t)!r}}'
"""


def _oracle_value_kinds(ctx: Ctx, budget: str):
    bg = importlib.import_module("grid.basegrid")
    rng = ctx.rng
    for it in range(8 if budget == "small" else 80):
        typ = TYPES[it % 4]
        kind = ("complex128", "complex64", "complex128", "longdouble")[(it // 4 + ctx.seed) % 4]
        n, nc, L = rng.randint(1, 7), rng.randint(1, 3), rng.randint(1, 3)
        cast = (lambda x: float(np.float32(x))) if kind == "complex64" else float
        d = dict(pts=[[_r(rng.uniform(-1.5, 1.5)) for _ in range(3)] for _ in range(n)], w=[_r(rng.uniform(-0.5, 1.5)) for _ in range(n)],
                 fr=[cast(_r(rng.uniform(-2, 2))) for _ in range(n)], fi=[cast(_r(rng.uniform(-2, 2))) if kind.startswith("complex") else 0.0 for _ in range(n)],
                 cs=[[_r(rng.uniform(-1, 1)) for _ in range(3)] for _ in range(nc)], typ=typ, L=L, kind=kind)
        if rng.random() < 0.3:
            d["cs"][0] = list(d["pts"][0])
        ctx.tagc(f"oracle:value-kind:{kind}")
        snip = VALUEKIND_SNIPPET.format(ref_src=REF_SRC, **d)
        try:
            exec(snip, {})
        except AssertionError as e:
            ctx.fail("oracle", f"basegrid.moments:{typ}:{kind}", str(e)[:500], witness=d, snippet=snip)
        except Exception as e:
            ctx.fail("oracle", f"basegrid.moments:{typ}:{kind}", f"function values of kind {kind}: raised {type(e).__name__}: {e}", witness=d, snippet=snip)

# ----------------------------------------------------------------------------------------
# round 5, class 21: sizes past every plausible block / chunk boundary.  Plain Grid / OneDGrid with synthetic points
# (regenerated from an integer seed, so the replay is self-contained) of sizes that are no multiple of 2^k or
# {1,2,5}*10^k and lie just above such values, for every moment type, integrate and the dipole helper.  Two references:
# (a) a vectorised per-point evaluation of the defining integrand with independently coded closed forms (orders <= 2),
# (b) additivity: the moments of the whole grid are the sum of the moments of the two parts of an uneven split.
# ----------------------------------------------------------------------------------------
LARGE_SRC = """
def big_data(seed, n, dim):
    rs = np.random.default_rng(seed)
    pts = rs.uniform(-1.5, 1.5, (n, dim))
    w = rs.uniform(0.2, 1.2, n)
    f = rs.uniform(0.5, 2.0, n) * rs.choice([-1.0, 1.0, 1.0], n)
    f[-1], f[-2], f[n // 2] = 37.0, -23.0, 11.0          # the last points carry weight
    return pts, w, f
def ref_rows(typ, L, dim):
    if typ == 'cartesian':
        return [list(c) for l in range(L + 1) for c in sorted([c for c in itertools.product(range(l + 1), repeat=dim) if sum(c) == l], reverse=True)]
    if typ == 'radial':
        return [[l] for l in range(L + 1)]
    ms = lambda l: [0] + [s_ * x for x in range(1, l + 1) for s_ in (1, -1)]
    if typ == 'pure':
        return [[l, m] for l in range(L + 1) for m in ms(l)]
    return [[n, l, m] for n in range(1, L + 1) for l in range(n) for m in ms(l)]
def solid_vec(l, m, d):
    x, y, z = d[:, 0], d[:, 1], d[:, 2]
    r2 = x * x + y * y + z * z
    s3 = math.sqrt(3.0)
    if l == 0: return np.ones(len(d))
    if l == 1: return {0: z, 1: x, -1: y}[m]
    return {0: (3 * z * z - r2) / 2, 1: s3 * x * z, -1: s3 * y * z, 2: s3 / 2 * (x * x - y * y), -2: s3 * x * y}[m]
def basis_vec(typ, order, d):
    \"\"\"-> (basis function at every centred point, its magnitude bound) for orders <= 2\"\"\"
    if typ == 'cartesian':
        b = np.ones(len(d))
        for j, e in enumerate(order):
            for _ in range(int(e)):
                b = b * d[:, j]
        return b, np.abs(b)
    r = np.sqrt(np.sum(d * d, axis=1))
    if typ == 'radial':
        return r ** int(order[0]), r ** int(order[0])
    if typ == 'pure':
        return solid_vec(order[0], order[1], d), r ** int(order[0])
    return r ** int(order[0]) * solid_vec(order[1], order[2], d), r ** int(order[0] + order[1])
def large_check(data, Grid, OneDGrid):
    seed, n, dim, typ, L, cs, flat = data['seed'], data['n'], data['dim'], data['typ'], data['L'], data['cs'], data.get('flat', False)
    pts, w, f = big_data(seed, n, dim)
    if flat:
        order_ = np.argsort(pts[:, 0]); pts, w, f = pts[order_], w[order_], f[order_]
    g = OneDGrid(pts[:, 0].copy(), w.copy()) if flat else Grid(pts.copy(), w.copy())
    centers = np.array(cs, dtype=float)
    vals, orders = g.moments(L, centers, f, type_mom=typ, return_orders=True)
    vals = np.asarray(vals, dtype=float)
    orders = np.asarray(orders); orders = orders.reshape(-1, 1) if orders.ndim == 1 else orders
    rows = ref_rows(typ, L, dim)
    assert [list(map(int, r)) for r in orders] == rows, f'order list {orders.tolist()[:8]}'
    assert vals.shape == (len(rows), len(cs)), f'shape {vals.shape} for {len(rows)} rows and {len(cs)} centres'
    for ci, c in enumerate(cs):
        d = pts - np.array(c)
        for k, order in enumerate(rows):
            b, mag = basis_vec(typ, order, d)
            want, scale = math.fsum((w * f * b).tolist()), float(np.sum(np.abs(w * f) * mag))
            assert abs(vals[k][ci] - want) <= 1e-9 * (scale + 1e-300), f'{n} points, {typ} row {k} {order} centre {ci}: moments {vals[k][ci]!r}, per-point evaluation of the defining integrand {want!r}'
    k0 = n // 3 + 7                                        # additivity over an uneven split of the same grid
    parts = [(pts[:k0], w[:k0], f[:k0]), (pts[k0:], w[k0:], f[k0:])]
    tot = sum(np.asarray((OneDGrid(p[:, 0].copy(), ww.copy()) if flat else Grid(p.copy(), ww.copy())).moments(L, centers, ff, type_mom=typ), dtype=float) for p, ww, ff in parts)
    bound = np.asarray(Grid(pts.copy(), w.copy()).moments(L, centers, np.abs(f), type_mom='radial'), dtype=float)[-1] + np.sum(np.abs(w * f))
    assert np.all(np.abs(vals - tot) <= 1e-9 * (np.max(bound) * 4 + 1e-300)), f'{n} points, {typ}: moments of the whole grid {vals.ravel()[:4].tolist()} differ from the sum over the two parts of a split at {k0}: {tot.ravel()[:4].tolist()}'
def large_integrate_check(data, Grid, dipole_moment_of_molecule):
    seed, n = data['seed'], data['n']
    pts, w, f = big_data(seed, n, 3)
    g = Grid(pts.copy(), w.copy())
    h = np.cos(pts[:, 0]) + 1.5
    for arrays in ([f], [f, h], [f, h, h]):
        got = float(g.integrate(*arrays))
        t = w.copy()
        for a in arrays:
            t = t * a
        assert abs(got - math.fsum(t.tolist())) <= 1e-11 * float(np.sum(np.abs(t))), f'{n} points: integrate of {len(arrays)} array(s) = {got!r}, sum_i w_i prod a_k[i] = {math.fsum(t.tolist())!r}'
    k0 = n // 3 + 7
    two = float(Grid(pts[:k0].copy(), w[:k0].copy()).integrate(f[:k0])) + float(Grid(pts[k0:].copy(), w[k0:].copy()).integrate(f[k0:]))
    assert abs(float(g.integrate(f)) - two) <= 1e-11 * float(np.sum(np.abs(w * f))), f'{n} points: integrate(f) differs from the sum over the two parts of a split'
    if data.get('dipole'):
        coords, charges, masses = np.array(data['coords']), np.array(data['charges']), np.array(data['masses'])
        dens = np.abs(f)
        got = np.asarray(dipole_moment_of_molecule(g, dens, coords, charges), dtype=float)
        C = (coords * masses[:, None]).sum(axis=0) / masses.sum()
        for j in range(3):
            nuc = math.fsum((charges * (coords[:, j] - C[j])).tolist())
            ele = math.fsum((w * dens * (pts[:, j] - C[j])).tolist())
            sc = float(np.sum(np.abs(charges * (coords[:, j] - C[j]))) + np.sum(np.abs(w * dens * (pts[:, j] - C[j]))))
            assert abs(got[j] - (nuc - ele)) <= 1e-9 * (sc + 1), f'{n} points: dipole component {j} = {got[j]!r}, nuclear minus electronic first moment about the centre of mass {nuc - ele!r}'
"""
exec("import math, itertools\nimport numpy as np\n" + LARGE_SRC, _ns)
large_check, large_integrate_check = _ns["large_check"], _ns["large_integrate_check"]

LARGE_SNIPPET = """import warnings; warnings.filterwarnings('ignore')
import math, itertools, numpy as np
from grid.basegrid import Grid, OneDGrid
from grid.utils import dipole_moment_of_molecule
{large_src}
{call}
"""
# just above round numbers (a dropped remainder shows there) AND exact multiples of plausible block sizes (a leftover
# slice `[-rest:]` with rest == 0, a block counted twice or an empty last block show only there)
QUICK_SIZES = [1025, 4097, 20001, 31234, 65537, 1024, 2048, 4096, 20000, 65536]
THOROUGH_SIZES = [131073, 200003, 524289, 1000003, 524288, 1000000]


def _oracle_large(ctx: Ctx, budget: str):
    ut = importlib.import_module("grid.utils")
    bg = importlib.import_module("grid.basegrid")
    rng = ctx.rng
    sizes = list(QUICK_SIZES) + (THOROUGH_SIZES if (ctx.thorough or budget == "large") else [])
    for n in sizes:
        for typ in TYPES:
            dim = 3
            L = 2 if n <= 70000 else 1
            data = dict(seed=rng.randrange(10 ** 6), n=n, dim=dim, typ=typ, L=L, cs=[[_r(rng.uniform(-1, 1)) for _ in range(dim)], [0.0] * dim])
            _run_large(ctx, f"basegrid.moments:{typ}:large-grid", data, "large_check", bg)
        for typ in TYPES[:2]:                               # one- and two-dimensional points, OneDGrid
            dim, flat = ((1, True), (2, False))[(n + ctx.seed + (typ == "radial")) % 2]
            data = dict(seed=rng.randrange(10 ** 6), n=n, dim=dim, typ=typ, L=3 if n <= 70000 else 1, cs=[[_r(rng.uniform(-1, 1)) for _ in range(dim)]], flat=flat)
            _run_large(ctx, f"basegrid.moments:{typ}:large-grid" + (":points-1d" if flat else f":dim{dim}"), data, "large_check", bg)
        charges = [rng.randint(1, 82), rng.randint(1, 82), 82]
        data = dict(seed=rng.randrange(10 ** 6), n=n, dipole=True, coords=[[_r(rng.uniform(-1, 1)) for _ in range(3)] for _ in range(3)], charges=charges,
                    masses=[float(ut.isotopic_masses[z]) for z in charges])
        _run_large(ctx, "basegrid.integrate:large-grid", data, "large_integrate_check", bg, ut)


def _run_large(ctx, key, data, fn, bg, ut=None):
    ctx.tagc(f"oracle:large:{data['n']}")
    call = f"{fn}({data!r}, Grid, " + ("dipole_moment_of_molecule)" if fn == "large_integrate_check" else "OneDGrid)")
    snip = LARGE_SNIPPET.format(large_src=LARGE_SRC, call=call)
    try:
        if fn == "large_check":
            large_check(data, bg.Grid, bg.OneDGrid)
        else:
            large_integrate_check(data, bg.Grid, ut.dipole_moment_of_molecule)
    except AssertionError as e:
        ctx.fail("oracle", key if "dipole component" not in str(e) else "utils.dipole_moment_of_molecule:large-grid", str(e)[:500], witness=data, snippet=snip)
    except Exception as e:
        ctx.fail("oracle", key, f"{data['n']} points: raised {type(e).__name__}: {e}", witness=data, snippet=snip)


def _oracle_many_orders(ctx: Ctx, budget: str):
    """Class 21 for the number of orders / rows: order lists and moments with more than 1024 / 2000 rows on a tiny grid."""
    ut = importlib.import_module("grid.utils")
    rng = ctx.rng
    for ty, l, dim in (("cartesian", 45, 3), ("cartesian", 1030, 2), ("pure", 520, 3), ("pure-radial", 33, 3), ("cartesian", 33 + ctx.seed % 5, 3)):
        want = ref_orders(l, ty, dim)
        ctx.tagc("oracle:many-orders:generator")
        try:
            got = [[int(x) for x in r] for r in np.asarray(ut.generate_orders_horton_order(l, ty, dim))]
        except Exception as e:
            got = [f"raised {type(e).__name__}: {e}"]
        if got != want:
            bad = next((i for i, (a, b) in enumerate(zip(got, want)) if a != b), min(len(got), len(want)))
            ctx.fail("oracle", f"utils.generate_orders_horton_order:{ty}:many-rows", f"generate_orders_horton_order({l}, {ty!r}, {dim}): {len(got)} rows, expected {len(want)}; first difference at row {bad}",
                     witness=dict(order=l, type=ty, dim=dim),
                     snippet="import warnings; warnings.filterwarnings('ignore')\nimport numpy as np\nfrom grid.utils import generate_orders_horton_order\n" + REF_SRC
                     + f"\ngot = [[int(x) for x in r] for r in np.asarray(generate_orders_horton_order({l}, {ty!r}, {dim}))]\nassert got == ref_orders({l}, {ty!r}, {dim}), len(got)\n")
    for ty, L, dim in (("cartesian", 21, 3), ("radial", 1030, 3), ("pure", 33, 3), ("pure-radial", 15, 3), ("cartesian", 1026, 1)):
        c = _small_case(ctx, ty, dim, 3, 2, L)
        c["pts"] = [[_r(rng.uniform(-0.55, 0.55)) for _ in range(dim)] for _ in range(3)]      # inside the unit ball: r^n does not overflow
        c["cs"] = [[_r(rng.uniform(-0.3, 0.3)) for _ in range(dim)] for _ in range(2)]
        c.update(call="kw", twice=False, shape=f"rows>{1000}")
        ctx.tagc("oracle:many-orders:moments")
        _oracle_case(ctx, c)


def _oracle_order_invariance(ctx: Ctx, budget: str):
    """Round 5, class 22: the moments are sums over the points — descending and shuffled point orders (Grid and OneDGrid,
    incl. a reversed library grid) give the same answer; the columns follow the order of the centres."""
    bg = importlib.import_module("grid.basegrid")
    od = importlib.import_module("grid.onedgrid")
    rng = ctx.rng
    for it in range(10 if budget == "small" else 100):
        typ = TYPES[it % 4]
        flat = typ in ("cartesian", "radial") and it % 3 == 0
        c = _small_case(ctx, typ, 1 if flat else 3, rng.randint(3, 9), rng.randint(2, 4), rng.randint(1, 3))
        if flat and it % 2 == 0:                        # a library grid, reversed
            g0 = od.GaussLegendre(len(c["pts"]))
            c["pts"], c["w"] = [[float(x)] for x in g0.points], [float(x) for x in g0.weights]
        how = ("descending", "shuffled", "ascending")[it % 3]
        idx = list(range(len(c["pts"])))
        if how == "shuffled":
            rng.shuffle(idx)
        else:
            idx.sort(key=lambda i: c["pts"][i], reverse=(how == "descending"))
        cperm = list(range(len(c["cs"])))
        rng.shuffle(cperm)
        d = dict(typ=typ, L=c["L"], pts=[c["pts"][i] for i in idx], w=[c["w"][i] for i in idx], f=[c["f"][i] for i in idx], cs=[c["cs"][i] for i in cperm], flat=flat, order=how)
        snip = ORDER_SNIPPET.format(ref_src=REF_SRC, d=d)
        ctx.tagc(f"oracle:point-order:{how}" + (":OneDGrid" if flat else ""))
        try:
            exec(snip, {})
        except AssertionError as e:
            ctx.fail("oracle", f"basegrid.moments:{typ}:point-order", str(e)[:500], witness=d, snippet=snip)
        except Exception as e:
            ctx.fail("oracle", f"basegrid.moments:{typ}:point-order", f"points in {how} order: raised {type(e).__name__}: {e}", witness=d, snippet=snip)


ORDER_SNIPPET = """import warnings; warnings.filterwarnings('ignore')
import math, numpy as np
from grid.basegrid import Grid, OneDGrid
{ref_src}
d = {d!r}
P, W, F, C = np.array(d['pts'], dtype=float), np.array(d['w'], dtype=float), np.array(d['f'], dtype=float), np.array(d['cs'], dtype=float)
g = OneDGrid(P[:, 0].copy(), W.copy()) if d['flat'] else Grid(P.copy(), W.copy())
vals = np.asarray(g.moments(d['L'], C, F, type_mom=d['typ']), dtype=float)
rows = ref_all_orders(d['L'], d['typ'], P.shape[1])
assert vals.shape == (len(rows), len(C)), vals.shape
for k, order in enumerate(rows):
    for ci, c in enumerate(d['cs']):
        want, scale = direct(d['typ'], order, d['pts'], d['w'], d['f'], c)
        assert abs(vals[k][ci] - want) <= 1e-9 * (scale + 1e-300), f"points in {{d['order']}} order, row {{k}} {{order}} centre {{ci}}: moments {{vals[k][ci]!r}}, direct quadrature {{want!r}}"
"""

# round 5, classes 25 / 26 / 23: the same argument objects edited in place between two calls; two grid instances that
# differ in one hidden respect (a node exactly on the centre or not) used alternately; narrow / extended precision
# arguments given directly (answer = float64 answer on the same values, argument unchanged, second call identical).
INPLACE_SRC = """
def quad_ref(typ, L, pts, w, f, cs):
    rows = ref_all_orders(L, typ, len(pts[0]))
    return [[direct(typ, o, pts, w, f, c) for c in cs] for o in rows]
def agree(vals, ref, what):
    vals = np.asarray(vals, dtype=float)
    assert vals.shape == (len(ref), len(ref[0])), f'{what}: shape {vals.shape}'
    for k, row in enumerate(ref):
        for ci, (want, scale) in enumerate(row):
            assert abs(vals[k][ci] - want) <= 1e-9 * (scale + 1e-300), f'{what}: row {k} centre {ci}: moments {vals[k][ci]!r}, direct quadrature {want!r}'
def inplace_scenario(d, Grid):
    pts, w, typ, L = d['pts'], d['w'], d['typ'], d['L']
    g = Grid(np.array(pts, dtype=float), np.array(w, dtype=float))
    f, cs = np.array(d['f1'], dtype=float), np.array(d['cs1'], dtype=float)
    agree(g.moments(L, cs, f, type_mom=typ), quad_ref(typ, L, pts, w, d['f1'], d['cs1']), 'first call')
    f[:] = d['f2']                                       # the same array objects with new contents
    cs *= 0.0
    cs += np.array(d['cs2'], dtype=float)
    agree(g.moments(L, cs, f, type_mom=typ), quad_ref(typ, L, pts, w, d['f2'], d['cs2']), 'second call with the same array objects edited in place (f[:] = new, centres overwritten)')
    f *= -2.0
    agree(g.moments(L, cs, f, type_mom=typ), quad_ref(typ, L, pts, w, [-2.0 * x for x in d['f2']], d['cs2']), 'third call after f *= -2')
    i0 = float(g.integrate(f))
    t = [a * b * -2.0 for a, b in zip(w, d['f2'])]
    assert abs(i0 - math.fsum(t)) <= 1e-12 * (math.fsum(map(abs, t)) + 1e-300), f'integrate after the in-place edits: {i0!r}, sum w f = {math.fsum(t)!r}'
def two_instances_scenario(d, Grid):
    pa, pb, w, typ, L, cs = d['pts_a'], d['pts_b'], d['w'], d['typ'], d['L'], d['cs']
    ga, gb = Grid(np.array(pa, dtype=float), np.array(w, dtype=float)), Grid(np.array(pb, dtype=float), np.array(w, dtype=float))
    f, c = np.array(d['f'], dtype=float), np.array(cs, dtype=float)
    ra, rb = quad_ref(typ, L, pa, w, d['f'], cs), quad_ref(typ, L, pb, w, d['f'], cs)
    for step, which in enumerate(d['sequence']):
        g, ref = (ga, ra) if which == 'a' else (gb, rb)
        agree(g.moments(L, c, f, type_mom=typ), ref, f'call {step} of the sequence {d["sequence"]} on two grid objects (this one: {which}, ' + ('with' if which == 'a' else 'without') + ' a node exactly on the first centre)')
def narrow_scenario(d, Grid):
    pts, w, typ, L, kind, what = d['pts'], d['w'], d['typ'], d['L'], d['kind'], d['what']
    g = Grid(np.array(pts, dtype=float), np.array(w, dtype=float))
    f, cs = np.array(d['f'], dtype=float), np.array(d['cs'], dtype=float)
    if what == 'centers':
        cs = cs.astype(kind)
    else:
        f = f.astype(kind)
    f0, c0 = f.copy(), cs.copy()
    v1 = g.moments(L, cs, f, type_mom=typ)
    assert np.array_equal(f, f0) and np.array_equal(cs, c0) and f.dtype == f0.dtype and cs.dtype == c0.dtype, f'the {kind} {what} argument was modified'
    v2 = g.moments(L, cs, f, type_mom=typ)
    assert np.array_equal(np.asarray(v1), np.asarray(v2)), f'a second call with the same {kind} {what} object differs from the first'
    agree(v1, quad_ref(typ, L, pts, w, [float(x) for x in f], [[float(x) for x in r] for r in cs]), f'{what} given as {kind}')
"""
exec(INPLACE_SRC, _ns)
inplace_scenario, two_instances_scenario, narrow_scenario = _ns["inplace_scenario"], _ns["two_instances_scenario"], _ns["narrow_scenario"]
SCENARIO_SNIPPET = """import warnings; warnings.filterwarnings('ignore')
import math, numpy as np
from grid.basegrid import Grid
{ref_src}
{src}
{fn}({d!r}, Grid)
"""


def _oracle_scenarios5(ctx: Ctx, budget: str):
    bg = importlib.import_module("grid.basegrid")
    rng = ctx.rng

    def run(fn, name, key, d):
        snip = SCENARIO_SNIPPET.format(ref_src=REF_SRC, src=INPLACE_SRC, fn=name, d=d)
        ctx.tagc(f"oracle:{name}")
        try:
            fn(d, bg.Grid)
        except AssertionError as e:
            ctx.fail("oracle", key, str(e)[:500], witness=d, snippet=snip)
        except Exception as e:
            ctx.fail("oracle", key, f"{name}: raised {type(e).__name__}: {e}", witness=d, snippet=snip)

    for it in range(8 if budget == "small" else 80):
        typ = TYPES[it % 4]
        c = _small_case(ctx, typ, 3, rng.randint(2, 8), rng.randint(1, 3), rng.randint(1, 3))
        n, nc = len(c["pts"]), len(c["cs"])
        d = dict(pts=c["pts"], w=c["w"], typ=typ, L=c["L"], f1=c["f"], cs1=c["cs"], f2=[_r(rng.uniform(-2, 2)) for _ in range(n)],
                 cs2=[[_r(rng.uniform(-1, 1)) for _ in range(3)] for _ in range(nc)])
        run(inplace_scenario, "inplace_scenario", f"basegrid.moments:{typ}:edited-in-place", d)
        pb = [list(p_) for p_ in c["pts"]]
        pa = [list(p_) for p_ in pb]
        pa[rng.randrange(n)] = list(c["cs"][0])              # instance a has a node exactly on the first centre, b has not
        seq = rng.choice(["abab", "baba", "aabb", "bbaa", "abba"])
        d = dict(pts_a=pa, pts_b=pb, w=c["w"], typ=typ, L=c["L"], f=c["f"], cs=c["cs"], sequence=seq)
        run(two_instances_scenario, "two_instances_scenario", f"basegrid.moments:{typ}:two-instances", d)
        kind, what = rng.choice(["float32", "float16", "longdouble", "int64"]), rng.choice(["centers", "func_vals"])
        cast = {"float32": lambda x: float(np.float32(x)), "float16": lambda x: float(np.float16(x)), "longdouble": float, "int64": lambda x: float(round(2 * x))}[kind]
        d = dict(pts=c["pts"], w=c["w"], typ=typ, L=c["L"], kind=kind, what=what,
                 f=[cast(x) if what == "func_vals" else x for x in c["f"]], cs=[[cast(x) if what == "centers" else x for x in r] for r in c["cs"]])
        run(narrow_scenario, "narrow_scenario", f"basegrid.moments:{typ}:{what}:{kind}", d)


def _oracle_integrate(ctx: Ctx, budget: str):
    """Grid.integrate is the grid quadrature: sum_i w_i prod_k a_k[i] for 1-4 arrays, values over 24 orders of magnitude."""
    bg = importlib.import_module("grid.basegrid")
    rng = ctx.rng
    for it in range(12 if budget == "small" else 200):
        n = rng.randint(1, 9)
        w = [_r(rng.uniform(-0.5, 1.5)) for _ in range(n)]
        arrays = [[_r(rng.uniform(-2, 2)) * rng.choice([1.0, 1.0, 1e-12, 1e12, 1e-100]) for _ in range(n)] for _ in range(1 + it % 4)]
        ctx.tagc(f"oracle:integrate:{len(arrays)}arrays")
        snip = INTEGRATE_SNIPPET.format(w=w, arrays=arrays)
        try:
            got = float(bg.Grid(np.zeros((n, 3)), np.array(w)).integrate(*[np.array(a) for a in arrays]))
        except Exception as e:
            ctx.fail("oracle", "basegrid.integrate", f"integrate with {len(arrays)} array(s) raised {type(e).__name__}: {e}", witness=dict(w=w, arrays=arrays), snippet=snip)
            continue
        terms = [wi * math.prod(a[i] for a in arrays) for i, wi in enumerate(w)]
        if not close(got, math.fsum(terms), rtol=1e-12, scale=math.fsum(abs(t) for t in terms) + 1e-300):
            ctx.fail("oracle", "basegrid.integrate", f"integrate of {len(arrays)} array(s) gives {got!r}, sum_i w_i prod_k a_k[i] = {math.fsum(terms)!r}",
                     witness=dict(w=w, arrays=arrays), snippet=snip)


def _oracle_multidomain(ctx: Ctx):
    """MultiDomainGrid.moments is documented as not implemented; should it ever answer, the answer has to be the
    quadrature over the product grid."""
    try:
        importlib.import_module("grid.ngrid")
    except ImportError:
        return
    rng = ctx.rng
    x, y = sorted(_r(rng.uniform(-1, 1)) for _ in range(3)), sorted(_r(rng.uniform(-1, 1)) for _ in range(2))
    snip = MULTIDOMAIN_SNIPPET.format(x=x, wx=[0.5, 0.75, 0.25], y=y, wy=[1.0, 0.5], L=2, c=[0.25, -0.5])
    ns = {}
    ctx.tagc("oracle:multidomain")
    try:
        exec(snip, ns)
    except SystemExit:
        pass
    except AssertionError as e:
        ctx.fail("oracle", "ngrid.MultiDomainGrid.moments", f"MultiDomainGrid.moments answers, but not with the quadrature over the product grid: {e}",
                 witness=dict(x=x, y=y), snippet=snip)
    except Exception as e:
        ctx.fail("oracle", "ngrid.MultiDomainGrid.moments", f"MultiDomainGrid.moments raised {type(e).__name__}: {e} (documented: NotImplementedError)",
                 witness=dict(x=x, y=y), snippet=snip)


def oracle(ctx: Ctx, budget: str):
    """The property on the implementation: every returned entry against direct quadrature
    with independently coded basis functions; order lists against the documented Horton
    order generated differently; dipole against its defining formula."""
    ut = importlib.import_module("grid.utils")
    bg = importlib.import_module("grid.basegrid")
    parts = _Parts(ctx, "oracle")
    with parts("orders"):
        # order generator
        for ty in TYPES:
            for dim in (1, 2, 3):
                for l in range(0, 7 if budget == "small" else 12):
                    want = ref_orders(l, ty, dim)
                    try:
                        got = np.asarray(ut.generate_orders_horton_order(l, ty, dim))
                        got = got.reshape(-1, 1) if got.ndim == 1 and ty == "radial" else got
                        got = [[int(x) for x in r] for r in got]
                    except Exception as e:
                        got = [f"raised {type(e).__name__}: {e}"]
                    if got != want and not (got == [] and want == []):
                        ctx.fail("oracle", f"utils.generate_orders_horton_order:{ty}" + (f":dim{dim}" if ty == "cartesian" else ""),
                                 f"generate_orders_horton_order({l}, {ty}, {dim}) = {got[:6]}…, documented Horton order {want[:6]}…",
                                 witness=dict(order=l, type=ty, dim=dim),
                                 snippet="import warnings; warnings.filterwarnings('ignore')\nimport numpy as np\nfrom grid.utils import generate_orders_horton_order\n" + REF_SRC
                                 + f"\ntry:\n    got = np.asarray(generate_orders_horton_order({l}, {ty!r}, {dim})); got = got.reshape(-1,1) if got.ndim == 1 else got\n"
                                   f"except Exception as e:\n    raise AssertionError(f'raised {{type(e).__name__}}: {{e}}')\n"
                                   f"assert [list(map(int, r)) for r in got] == ref_orders({l}, {ty!r}, {dim}), got.tolist()\n")
    with parts("orders-call-forms"):
        # round 4, class 15: the default of `dim` and keyword forms
        for ty in TYPES:
            for l in range(0, 5):
                want = ref_orders(l, ty, 3)
                for name, src in (("dim omitted", f"generate_orders_horton_order({l}, {ty!r})"), ("keywords", f"generate_orders_horton_order(dim=3, type_ord={ty!r}, order={l})"),
                                  ("dim=3 by keyword", f"generate_orders_horton_order({l}, {ty!r}, dim=3)")):
                    snip = ("import warnings; warnings.filterwarnings('ignore')\nimport numpy as np\nfrom grid.utils import generate_orders_horton_order\n" + REF_SRC
                            + f"\ngot = np.asarray({src}); got = got.reshape(-1, 1) if got.ndim == 1 else got\n"
                              f"assert [list(map(int, r)) for r in got] == ref_orders({l}, {ty!r}, 3), got.tolist()\n")
                    try:
                        got = np.asarray(eval(src, {"generate_orders_horton_order": ut.generate_orders_horton_order}))
                        got = [[int(x) for x in r] for r in (got.reshape(-1, 1) if got.ndim == 1 else got)]
                    except Exception as e:
                        got = [f"raised {type(e).__name__}: {e}"]
                    if got != want and not (got == [] and want == []):
                        ctx.fail("oracle", f"utils.generate_orders_horton_order:{ty}:call-form", f"{src} ({name}) = {got[:6]}…, documented Horton order in three dimensions {want[:6]}…",
                                 witness=dict(order=l, type=ty, form=name), snippet=snip)
    with parts("moments"):
        # moments: entry = direct quadrature
        n = 60 if budget == "small" else 700
        cases = []
        for ty in TYPES:
            for dim in ((1, 2, 3) if ty in ("cartesian", "radial") else (3,)):
                c = _case(ctx, ty, dim, Lmax=3)
                cases.append(c)
        cases += _systematic_cases(ctx)
        n += len(cases)
        while len(cases) < n:
            c = _case(ctx)
            if c["typ"] in ("pure", "pure-radial") and c["dim"] != 3:
                continue
            if c["typ"] == "pure-radial" and c["L"] == 0:
                continue
            cases.append(c)
        for c in cases:
            if c["typ"] == "pure-radial" and c["L"] == 0:
                c["L"] = 1
            _oracle_case(ctx, c)
    with parts("history"):
        # state carried between calls on one grid object
        for _ in range(10 if budget == "small" else 150):
            _history_probe(ctx)
    with parts("library-grid"):
        # a library grid with a smooth function (atomic grid), low orders
        try:
            od = importlib.import_module("grid.onedgrid")
            rt = importlib.import_module("grid.rtransform")
            ag = importlib.import_module("grid.atomgrid")
            rg = rt.BeckeRTransform(1e-3, 1.5).transform_1d_grid(od.GaussLegendre(6))
            # grids whose `points` is derived from what they store: an atomic grid away from the origin (it stores the points
            # relative to its centre), rotated; a two-atom molecular grid; and the origin-centred atomic grid
            from grid.molgrid import MolGrid
            from grid.becke import BeckeWeights
            ctr = np.array([_r(ctx.rng.uniform(-1.5, 1.5)) for _ in range(3)])
            at0 = ag.AtomGrid(rg, degrees=[5])
            at1 = ag.AtomGrid(rg, degrees=[5], center=ctr, rotate=ctx.rng.randrange(1, 1000))
            at2 = ag.AtomGrid(rg, degrees=[3], center=-ctr)
            mol = MolGrid(np.array([1, 8]), [at1, at2], BeckeWeights(order=3), store=bool(ctx.rng.randrange(2)))
            for name, at, c0 in (("AtomGrid at the origin", at0, np.zeros(3)), (f"AtomGrid(center={ctr.tolist()}, rotated)", at1, ctr),
                                 ("MolGrid of two off-origin atoms", mol, ctr)):
                P = np.asarray(at.points, dtype=float)
                q = P - c0
                fv = np.exp(-q[:, 0] ** 2 - 0.5 * (q[:, 1] - 0.2) ** 2 - q[:, 2] ** 2) * (1 + q[:, 0])
                cs = [[0.1, -0.2, 0.3], [0.0, 0.0, 0.0]]
                for ty in TYPES:
                    try:
                        vals, orders = at.moments(2, np.array(cs), fv, type_mom=ty, return_orders=True)
                    except Exception as e:
                        ctx.fail("oracle", f"basegrid.moments:{ty}:atomgrid", f"{name}: moments raised {type(e).__name__}: {e}", witness={"grid": name, "type_mom": ty})
                        continue
                    orders = np.asarray(orders)
                    orders = orders.reshape(-1, 1) if orders.ndim == 1 else orders
                    ctx.tagc("oracle:moments:library-grid")
                    if [[int(x) for x in r] for r in orders] != ref_all_orders(2, ty, 3):
                        ctx.fail("oracle", f"basegrid.moments:{ty}:atomgrid:orders", f"{name}: returned order list {orders.tolist()[:6]}… is not the documented Horton order",
                                 witness={"grid": name, "type_mom": ty})
                        continue
                    for k, order in enumerate(orders):
                        for ci, cen in enumerate(cs):
                            want, scale = direct(ty, [int(x) for x in order], P.tolist(), np.asarray(at.weights, dtype=float).tolist(), fv.tolist(), cen)
                            if not close(float(vals[k][ci]), want, rtol=1e-9, scale=scale + 1e-300):
                                ctx.fail("oracle", f"basegrid.moments:{ty}:atomgrid", f"{name}: row {k} {order.tolist()} centre {ci}: {float(vals[k][ci])!r} vs direct quadrature over grid.points {want!r}",
                                         witness={"grid": name, "type_mom": ty, "order": order.tolist(), "center": cen})
        except ImportError:
            pass
    with parts("derived-points"):
        _library_grids(ctx, budget)
    with parts("underflow-info"):
        _underflow_info(ctx)
    with parts("integrate"):
        _oracle_integrate(ctx, budget)
    with parts("multidomain"):
        _oracle_multidomain(ctx)
    with parts("shared-arguments"):
        _oracle_shared_args(ctx, budget)
    with parts("value-kinds"):
        _oracle_value_kinds(ctx, budget)
    with parts("large-sizes"):
        _oracle_large(ctx, budget)
    with parts("many-orders"):
        _oracle_many_orders(ctx, budget)
    with parts("point-order"):
        _oracle_order_invariance(ctx, budget)
    with parts("scenarios-round5"):
        _oracle_scenarios5(ctx, budget)
    with parts("points-1d"):
        # 1-D grids of the library have a one-dimensional point array (N,)
        od = importlib.import_module("grid.onedgrid")
        for it in range(8 if budget == "small" else 100):
            typ = ("cartesian", "radial")[it % 2]
            if it < 2:
                g1 = od.GaussLegendre(5)
            else:
                n = ctx.rng.randint(1, 9)
                g1 = bg.OneDGrid(np.array(sorted(_r(ctx.rng.uniform(-1.5, 1.5)) for _ in range(n))), np.array([_r(ctx.rng.uniform(-0.5, 1.5)) for _ in range(n)]))
            L = ctx.rng.randint(0, 6)
            f1 = [_r(ctx.rng.uniform(-2, 2)) for _ in range(g1.size)]
            cs = [[_r(ctx.rng.uniform(-1, 1))] for _ in range(ctx.rng.randint(1, 3))]
            key = f"basegrid.moments:{typ}:points-1d"
            snip = POINTS_1D_SNIPPET.format(pts=[float(x) for x in g1.points], w=[float(x) for x in g1.weights], f=f1, cs=cs, typ=typ, L=L)
            wit = dict(points=[float(x) for x in g1.points], weights=[float(x) for x in g1.weights], f=f1, centers=cs, type_mom=typ, orders=L)
            try:
                got, orders = g1.moments(L, np.array(cs), np.array(f1), type_mom=typ, return_orders=True)
            except Exception as e:
                ctx.fail("oracle", key, f"{type(g1).__name__}.moments (points of shape (N,)) raised {type(e).__name__}: {e}", witness=wit, snippet=snip)
                continue
            if [int(x) for x in np.ravel(orders)] != list(range(L + 1)) or np.shape(got) != (L + 1, len(cs)):
                ctx.fail("oracle", key + ":orders", f"order list {np.ravel(orders).tolist()} / shape {np.shape(got)} for L={L}", witness=wit, snippet=snip)
                continue
            for k in range(L + 1):
                for ci, c in enumerate(cs):
                    want, scale = direct(typ, [k], [[float(x)] for x in g1.points], g1.weights, f1, c)
                    if not close(float(got[k][ci]), want, rtol=1e-9, scale=scale + 1e-300):
                        ctx.fail("oracle", key, f"row {k}, centre {ci}: moments {float(got[k][ci])!r}, direct quadrature {want!r}", witness=wit, snippet=snip)
    with parts("masses"):
        # dipole: every element of the mass table (the last one in every run), charged species (the dipole of a neutral
        # molecule does not depend on the centre: the density is normalised to sum Z - q, q = -2 … 2), far-away molecules
        zmax = max(ut.isotopic_masses)
        for z in sorted(ut.isotopic_masses):
            m = float(ut.isotopic_masses[z])
            if not (1 <= z <= len(_STD_WEIGHTS)) or abs(m - _STD_WEIGHTS[z - 1]) > 0.025 * _STD_WEIGHTS[z - 1]:
                ctx.fail("oracle", "utils.isotopic_masses", f"mass of Z={z} is {m}, the standard atomic weight is {_STD_WEIGHTS[z - 1] if 1 <= z <= len(_STD_WEIGHTS) else None} "
                         "(an isotopic mass lies within 2.5 % of it)", witness=dict(Z=z, mass=m))
        for z, m in _MASS_SPOT.items():                   # the source cites Audi & Wapstra 1993/1995: spot values from there
            got = ut.isotopic_masses.get(z)
            if got is None or abs(float(got) - m) > 1e-9:
                ctx.fail("oracle", "utils.isotopic_masses", f"isotopic_masses[{z}] is {got!r}, the tabulated mass of the most abundant isotope is {m}", witness=dict(Z=z),
                         snippet=f"from grid.utils import isotopic_masses\nassert abs(isotopic_masses[{z}] - {m}) <= 1e-9, isotopic_masses[{z}]\n")
        for z, m in _MASS_REFERENCE.items():
            got = ut.isotopic_masses.get(z)
            if got is None or abs(float(got) - m) > 1e-9:
                ctx.fail("oracle", "utils.isotopic_masses", f"isotopic_masses[{z}] is {got!r}; the table as transcribed from the cited source has {m}", witness=dict(Z=z),
                         snippet=f"from grid.utils import isotopic_masses\nassert abs(isotopic_masses[{z}] - {m}) <= 1e-9, isotopic_masses[{z}]\n")
        dup = [(a, b) for a in sorted(ut.isotopic_masses) for b in sorted(ut.isotopic_masses) if a < b and ut.isotopic_masses[a] == ut.isotopic_masses[b]]
        if dup:
            ctx.fail("oracle", "utils.isotopic_masses", f"elements {dup} share one isotopic mass ({ut.isotopic_masses[dup[0][0]]})", witness=dict(Z=dup),
                     snippet="from grid.utils import isotopic_masses as m\nassert len(set(m.values())) == len(m), sorted(z for z in m if list(m.values()).count(m[z]) > 1)\n")
        if set(ut.isotopic_masses) != set(_MASS_REFERENCE):
            extra = sorted(set(ut.isotopic_masses) ^ set(_MASS_REFERENCE))
            ctx.fail("oracle", "utils.isotopic_masses", f"the keys of isotopic_masses differ from 1..82 at {extra}", witness=dict(Z=extra),
                     snippet="from grid.utils import isotopic_masses\nassert sorted(isotopic_masses) == list(range(1, 83)), sorted(isotopic_masses)\n")
    with parts("dipole"):
        zmax = max(ut.isotopic_masses)
        for it in range(24 if budget == "small" else 300):
            na = ctx.rng.randint(1, 4)
            npt = ctx.rng.randint(1, 15)
            d = dict(pts=[[_r(ctx.rng.uniform(-2, 2)) for _ in range(3)] for _ in range(npt)],
                     w=[_r(ctx.rng.uniform(0.0, 1.5)) for _ in range(npt)],
                     dens=[_r(ctx.rng.uniform(0.0, 2.0)) for _ in range(npt)],
                     coords=[[_r(ctx.rng.uniform(-1.5, 1.5)) for _ in range(3)] for _ in range(na)],
                     charges=[ctx.rng.choice([1, 6, 7, 8, ctx.rng.randint(1, zmax), ctx.rng.randint(1, zmax)]) for _ in range(na)])
            if it == 0:
                d["charges"][0] = zmax                                   # the last entry of the table
            elif it == 1:
                d["charges"][-1] = 1
            elif it < 6:
                d["charges"][0] = (it * 17 + ctx.seed * 7) % zmax + 1        # walks through the table with the seed
            q = ctx.rng.choice([0, 0, 1, -1, 2, -2])
            ne, tot = math.fsum(a * b for a, b in zip(d["w"], d["dens"])), sum(d["charges"]) - q
            if it % 2 == 0 and ne > 0 and tot > 0:                       # net charge exactly q (up to rounding)
                d["dens"] = [x * tot / ne for x in d["dens"]]
                d["net_charge"] = q
            if it % 5 == 4:                                              # the whole system 2^k away from the origin
                k = ctx.rng.randint(10, 20)
                T = [ctx.rng.choice([-1.0, 1.0]) * 2.0 ** k for _ in range(3)]
                d["pts"] = [[x + t for x, t in zip(p_, T)] for p_ in d["pts"]]
                d["coords"] = [[x + t for x, t in zip(p_, T)] for p_ in d["coords"]]
                d["shift"] = f"2^{k}"
            missing = [z for z in d["charges"] if z not in ut.isotopic_masses]
            if missing:
                ctx.fail("oracle", "utils.isotopic_masses", f"no entry for Z = {missing}", witness=dict(Z=missing),
                         snippet=f"from grid.utils import isotopic_masses\nassert all(z in isotopic_masses for z in {missing})\n")
                continue
            d["masses"] = [float(ut.isotopic_masses[z]) for z in d["charges"]]
            d["container"] = ctx.rng.choice(["array", "array", "list", "int32-charges", "float-charges", "readonly", "keywords", "float32-coords", "longdouble-density",
                                             "float32-density", "inplace"])
            if d["container"] == "float32-coords":
                d["coords"] = [[float(np.float32(x)) for x in r] for r in d["coords"]]
            elif d["container"] == "float32-density":
                d["dens"] = [float(np.float32(x)) for x in d["dens"]]
            d["twice"] = ctx.rng.random() < 0.3
            ctx.tagc("oracle:dipole:" + ("charged" if d.get("net_charge") else "shifted" if d.get("shift") else "plain"))
            _oracle_dipole_case(ctx, d)
    parts.finish()

"""C19 — caches and remembered parameters never change what a later call returns."""
import importlib

import numpy as np

from ..common import SRC, Ctx, b2f, driver_batch, f2b

LEVEL = "proof"
LEVEL_TEXT = (
    "Lean theorems over an alias machine (cells with identity, a cache from (method, degree) to cells, user handles, "
    "in-place edits): under the copy discipline extracted from AngularGrid.__init__ the invariant 'cache cells hold the "
    "shipped data and are unreachable from any user handle' is preserved by every operation, hence for EVERY history of "
    "constructions (cache on/off, any keys) and in-place edits every angular grid has the shipped points and weights; "
    "the remembered scale b of the three b-scaled transforms is set once (results after that are independent of call "
    "order); the Coulomb loader returns new arrays. The discipline, the scale update and the loader facts are regenerated "
    "from the source on every run; the machine is tied to the implementation by differential runs of random histories "
    "(content and np.shares_memory identity of every returned array, cache keys). Round 3: the translator enumerates, from the "
    "AST of every module, every module-level object with every use of it, every function-cache decorator / import, mutable "
    "default arguments, class-level objects, global/nonlocal statements and every instance attribute assigned outside __init__; "
    "theorems over that regenerated list: each module-level object is a constant table (no writer, never handed out) or one of "
    "the five registered caches with exactly its registered uses; a frame theorem (tables never change under any history of "
    "calls and caller edits); the cache protocol of the alias machine is the one in the source (one dictionary per method, key = "
    "resolved degree, store only under `if cache`); a memo machine with the regenerated setter / accessor facts (kd-trees are "
    "current in every history of queries and assignments; a call of a b-scaled transform that is rejected leaves no trace, so "
    "the scale after any history is the maximum of the first accepted grid (regenerated order of check and assignment, repair "
    "92a7e5b); the spherical-harmonics memo handed out by reference and the kd-tree after an in-place edit without assignment "
    "are outside the property (DESIGN 8.3) and are only described as they are by witness theorems)."
)
TECHNIQUE = "Lean 4 proof (state-machine invariant over all operation histories, regenerated discipline) + differential histories"
GEN = ["angular_cache"]
LEAN_MODULES = ["GridVerif.Props.C19", "GridVerif.Props.C19.State", "GridVerif.Props.C19.BReject", "GridVerif.Props.C19.T1D", "GridVerif.Props.C19.Handout"]
THEOREMS = [
    "GridVerif.C19.safe_init",
    "GridVerif.C19.step_safe",
    "GridVerif.C19.cache_safe",
    "GridVerif.C19.discipline_all_fresh",
    "GridVerif.C19.angular_grids_always_shipped",
    "GridVerif.C19.cache_corruptible",
    "GridVerif.C19.b_set_once",
    "GridVerif.C19.b_results_order_independent",
    "GridVerif.C19.b_first_call_fixes",
    "GridVerif.C19.b_only_set_by_setter_and_loader_fresh",
    # round 3: the regenerated enumeration of everything that outlives a call (Gen/ModuleState.lean)
    "GridVerif.C19.module_objects_disciplined",
    "GridVerif.C19.registered_caches_present",
    "GridVerif.C19.module_object_names_unique",
    "GridVerif.C19.no_other_process_state",
    "GridVerif.C19.cache_protocol_as_modelled",
    "GridVerif.C19.mutable_defaults_never_written",
    "GridVerif.C19.gstep_frame",
    "GridVerif.C19.grun_frame",
    "GridVerif.C19.module_tables_never_change",
    "GridVerif.C19.late_attrs_registered",
    "GridVerif.C19.memos_registered",
    "GridVerif.C19.kdtree_cfg_safe",
    "GridVerif.C19.mstep_inv",
    "GridVerif.C19.memo_queries_current",
    "GridVerif.C19.kdtree_always_current",
    "GridVerif.C19.memo_stale_without_reset",
    "GridVerif.C19.basis_cfg_as_is",
    "GridVerif.C19.basis_memo_corruptible_at",
    "GridVerif.C19.basis_current_without_edits",
    "GridVerif.C19.memo_stale_after_inplace_edit_at",
    # the remembered scale and a rejected call (regenerated order of assignment and check)
    "GridVerif.C19.setMaxBChecked_state",
    "GridVerif.C19.b_fixed_never_rejects",
    "GridVerif.C19.b_first_call_rejects_iff",
    "GridVerif.C19.b_rejected_call_leaves_no_trace",
    "GridVerif.C19.b_history_ignores_rejected_calls",
    "GridVerif.C19.b_history_after_rejection_at",
    "GridVerif.C19.b_partial_no_rejection",
    # transform_1d_grid and the other entry points: regenerated order of guards and state-fixing calls
    "GridVerif.C19.t1d_guards_precede_state",
    "GridVerif.C19.t1d_accepted_is_method_call",
    "GridVerif.C19.t1d_rejected_leaves_no_trace",
    "GridVerif.C19.t1d_guard_after_state_fails_at",
    "GridVerif.C19.b_history_any_entry_point",
    # round 6: no aliasing in what get_shell_grid hands out; a request resolves through the tables whatever is cached
    "GridVerif.C19.shell_grid_arrays_fresh",
    "GridVerif.C19.shell_grid_edit_leaves_parent",
    "GridVerif.C19.shell_view_edit_changes_parent_at",
    "GridVerif.C19.request_resolved_on_every_path",
    "GridVerif.C19.size_request_independent_of_cache",
    "GridVerif.C19.degree_request_independent_of_cache",
    "GridVerif.C19.resolve_skipped_on_hit_fails_at",
]
RULE = (
    "histories of 3..14 operations on one process state: AngularGrid(degree, method, cache on/off) over 4 methods x a "
    "small pool of degrees (so keys repeat), in-place edits of previously returned points/weights arrays; compared with "
    "the Lean machine op by op (content equals shipped?, identity of returned arrays, final cache keys). b-histories: "
    "explicit or inferred b, random order of transform/deriv/deriv2/deriv3/inverse calls on different grids. "
    "Non-trivial = history with at least one edit between two constructions of the same key (cache) / at least two calls "
    "with different grid maxima (b). Round 3: every method x first call in a fresh state with cache off / on x second "
    "call off / on x edit of points / weights / both / through the setters (classes 9-11); the Coulomb table reset "
    "to its unloaded state and first loaded by number / symbol; pro-atom densities, covalent radii and Becke weights "
    "in interleaved orders with edits of everything returned; two b-scaled transforms alternating; the spherical-"
    "harmonics memo of AtomGrid (two accessors in either order, two functions alternating); MolGrid with stored and "
    "unstored atomic grids edited after construction; kd-tree histories (query / assign / edit-and-reassign) on Grid, "
    "OneDGrid, AtomGrid and PeriodicGrid against the memo machine; the enumeration of module-level objects against the "
    "objects the imported modules really hold, and a snapshot of every one of them before and after all histories."
)
TRUSTED_BASE = [
    "Lean 4.33 kernel; axioms propext, Classical.choice, Quot.sound only (audited per theorem)",
    "translator harness/translate/angular_cache.py (classifies the two super().__init__ argument pairs as new array / "
    "cached object, recognises the cache fill and reuse statements, the set_maximum_parameter_b body, the loader's returns)",
    "hand model Model/Aliasing.lean of the cache protocol; NumPy: .copy() and arithmetic give new arrays",
    "translator angular_cache.py, round 3 part (module_state): classifies every use of a module-level name inside every "
    "function (alias tracking through assignments, np.asarray and calls of functions of the same module); a subscript "
    "read of a module-level array is taken to yield an element or a copy; uses it cannot classify raise",
]
ASSUMPTIONS = [
    "np.load returns new arrays per call (that the module-level cache dicts are only touched by AngularGrid.__init__ is "
    "now the theorem module_objects_disciplined over the regenerated enumeration)",
    "module-level objects are reached through their names or through `module.name` of an imported grid module "
    "(getattr / globals() / vars() tricks are outside the enumeration; the snapshot comparison of the oracle covers them)",
    "atomic and molecular grids derive their arrays from AngularGrid instances by arithmetic (new arrays): checked by the oracle histories",
]

METHODS = ["lebedev", "spherical", "maxdet", "ahrens_beylkin"]
PFX = {"lebedev": "LEBEDEV", "spherical": "SPHERICAL", "maxdet": "MAX_DET", "ahrens_beylkin": "AHRENS_BEYLKIN"}
SCALED = {"lebedev": 1, "spherical": 1, "maxdet": 0, "ahrens_beylkin": 0}
DIRS = {"lebedev": "lebedev", "spherical": "spherical_design", "maxdet": "maxdet", "ahrens_beylkin": "ahrens_beylkin"}
CACHES = {"lebedev": "LEBEDEV_CACHE", "spherical": "SPHERICAL_CACHE", "maxdet": "MAX_DET_CACHE", "ahrens_beylkin": "AHRENS_BEYLKIN_CACHE"}
DEGREES = {"lebedev": [3, 5, 7], "spherical": [1, 3, 5], "maxdet": [1, 2, 3], "ahrens_beylkin": None}


def _clear(ang):
    for c in CACHES.values():
        getattr(ang, c).clear()


def _shipped(ang, m, d):
    """(points, weights) as an AngularGrid of that key must have them, straight from the data file."""
    deg, size = ang.AngularGrid._get_degree_and_size(degree=d, size=None, method=m)
    with np.load(SRC / "data" / DIRS[m] / f"{m}_{deg}_{size}.npz") as z:
        p, w = z["points"], z["weights"]
    if len(w) == 1:
        w = np.ones(len(p)) * w
    if SCALED[m]:
        w = w * 4 * np.pi
    return deg, p, w


def _degree_pool(ang, m):
    if DEGREES[m] is not None:
        return DEGREES[m]
    return sorted(ang.AHRENS_BEYLKIN_DEGREES)[:3]


def _history(ctx: Ctx, ang):
    """-> list of ops: ('c', m, d, cache) | ('e', which construct index, 'p'|'w', value)"""
    n = ctx.rng.randrange(3, 15)
    ops, nconstruct = [], 0
    pool = [(m, d) for m in ctx.rng.sample(METHODS, ctx.rng.randrange(1, 3)) for d in ctx.rng.sample(_degree_pool(ang, m), 2)]
    cold_first = ctx.rng.random() < 0.35     # class 11: the first construction of the process with cache=False
    for _ in range(n):
        if nconstruct == 0 or ctx.rng.random() < 0.55:
            m, d = ctx.rng.choice(pool)
            ops.append(("c", m, d, (ctx.rng.random() < 0.7) and not (cold_first and nconstruct == 0)))
            nconstruct += 1
        else:
            ops.append(("e", ctx.rng.randrange(nconstruct), ctx.rng.choice("pw"), ctx.rng.randrange(1, 900)))
    return ops


def _run_impl(ang, ops):
    """Run a history on the library. -> per construct: (p_ok, w_ok, p_identity, w_identity), final cache keys"""
    _clear(ang)
    arrays = []   # [(points array, weights array)] per construct, in order
    res = []
    for op in ops:
        if op[0] == "c":
            _, m, d, cache = op
            g = ang.AngularGrid(degree=d, method=m, cache=cache)
            deg, sp, sw = _shipped(ang, m, d)
            p, w = g.points, g.weights
            pid = next((i for i, (a, _) in enumerate(arrays) if np.shares_memory(a, p)), None)
            wid = next((i for i, (_, b) in enumerate(arrays) if np.shares_memory(b, w)), None)
            res.append((bool(np.array_equal(p, sp)), bool(np.array_equal(w, sw)), pid, wid))
            arrays.append((p, w))
        else:
            _, i, which, v = op
            arr = arrays[i][0 if which == "p" else 1]
            arr[...] = float(v)
    keys = sorted((METHODS.index(m), int(k)) for m, c in CACHES.items() for k in getattr(ang, c))
    _clear(ang)
    return res, keys


def _model_line(ang, ops):
    toks, cells = ["C19.run"], []   # cells: per construct (pcell, wcell) — filled from the answer; edits need them
    return toks, cells


def corr(ctx: Ctx):
    """Independent parts: every part runs even when another one stops (the first exception is re-raised at the end)."""
    errors = []
    for part in (_angular_corr, _b_corr, _b_reject_corr, _b_entry_corr, _coulomb_corr, _state_corr, _memo_corr):
        try:
            part(ctx)
        except Exception as e:   # noqa: BLE001
            errors.append(e)
            ctx.info(f"part {part.__name__} of the correspondence stopped with {type(e).__name__}: {str(e)[:150]} (the other parts ran)")
    if errors:
        raise errors[0]


def _angular_corr(ctx: Ctx):
    ang = importlib.import_module("grid.angular")
    facts = driver_batch(["C19.facts"])[0].split()
    ctx.extra["discipline"] = facts[1:]
    nh = ctx.n(120, 3000)
    for _ in range(nh):
        ops = _history(ctx, ang)
        # The model allocates cells deterministically; run it incrementally to learn the cell ids of
        # the handles (needed to address edits): send growing prefixes in one batch.
        lines, prefix_toks = [], []
        construct_cells = []
        # first pass: constructs only, to learn cell ids is not possible without the edits' effect on
        # allocation (edits allocate nothing), so cell ids depend on constructs alone:
        toks = []
        for op in ops:
            if op[0] == "c":
                _, m, d, cache = op
                deg = ang.AngularGrid._get_degree_and_size(degree=d, size=None, method=m)[0]
                toks += ["c", str(METHODS.index(m)), str(int(deg)), str(SCALED[m]), "1" if cache else "0"]
        ans = driver_batch(["C19.run " + " ".join(toks)])[0]
        outs = ans[3:].split("|")[0].split(";")
        construct_cells = [tuple(int(x) for x in o.split()[:2]) for o in outs]
        # second pass: the full history with edits addressed by cell id
        toks, ci = [], 0
        for op in ops:
            if op[0] == "c":
                _, m, d, cache = op
                deg = ang.AngularGrid._get_degree_and_size(degree=d, size=None, method=m)[0]
                toks += ["c", str(METHODS.index(m)), str(int(deg)), str(SCALED[m]), "1" if cache else "0"]
                ci += 1
            else:
                _, i, which, v = op
                toks += ["e", str(construct_cells[i][0 if which == "p" else 1]), str(v)]
        ans = driver_batch(["C19.run " + " ".join(toks)])[0]
        body, _, keypart = ans[3:].partition("|")
        mouts = [o.split() for o in body.split(";")]
        kt = keypart.split()
        mkeys = sorted((int(kt[i]), int(kt[i + 1])) for i in range(0, len(kt), 2))
        impl, ikeys = _run_impl(ang, ops)
        # compare
        seen_cells = {}
        j = 0
        ok = True
        why = ""
        ship_lines = [f"C19.shipped {METHODS.index(o[1])} {int(ang.AngularGrid._get_degree_and_size(degree=o[2], size=None, method=o[1])[0])}"
                      for o in ops if o[0] == "c"]
        ships = iter(driver_batch(ship_lines))
        for op, mo in zip(ops, mouts):
            if op[0] != "c":
                continue
            _, m, d, cache = op
            deg = ang.AngularGrid._get_degree_and_size(degree=d, size=None, method=m)[0]
            pc, wc, pv, wv = (int(x) for x in mo)
            sp, sw = (int(x) for x in next(ships).split()[1:])
            m_ok = (pv == sp, wv == sw)
            m_pid = seen_cells.get(pc)
            m_wid = seen_cells.get(wc)
            i_pok, i_wok, i_pid, i_wid = impl[j]
            if (m_ok[0], m_ok[1]) != (i_pok, i_wok) or (m_pid is None) != (i_pid is None) or (m_wid is None) != (i_wid is None):
                ok = False
                why = (f"construct #{j} {m} degree {d}: model (points ok, weights ok, shares earlier points, shares earlier weights) = "
                       f"{(m_ok[0], m_ok[1], m_pid is not None, m_wid is not None)}, implementation {(i_pok, i_wok, i_pid is not None, i_wid is not None)}")
                break
            seen_cells.setdefault(pc, j)
            seen_cells.setdefault(wc, j)
            j += 1
        if ok and mkeys != ikeys:
            ok, why = False, f"cache keys after the history: model {mkeys}, implementation {ikeys}"
        edits_between = any(
            o[0] == "e" and any(p[0] == "c" for p in ops[:k]) and any(p[0] == "c" for p in ops[k + 1:])
            for k, o in enumerate(ops))
        ctx.count(["angular-history", [list(o) for o in ops]], nontrivial=edits_between,
                  tag="history:" + ("edit-between" if edits_between else "plain"))
        ctx.traces += 1
        if not ok:
            ctx.fail("corr", "angular.AngularGrid:cache-protocol", why, witness={"history": [list(o) for o in ops]})


B_CLASSES = {
    "LinearInfiniteRTransform": lambda rt, b: rt.LinearInfiniteRTransform(0.1, 12.0, b=b),
    "ExpRTransform": lambda rt, b: rt.ExpRTransform(0.1, 12.0, b=b),
    "PowerRTransform": lambda rt, b: rt.PowerRTransform(0.1, 12.0, b=b),
}
B_METHODS = {
    "LinearInfiniteRTransform": ["transform", "deriv", "inverse"],
    "ExpRTransform": ["transform", "deriv", "deriv2", "deriv3", "inverse"],
    "PowerRTransform": ["transform", "deriv", "deriv2", "deriv3", "inverse"],
}


def _b_history(ctx: Ctx, cls, scales=False):
    b0 = None if ctx.rng.random() < 0.6 else float(ctx.rng.randrange(3, 40))
    calls = []
    for _ in range(ctx.rng.randrange(2, 8)):
        meth = ctx.rng.choice(B_METHODS[cls])
        n = ctx.rng.randrange(3, 12)
        x = np.arange(n, dtype=float) if meth != "inverse" else np.linspace(0.2, 11.0, n)
        if scales and meth != "inverse" and ctx.rng.random() < 0.4:
            x = x * 2.0 ** ctx.rng.choice([-50, -40, -20, -3, 5, 20, 40])      # class 8: grids of extreme magnitude
        if scales and meth != "inverse" and ctx.rng.random() < 0.3:
            r = ctx.rng.random()
            if r < 0.2:                                                      # class 21: a length just past a block boundary, the maximum in the remainder
                x = np.arange(ctx.rng.choice([1025, 4097]), dtype=float) * 2.0 ** -7
                x[-ctx.rng.randrange(1, 20)] = x[-1] + 1.0
            elif r < 0.6:                                                    # class 22: descending
                x = x[::-1].copy()
            else:                                                            # class 22: shuffled
                x = x.copy()
                ctx.np_rng.shuffle(x)
        calls.append((meth, x))
    return b0, calls


def _b_snippet(cls, b0, bfix, first, order):
    def arr(x):
        return f"np.array({np.asarray(x).tolist()!r})"
    lines = ["import warnings; warnings.filterwarnings('ignore')", "import numpy as np", "from grid import rtransform as rt",
             f"x = np.linspace(0.5, 7.5, 5); ref = rt.{cls}(0.1, 12.0, b={bfix!r}).transform(x)", f"tf = rt.{cls}(0.1, 12.0, b={b0!r})"]
    if first is not None:
        lines.append(f"tf.{first[0]}({arr(first[1])})      # the first call fixes the scale to {bfix!r}")
    for meth, xx in order:
        lines.append(f"tf.{meth}({arr(xx)})")
    lines.append("assert np.array_equal(tf.transform(x), ref), 'the scale was changed by later calls / is shared with other objects'")
    return "\n".join(lines) + "\n"


def _b_corr(ctx: Ctx):
    rt = importlib.import_module("grid.rtransform")
    for _ in range(ctx.n(60, 1500)):
        cls = ctx.rng.choice(list(B_CLASSES))
        b0, calls = _b_history(ctx, cls, scales=True)
        tf = B_CLASSES[cls](rt, b0)
        trace = []
        for meth, x in calls:
            getattr(tf, meth)(x)
            trace.append(tf.b)
        line = f"C19.b {cls} {'none' if b0 is None else f2b(b0)} {len(calls)} " + " ".join(f2b(np.max(x)) for _, x in calls)
        ans = driver_batch([line])[0].split()[1:]
        model = [None if a == "none" else b2f(a) for a in ans]
        distinct_max = len({float(np.max(x)) for _, x in calls}) >= 2
        ctx.count(["b-history", cls, b0, [(m, float(np.max(x))) for m, x in calls]], nontrivial=distinct_max,
                  tag=f"b:{cls}:" + ("explicit" if b0 is not None else "inferred"))
        ctx.traces += 1
        if [None if t is None else float(t) for t in trace] != model:
            ctx.fail("corr", f"rtransform.{cls}.b", f"remembered scale after each call: implementation {trace}, model {model}",
                     witness={"class": cls, "b": b0, "calls": [(m, x.tolist()) for m, x in calls]})


TINY = [0.0, -0.0, 1e-300, 1e-17, 0.99e-16, 1e-16, 1.01e-16, 1e-14, -1e-17, -1.01e-16]     # class 7: both sides of the 1e-16 window


def _b_reject_corr(ctx: Ctx):
    """Histories in which some grids have a (nearly) zero maximum: which calls raise ValueError and what
    the object remembers after each call, against the regenerated `setMaxBChecked_*` (code as it is)."""
    rt = importlib.import_module("grid.rtransform")
    for _ in range(ctx.n(40, 800)):
        cls = ctx.rng.choice(list(B_CLASSES))
        b0 = None if ctx.rng.random() < 0.75 else float(ctx.rng.choice([3.0, 1e-17, 2e-16]))
        tf = B_CLASSES[cls](rt, b0)
        maxima, impl = [], []
        for _ in range(ctx.rng.randrange(1, 6)):
            mx = ctx.rng.choice(TINY) if ctx.rng.random() < 0.5 else float(ctx.rng.randrange(1, 9))
            n = ctx.rng.randrange(2, 6)
            x = np.array([mx - k for k in range(n)])          # maximum exactly mx (also for -0.0), anywhere in the array
            ctx.np_rng.shuffle(x)
            meth = ctx.rng.choice(["transform", "deriv"])
            raised = False
            try:
                with np.errstate(all="ignore"):
                    getattr(tf, meth)(x)
            except ValueError:
                raised = True
            except (ZeroDivisionError, FloatingPointError):
                pass
            maxima.append(float(np.max(x)))
            impl.append((None if tf.b is None else float(tf.b), raised))
        line = f"C19.bchk {cls} {'none' if b0 is None else f2b(b0)} {len(maxima)} " + " ".join(f2b(m) for m in maxima)
        ans = driver_batch([line])[0].split()[1:]
        model = [(None if ans[2 * i] == "none" else b2f(ans[2 * i]), ans[2 * i + 1] == "1") for i in range(len(maxima))]
        ctx.count(["b-reject-history", cls, b0, maxima], nontrivial=any(abs(m) < 1e-13 for m in maxima), tag=f"b-reject:{cls}")
        ctx.traces += 1
        same = all((a[1] == b[1]) and ((a[0] is None) == (b[0] is None)) and (a[0] is None or f2b(a[0]) == f2b(b[0])) for a, b in zip(impl, model))
        if not same:
            ctx.fail("corr", f"rtransform.{cls}.b:rejected-call", f"(remembered scale, ValueError raised) after each call: implementation {impl}, model {model}",
                     witness={"class": cls, "b": b0, "maxima": maxima})


def _coulomb_corr(ctx: Ctx, facts=None):
    cou = importlib.import_module("grid.coulomb")
    if facts is None:
        facts = driver_batch(["C19.facts"])[0].split()
    fresh_model = facts[5] == "true"
    for el in ("H", "C", 8, "Fe"):
        try:
            c1, a1 = cou.load_atomic_gaussian_params(el)
        except ValueError:
            continue
        keep = (c1.copy(), a1.copy())
        c2, a2 = cou.load_atomic_gaussian_params(el)
        shared = np.shares_memory(c1, c2) or np.shares_memory(a1, a2)
        ctx.count(["coulomb-loader", str(el)], nontrivial=True, tag="coulomb-loader")
        if shared == fresh_model:
            ctx.fail("corr", "coulomb.load_atomic_gaussian_params",
                     f"loader for {el}: model says results are new arrays = {fresh_model}, two calls share memory = {shared}")


# ------------------------------------------------------------------------------------------
SNIP = """import warnings; warnings.filterwarnings('ignore')
import numpy as np
from grid import angular as ang
from grid.angular import AngularGrid
method, degree = {m!r}, {d}
for c in ('LEBEDEV_CACHE','SPHERICAL_CACHE','MAX_DET_CACHE','AHRENS_BEYLKIN_CACHE'): getattr(ang, c).clear()
ref = AngularGrid(degree=degree, method=method, cache=False)
rp, rw = ref.points.copy(), ref.weights.copy()
g = AngularGrid(degree=degree, method=method)       # fills the cache
g.points[...] = 0.0; g.weights[...] = 0.0            # the caller edits the arrays it was given
h = AngularGrid(degree=degree, method=method)
assert np.array_equal(h.points, rp) and np.array_equal(h.weights, rw), 'a later grid of the same degree returns the edited arrays'
"""


def oracle(ctx: Ctx, budget: str):
    """Rounds 1-2 (`_oracle_histories`) and round 3 (`_oracle_round3`), between two snapshots of every
    module-level object the translator enumerates: no history may change any of them."""
    # every part runs even if another one crashes (a translator that cannot carry a changed source must not hide the
    # failing inputs the histories find); the first exception is re-raised at the end
    first = []

    def part(fn, *a):
        try:
            return fn(*a)
        except Exception as e:  # noqa: BLE001
            first.append(e)
            return None
    procs = part(_pristine_start)
    snap = part(_snapshot_state)
    part(_oracle_histories, ctx, budget)
    part(_oracle_round3, ctx, budget)
    if procs is not None:
        part(_pristine_compare, ctx, procs, budget)
    if snap is not None:
        part(_compare_snapshot, ctx, snap)
    if first:
        raise first[0]


def _oracle_histories(ctx: Ctx, budget: str):
    """On the implementation alone: after arbitrary histories (angular, atomic, molecular grids, shell
    extraction, in-place edits of everything returned) every later construction equals the one made in a
    pristine state; b: results after fixing do not depend on call order; Coulomb loader: equal values."""
    ang = importlib.import_module("grid.angular")
    atg = importlib.import_module("grid.atomgrid")
    rt = importlib.import_module("grid.rtransform")
    one = importlib.import_module("grid.onedgrid")
    cou = importlib.import_module("grid.coulomb")
    reps = {"small": 6, "large": 60}[budget] * (4 if ctx.thorough else 1)
    rg = rt.BeckeRTransform(0.0, 1.5).transform_1d_grid(one.GaussLegendre(4))
    errors = []

    def run(key, part):
        """every part runs even when another one stops; library exceptions are failing inputs, harness errors are re-raised at the end"""
        try:
            part()
        except Exception as e:   # noqa: BLE001
            import traceback
            if "/harness/" in traceback.extract_tb(e.__traceback__)[-1].filename:
                errors.append(e)
            else:
                ctx.fail("oracle", key + ":raises", f"the library raised {type(e).__name__}: {str(e)[:200]} inside a history of legal calls",
                         witness={"traceback": traceback.format_exc()[-1500:]})

    def part_angular():
        for _ in range(reps):
            m = ctx.rng.choice(METHODS)
            pool = _degree_pool(ang, m)
            d = ctx.rng.choice(pool)
            _clear(ang)
            deg, sp, sw = _shipped(ang, m, d)
            ref_at = atg.AtomGrid(rg, degrees=[d], method=m)
            ref_at_p, ref_at_w = ref_at.points.copy(), ref_at.weights.copy()
            _clear(ang)
            # history
            held = []
            for _ in range(ctx.rng.randrange(2, 7)):
                r = ctx.rng.random()
                if r < 0.4:
                    g = ang.AngularGrid(degree=ctx.rng.choice(pool), method=m, cache=ctx.rng.random() < 0.8)
                    held += [g.points, g.weights]
                elif r < 0.6:
                    a = atg.AtomGrid(rg, degrees=[ctx.rng.choice(pool)], method=m, rotate=ctx.rng.randrange(0, 3))
                    sh = a.get_shell_grid(ctx.rng.randrange(0, 4))
                    held += [a.weights, sh.points, sh.weights, a.points]
                    a.integrate(np.ones(a.size))
                elif held:
                    arr = ctx.rng.choice(held)
                    arr[...] = float(ctx.rng.randrange(0, 5))
            for arr in held:
                arr[...] = -1.0
            g = ang.AngularGrid(degree=d, method=m, cache=ctx.rng.random() < 0.5)
            ctx.count(["oracle-angular", m, d], nontrivial=True, tag="oracle:angular")
            if not (np.array_equal(g.points, sp) and np.array_equal(g.weights, sw)):
                ctx.fail("oracle", "angular.AngularGrid:cache", f"AngularGrid(degree={d}, method={m}) no longer returns the shipped data after a history with in-place edits of previously returned arrays",
                         witness={"method": m, "degree": d}, snippet=SNIP.format(m=m, d=d))
            # a molecular grid built on top (two atoms, Becke weights): its arrays after the history must
            # equal those of the same grid built before any edit happened in a pristine cache state
            if ctx.rng.random() < 0.5:
                mol = importlib.import_module("grid.molgrid")
                bk = importlib.import_module("grid.becke")
                def _mol():
                    ats = [atg.AtomGrid(rg, degrees=[d], method=m, center=np.array(c)) for c in ([0.0, 0.0, -0.7], [0.0, 0.0, 0.7])]
                    return mol.MolGrid(np.array([1, 1]), ats, bk.BeckeWeights(), store=ctx.rng.random() < 0.5)
                got_m = _mol()
                _clear(ang)
                ref_m = _mol()
                ctx.count(["oracle-molgrid", m, d], nontrivial=True, tag="oracle:molgrid")
                if not (np.array_equal(got_m.points, ref_m.points) and np.array_equal(got_m.weights, ref_m.weights)):
                    ctx.fail("oracle", "molgrid.MolGrid:angular-cache", f"MolGrid built from {m} degree {d} after a history with in-place edits differs from the one built in a pristine cache state",
                             witness={"method": m, "degree": d}, snippet=SNIP.format(m=m, d=d))
                for arr in (got_m.points, got_m.weights):
                    arr[...] = -3.0    # editing the molecular grid's own arrays must not reach the cache either
            a = atg.AtomGrid(rg, degrees=[d], method=m)
            if not (np.array_equal(a.points, ref_at_p) and np.array_equal(a.weights, ref_at_w)):
                ctx.fail("oracle", "atomgrid.AtomGrid:angular-cache", f"AtomGrid built from {m} degree {d} differs from the one built in a pristine process state",
                         witness={"method": m, "degree": d}, snippet=SNIP.format(m=m, d=d))
            _clear(ang)

    def part_cross_method():
        # cross-method histories: the same degree requested under different methods, in both orders, with
        # the cache on (a cache keyed too coarsely, or shared between methods, shows up here)
        tabs = {m: set(int(k) for k in getattr(ang, PFX[m] + "_DEGREES")) for m in METHODS}
        for _ in range(reps):
            ma, mb = ctx.rng.sample(METHODS, 2)
            shared = sorted(d for d in tabs[ma] & tabs[mb] if d <= 41)
            if not shared:
                continue
            d = ctx.rng.choice(shared)
            _clear(ang)
            seq = [(ma, d, True), (mb, d, ctx.rng.random() < 0.7), (ma, d, ctx.rng.random() < 0.5)]
            ctx.count(["oracle-cross-method", ma, mb, d], nontrivial=True, tag="oracle:cross-method")
            for (m, dd, cache) in seq:
                g = ang.AngularGrid(degree=dd, method=m, cache=cache)
                deg, sp, sw = _shipped(ang, m, dd)
                if g.points.shape != sp.shape or not (np.array_equal(g.points, sp) and np.array_equal(g.weights, sw)):
                    ctx.fail("oracle", "angular.AngularGrid:cache:cross-method",
                             f"AngularGrid(degree={dd}, method={m!r}, cache={cache}) built after {ma!r} degree {d} was cached has {len(g.points)} points / data that differ from the shipped file ({len(sp)} points)",
                             witness={"sequence": [list(x) for x in seq]},
                             snippet=("import warnings; warnings.filterwarnings('ignore')\nimport numpy as np\nfrom grid import angular as ang\nfrom grid.angular import AngularGrid\n"
                                      "for c in ('LEBEDEV_CACHE','SPHERICAL_CACHE','MAX_DET_CACHE','AHRENS_BEYLKIN_CACHE'): getattr(ang, c).clear()\n"
                                      f"AngularGrid(degree={d}, method={ma!r})\nref = AngularGrid(degree={d}, method={mb!r}, cache=False)\n"
                                      "for c in ('LEBEDEV_CACHE','SPHERICAL_CACHE','MAX_DET_CACHE','AHRENS_BEYLKIN_CACHE'): getattr(ang, c).clear()\n"
                                      f"g0 = AngularGrid(degree={d}, method={mb!r}, cache=False)\nAngularGrid(degree={d}, method={ma!r})\ng = AngularGrid(degree={d}, method={mb!r})\n"
                                      "assert g.points.shape == g0.points.shape and np.array_equal(g.points, g0.points) and np.array_equal(g.weights, g0.weights), 'grid depends on what was cached before under another method'\n"))
                    break
            _clear(ang)

    def part_b():
        # b: order independence once fixed
        for _ in range(reps * 3):
            cls = ctx.rng.choice(list(B_CLASSES))
            b0, calls = _b_history(ctx, cls, scales=True)
            bfix = b0 if b0 is not None else float(np.max(calls[0][1]))
            x = np.linspace(0.5, 7.5, 5)
            ref = B_CLASSES[cls](rt, bfix).transform(x)
            tf = B_CLASSES[cls](rt, b0)
            if b0 is None:
                getattr(tf, calls[0][0])(calls[0][1])     # the first call fixes the scale
                if calls[0][0] == "inverse":
                    continue                              # (scale inferred from r values: not comparable with bfix)
            order = calls[1:]
            ctx.rng.shuffle(order)
            for meth, xx in order:
                getattr(tf, meth)(xx)
            got = tf.transform(x)
            ctx.count(["oracle-b", cls, b0, bfix], nontrivial=True, tag="oracle:b")
            if not np.array_equal(got, ref, equal_nan=True):
                ctx.fail("oracle", f"rtransform.{cls}.b", f"{cls}: transform after a history of calls differs from a transform with the same fixed scale b={bfix}",
                         witness={"class": cls, "b": b0, "calls": [(m, xx.tolist()) for m, xx in calls]},
                         snippet=_b_snippet(cls, b0, bfix, calls[0] if b0 is None else None, order))

    def part_coulomb():
        # Coulomb loader: equal values on every call, also after the caller edited an earlier result
        for el in ("H", "C", 8, 26):
            try:
                c1, a1 = cou.load_atomic_gaussian_params(el)
            except ValueError:
                continue
            keep = (c1.copy(), a1.copy())
            c1[...] = 0.0
            a1[...] = 0.0
            c2, a2 = cou.load_atomic_gaussian_params(el)
            ctx.count(["oracle-coulomb", str(el)], nontrivial=True, tag="oracle:coulomb")
            if not (np.array_equal(c2, keep[0]) and np.array_equal(a2, keep[1])):
                ctx.fail("oracle", "coulomb.load_atomic_gaussian_params", f"parameters of {el} differ on a later call after the caller edited an earlier result",
                         witness={"element": str(el)},
                         snippet=("import numpy as np\nfrom grid.coulomb import load_atomic_gaussian_params as L\n"
                                  f"c, a = L({el!r}); k = c.copy(); c[...] = 0\nassert np.array_equal(L({el!r})[0], k)\n"))
    run("angular.AngularGrid:cache", part_angular)
    run("angular.AngularGrid:cache:cross-method", part_cross_method)
    run("rtransform.b", part_b)
    run("coulomb.load_atomic_gaussian_params", part_coulomb)
    if errors:
        raise errors[0]


# ==========================================================================================
# Round 3
# ==========================================================================================
MEMO_F = 100000          # Driver/C19.lean: memoF x = x + 100000


def _translator():
    return importlib.import_module("harness.translate.angular_cache")


def _is_mutable(v):
    return isinstance(v, (dict, list, set, bytearray, np.ndarray))


def _has_mutable_elements(v):
    if isinstance(v, dict):
        return any(_is_mutable(x) or (isinstance(x, tuple) and any(_is_mutable(y) for y in x)) for x in v.values())
    if isinstance(v, (list, set)):
        return any(_is_mutable(x) or (isinstance(x, tuple) and any(_is_mutable(y) for y in x)) for x in v)
    if isinstance(v, np.ndarray):
        return v.dtype == object
    return False


def _runtime_objects(mods):
    """Module-level objects the imported modules really hold: (module, name) -> object, for every global
    bound in that module (not imported into it) whose value is a mutable container."""
    out = {}
    tr = _translator()
    import ast
    for p in tr._modules():
        mod = importlib.import_module("grid." + p.stem) if p.stem != "__init__" else importlib.import_module("grid")
        import warnings
        with warnings.catch_warnings():
            warnings.simplefilter("ignore")
            tree = ast.parse(p.read_text())
        imported = set()
        for n in ast.walk(tree):
            if isinstance(n, (ast.Import, ast.ImportFrom)):
                for a in n.names:
                    imported.add((a.asname or a.name).split(".")[0])
        for nm, v in vars(mod).items():
            if nm in imported or nm.startswith("__") and nm != "__all__":
                continue
            if isinstance(v, type) or callable(v) or isinstance(v, type(importlib)):
                continue
            if _is_mutable(v):
                out[(p.stem, nm)] = v
    # `from grid.x import *` in the package's __init__ re-exports objects of the other modules
    defined = {id(v) for (m, _), v in out.items() if m != "__init__"}
    return {k: v for k, v in out.items() if not (k[0] == "__init__" and id(v) in defined)}


def _state_corr(ctx: Ctx):
    """The regenerated enumeration (through the compiled driver) against the objects the imported modules hold."""
    ans = driver_batch(["C19.objects", "C19.state", "C19.memos", "C19.modules"])
    model = {}
    for tok in ans[0].split()[1:]:
        q, st, kind = tok.split(":", 2)
        model[tuple(q.split(".", 1))] = (st, kind)
    tr = _translator()
    mods = ans[3].split()[1:]
    ctx.count(["state-modules", mods], nontrivial=True, tag="state:modules")
    if sorted(mods) != sorted(p.stem for p in tr._modules()):
        ctx.fail("corr", "module-state:modules", f"modules in the generated enumeration {sorted(mods)} differ from the source files {sorted(p.stem for p in tr._modules())}")
    rt = _runtime_objects(mods)
    # make the lazily created state exist before looking at it
    ang = importlib.import_module("grid.angular")
    cou = importlib.import_module("grid.coulomb")
    _clear(ang)
    ang.AngularGrid(degree=3, method="lebedev")
    cou.load_atomic_gaussian_params("H")
    rt = _runtime_objects(mods)
    for key, v in sorted(rt.items()):
        ctx.count(["state-object", list(key)], nontrivial=True, tag="state:object")
        if key not in model:
            ctx.fail("corr", "module-state:enumeration",
                     f"module-level mutable object grid.{key[0]}.{key[1]} ({type(v).__name__}) exists in the imported module but is not in the generated enumeration",
                     witness={"module": key[0], "name": key[1], "type": type(v).__name__})
            continue
        st = model[key][0]
        if st == "const" and _has_mutable_elements(v):
            ctx.fail("corr", "module-state:elements",
                     f"grid.{key[0]}.{key[1]} is classified as a constant table but holds mutable elements (lists / arrays / dicts)",
                     witness={"module": key[0], "name": key[1]})
    state_objs = sorted(k for k, (st, _) in model.items() if st == "state")
    expect = sorted([("angular", c) for c in CACHES.values()] + [("coulomb", "_ATOMIC_GAUSS_PARAMS_CACHE")])
    if state_objs != expect:
        ctx.fail("corr", "module-state:caches", f"objects with writers or escapes in the generated enumeration: {state_objs}; the caches the harness knows how to reset and inspect: {expect}")
    # function caches: nothing in the modules may carry the marks of functools caches
    nfc = int(ans[1].split()[1])
    found = []
    for p in tr._modules():
        if p.stem == "__init__":
            continue
        mod = importlib.import_module("grid." + p.stem)
        for nm, v in vars(mod).items():
            cands = [(nm, v)]
            if isinstance(v, type) and getattr(v, "__module__", "") == mod.__name__:
                cands += [(f"{nm}.{k}", getattr(v, k, None)) for k in vars(v)]
            for q, f in cands:
                g = getattr(f, "__func__", f)
                g = getattr(g, "fget", g) if isinstance(g, property) else g
                if getattr(g, "__module__", None) != mod.__name__ and not isinstance(f, (property,)):
                    continue
                if hasattr(g, "cache_info") or hasattr(g, "cache_clear") or type(f).__name__ == "cached_property":
                    found.append(f"{p.stem}.{q}")
    ctx.count(["state-function-caches", found], nontrivial=True, tag="state:function-caches")
    if len(found) != nfc:
        ctx.fail("corr", "module-state:function-caches", f"functions carrying a functools cache in the imported modules: {found}; the generated enumeration lists {nfc}")
    _clear(ang)
    ctx.extra["module_objects"] = len(model)


def _grid_factories(ctx):
    """(name, constructor(points, weights) for the kd-tree histories, dimension)"""
    bg = importlib.import_module("grid.basegrid")
    pg = importlib.import_module("grid.periodicgrid")
    out = [("Grid:3d", lambda p, w: bg.Grid(p, w), 3), ("Grid:2d", lambda p, w: bg.Grid(p, w), 2),
           ("Grid:1d", lambda p, w: bg.Grid(p, w), 1),
           ("PeriodicGrid:3d", lambda p, w: pg.PeriodicGrid(p, w, np.diag([1.5, 2.0, 2.5])), 3),
           ("PeriodicGrid:1d", lambda p, w: pg.PeriodicGrid(p, w, np.array([2.0])), 1),
           ("PeriodicGrid:2d", lambda p, w: pg.PeriodicGrid(p, w, np.array([[1.5, 0.0], [0.4, 2.5]])), 2)]
    return out


def _local_key(lg):
    """Order-free content of a LocalGrid."""
    wts = np.asarray(lg.weights).ravel()
    n = len(wts)
    if n == 0:
        return (np.zeros((0, 1)), wts)
    pts = np.asarray(lg.points, dtype=float).reshape(n, -1)
    o = np.lexsort(np.vstack([wts[None, :], pts.T]))
    return (pts[o], wts[o])


def _same_local(a, b):
    ka, kb = _local_key(a), _local_key(b)
    return len(ka[1]) == len(kb[1]) and (len(ka[1]) == 0 or (ka[0].shape == kb[0].shape and np.array_equal(ka[0], kb[0]) and np.array_equal(ka[1], kb[1])))


def _kd_points(ctx, n, dim):
    p = ctx.np_rng.uniform(-1.0, 1.0, (n, dim))
    return p[:, 0].copy() if dim == 1 else p


def _memo_corr(ctx: Ctx):
    """Histories on the memos of the library against the memo machine with the regenerated configuration.
    kd-tree: q = get_localgrid, s = `grid.points = new array`, r = edit in place and assign the same object;
    basis:   q = radial_component_splines, h = `grid.basis`, e = edit of the array `basis` returned."""
    atg = importlib.import_module("grid.atomgrid")
    rt = importlib.import_module("grid.rtransform")
    one = importlib.import_module("grid.onedgrid")
    facs = _grid_factories(ctx)
    for _ in range(ctx.n(24, 600)):
        name, make, dim = ctx.rng.choice(facs)
        n = ctx.rng.choice([1, 2, 5, 17, 60, 150])
        contents = [_kd_points(ctx, n, dim) for _ in range(4)]
        w = np.ones(n)
        g = make(contents[0].copy(), w.copy())
        center = np.zeros(dim) if dim > 1 else np.array(0.0)
        radius = ctx.rng.choice([0.3, 0.7, 1.2])
        ops, toks, cur = [], [], 0
        impl_current = []
        for _ in range(ctx.rng.randrange(2, 9)):
            r = ctx.rng.random()
            if r < 0.5 or not ops:
                ops.append("q")
                toks.append("q")
                got = g.get_localgrid(center, radius)
                ref = make(contents[cur].copy(), w.copy()).get_localgrid(center, radius)
                impl_current.append(_same_local(got, ref))
            else:
                cur = ctx.rng.randrange(4)
                if r < 0.8:
                    ops.append(("s", cur))
                    kinds = _array_kinds(contents[cur])          # class 14: the array the grid is given to hold
                    g.points = kinds[ctx.rng.choice(sorted(kinds))]
                else:
                    ops.append(("r", cur))
                    arr = g.points
                    if not arr.flags.writeable:              # the grid holds a read-only array: assign a new one instead
                        arr = np.empty(arr.shape)
                    arr[...] = contents[cur]
                    g.points = arr
                toks += ["s", str(cur + 1)]
        ans = driver_batch([f"C19.memo kdtree 1 " + " ".join(toks)])[0]
        outs = [o.split() for o in ans[3:].split(";")]
        model_current = [int(o[0]) == int(o[1]) + MEMO_F for o, t in zip(outs, [x for x in ops]) if t == "q"]
        nontriv = any(o != "q" for o in ops[1:]) and ops.count("q") >= 2
        ctx.count(["kdtree-history", name, n, [list(o) if isinstance(o, tuple) else o for o in ops]], nontrivial=nontriv,
                  tag=f"memo:kdtree:{name}")
        ctx.traces += 1
        if model_current != impl_current:
            ctx.fail("corr", f"basegrid.kdtree:{name.split(':')[0]}",
                     f"{name}, {n} points: get_localgrid answers from the tree of the current points? model {model_current}, implementation {impl_current}",
                     witness={"class": name, "n": n, "radius": radius, "ops": [list(o) if isinstance(o, tuple) else o for o in ops],
                              "contents": [c.tolist() for c in contents]})
    # spherical-harmonics memo of AtomGrid
    rg = rt.BeckeRTransform(0.0, 1.5).transform_1d_grid(one.GaussLegendre(5))
    for _ in range(ctx.n(10, 200)):
        deg = ctx.rng.choice([3, 5, 7])
        cen = np.array([0.0, 0.0, ctx.rng.choice([0.0, 0.5])])
        a = atg.AtomGrid(rg, degrees=[deg], center=cen)
        f = np.exp(-np.linalg.norm(a.points - cen, axis=1) ** 2) * (1.0 + a.points[:, 0])
        ref = _spline_values(atg.AtomGrid(rg, degrees=[deg], center=cen).radial_component_splines(f))
        ops, toks, impl_current, held = [], [], [], None
        for _ in range(ctx.rng.randrange(2, 7)):
            r = ctx.rng.random()
            if r < 0.45 or not ops:
                ops.append("q")
                toks.append("q")
                impl_current.append(bool(np.array_equal(_spline_values(a.radial_component_splines(f)), ref)))
            elif r < 0.75:
                ops.append("h")
                toks.append("h")
                b = a.basis
                if b is not None:
                    held = b
            else:
                v = ctx.rng.randrange(0, 3)
                ops.append(("e", v))
                toks += ["e", str(v)]
                if held is not None:
                    held[...] = float(v)
        ans = driver_batch(["C19.memo basis 1 " + " ".join(toks)])[0]
        outs = [o.split() for o in ans[3:].split(";")]
        model_current = [int(o[0]) == int(o[1]) + MEMO_F for o, t in zip(outs, ops) if t == "q"]
        ctx.count(["basis-history", deg, [list(o) if isinstance(o, tuple) else o for o in ops]],
                  nontrivial=any(isinstance(o, tuple) for o in ops) and "h" in ops, tag="memo:basis")
        ctx.traces += 1
        if model_current != impl_current:
            ctx.fail("corr", "atomgrid.AtomGrid.basis:memo",
                     f"AtomGrid(degrees=[{deg}]): radial_component_splines computed from an untouched basis? model {model_current}, implementation {impl_current}",
                     witness={"degree": deg, "center": cen.tolist(), "ops": [list(o) if isinstance(o, tuple) else o for o in ops]})


def _spline_values(splines, r=(0.3, 0.9, 1.7)):
    return np.array([[float(s(x)) for x in r] for s in splines])


# ------------------------------------------------------------------------------------------
def _snapshot_state():
    """Deep copies of every module-level object of the enumeration and of the mutable default arguments."""
    import copy
    tr = _translator()
    try:
        st = tr.module_state()
    except Exception:   # noqa: BLE001 - a source the translator cannot carry: fall back to the objects the modules hold
        st = {"objects": [{"module": m, "name": n, "writers": n.endswith("_CACHE")} for (m, n) in _runtime_objects(None) if m != "__init__"],
              "mutable_defaults": [("atomgrid", "AtomGrid.__init__", "[50]")]}
    snap = {}
    for o in st["objects"]:
        try:
            mod = importlib.import_module("grid." + o["module"])
            snap[("obj", o["module"], o["name"])] = (copy.deepcopy(getattr(mod, o["name"])), bool(o["writers"]))
        except Exception:   # noqa: BLE001 - an object that cannot be copied is reported by the correspondence
            continue
    for m, q, _ in st["mutable_defaults"]:
        try:
            obj = importlib.import_module("grid." + m)
            for part in q.split("."):
                obj = getattr(obj, part)
            snap[("defaults", m, q)] = (copy.deepcopy((obj.__defaults__, obj.__kwdefaults__)), False)
        except Exception:   # noqa: BLE001
            continue
    return snap


def _deep_equal(a, b):
    if isinstance(a, np.ndarray) or isinstance(b, np.ndarray):
        return isinstance(a, np.ndarray) and isinstance(b, np.ndarray) and a.shape == b.shape and a.dtype == b.dtype \
            and bool(np.array_equal(a, b, equal_nan=a.dtype.kind == "f"))
    if isinstance(a, dict):
        return isinstance(b, dict) and list(a.keys()) == list(b.keys()) and all(_deep_equal(a[k], b[k]) for k in a)
    if isinstance(a, (list, tuple)):
        return type(a) is type(b) and len(a) == len(b) and all(_deep_equal(x, y) for x, y in zip(a, b))
    if isinstance(a, float) and a != a:
        return isinstance(b, float) and b != b
    return type(a) is type(b) and a == b


def _compare_snapshot(ctx: Ctx, snap):
    for (kind, m, nm), (old, is_cache) in snap.items():
        try:
            obj = importlib.import_module("grid." + m)
            if kind == "obj":
                new = getattr(obj, nm)
            else:
                for part in nm.split("."):
                    obj = getattr(obj, part)
                new = (obj.__defaults__, obj.__kwdefaults__)
        except Exception:   # noqa: BLE001
            continue
        ctx.count(["snapshot", kind, m, nm], nontrivial=True, tag="oracle:snapshot")
        if is_cache:
            continue        # caches may fill; their *content* is compared with the shipped files by the histories
        if not _deep_equal(old, new):
            ctx.fail("oracle", f"module-state:{m}.{nm}",
                     f"grid.{m}.{nm} ({'default arguments' if kind == 'defaults' else 'module-level table'}) is no longer what it was before the histories of this run",
                     witness={"module": m, "name": nm},
                     snippet=None)


def _raw_file(ang, m, d):
    deg, size = ang.AngularGrid._get_degree_and_size(degree=d, size=None, method=m)
    with np.load(SRC / "data" / DIRS[m] / f"{m}_{deg}_{size}.npz") as z:
        p, w = z["points"], z["weights"]
    if len(w) == 1:
        w = np.ones(len(p)) * w
    return int(deg), int(size), p, w


SNIP_FRESH = """import warnings; warnings.filterwarnings('ignore')
import numpy as np
from grid import angular as ang
from grid.angular import AngularGrid
method, degree, c0, c1, edit = {m!r}, {d}, {c0}, {c1}, {edit!r}
for c in ('LEBEDEV_CACHE','SPHERICAL_CACHE','MAX_DET_CACHE','AHRENS_BEYLKIN_CACHE'): getattr(ang, c).clear()
ref = AngularGrid(degree=degree, method=method, cache=False)
rp, rw = ref.points.copy(), ref.weights.copy()
for c in ('LEBEDEV_CACHE','SPHERICAL_CACHE','MAX_DET_CACHE','AHRENS_BEYLKIN_CACHE'): getattr(ang, c).clear()
g = AngularGrid(degree=degree, method=method, cache=c0)      # first construction of a fresh state
assert np.array_equal(g.points, rp) and np.array_equal(g.weights, rw), 'first grid differs from the uncached one'
if 'p' in edit: g.points[...] = -7.0
if 'w' in edit: g.weights[...] = -7.0
if edit == 'setter':
    p = g.points; p[...] = 3.0; g.points = p; g.weights = np.zeros_like(g.weights)
h = AngularGrid(size=len(rw), method=method.upper(), cache=c1)
assert np.array_equal(h.points, rp) and np.array_equal(h.weights, rw), 'a later grid of the same key differs from the shipped data'
"""


def _o_angular_matrix(ctx: Ctx, ang, reps):
    """Classes 9-11 on the four caches: first call in a fresh state with cache off / on, then an edit of
    points / weights / both / through the setters, then the same key again (by size, other spelling) with
    cache off / on; the grids, the cache keys and the arrays the cache holds are compared with the files."""
    for m in METHODS:
        pool = _degree_pool(ang, m)
        tab = sorted(int(k) for k in getattr(ang, PFX[m] + "_DEGREES"))
        degs = [pool[0], ctx.rng.choice(pool[1:])] + ([ctx.rng.choice([t for t in tab if t <= 35])] if reps > 6 else [])
        for d in degs:
            deg, size, rp, rw = _raw_file(ang, m, d)
            sw = rw * 4 * np.pi if SCALED[m] else rw
            for c0 in (False, True):
                for c1 in (False, True):
                    for edit in ("p", "w", "pw", "setter"):
                        _clear(ang)
                        ctx.count(["oracle-fresh-state", m, d, c0, c1, edit], nontrivial=True, tag="oracle:fresh-state")
                        g = ang.AngularGrid(degree=d, method=m, cache=c0)
                        ok = np.array_equal(g.points, rp) and np.array_equal(g.weights, sw)
                        if "p" in edit:
                            g.points[...] = -7.0
                        if "w" in edit:
                            g.weights[...] = -7.0
                        if edit == "setter":
                            p = g.points
                            p[...] = 3.0
                            g.points = p
                            g.weights = np.zeros_like(g.weights)
                        h = ang.AngularGrid(size=size, method=m.upper() if c1 else m.title(), cache=c1)
                        ok2 = np.array_equal(h.points, rp) and np.array_equal(h.weights, sw)
                        if not (ok and ok2):
                            what = "the first grid of a fresh state" if not ok else "the second grid of the key"
                            ctx.fail("oracle", "angular.AngularGrid:cache:fresh-state",
                                     f"AngularGrid({m}, degree {d}): fresh state, cache={c0}, edit {edit!r}, again (by size, cache={c1}): {what} "
                                     f"differs from the shipped data",
                                     witness={"method": m, "degree": d, "cache_first": c0, "cache_second": c1, "edit": edit},
                                     snippet=SNIP_FRESH.format(m=m, d=d, c0=c0, c1=c1, edit=edit))
        # the same number once as a degree and once as a size, in both orders (a key that mixes the two routes)
        sizes = sorted(int(k) for k in getattr(ang, PFX[m] + "_NPOINTS"))
        both = [k for k in range(1, 60) if k <= max(tab) and k <= max(sizes)]
        for k in ctx.rng.sample(both, min(len(both), 3 if reps <= 6 else 8)):
            for order in (("size", "degree"), ("degree", "size"), ("degree", "size", "degree")):
                _clear(ang)
                ctx.count(["oracle-routes", m, k, list(order)], nontrivial=True, tag="oracle:routes")
                for route in order:
                    g = ang.AngularGrid(method=m, **{route: k})
                    deg, size = ang.AngularGrid._get_degree_and_size(degree=k if route == "degree" else None, size=k if route == "size" else None, method=m)
                    _, _, rp, rw = _raw_file(ang, m, int(deg))
                    sw = rw * 4 * np.pi if SCALED[m] else rw
                    if g.points.shape != rp.shape or not (np.array_equal(g.points, rp) and np.array_equal(g.weights, sw)):
                        ctx.fail("oracle", "angular.AngularGrid:cache:routes",
                                 f"AngularGrid({route}={k}, method={m!r}) in the sequence {order} (cache on) has {len(g.weights)} points / data that differ from the file of degree {int(deg)} ({len(rw)} points)",
                                 witness={"method": m, "number": k, "order": list(order)},
                                 snippet=("import warnings; warnings.filterwarnings('ignore')\nimport numpy as np\nfrom grid import angular as ang\nfrom grid.angular import AngularGrid\n"
                                          "clear = lambda: [getattr(ang, c).clear() for c in ('LEBEDEV_CACHE','SPHERICAL_CACHE','MAX_DET_CACHE','AHRENS_BEYLKIN_CACHE')]\n"
                                          f"clear(); ref = AngularGrid(method={m!r}, {route}={k}, cache=False); clear()\n"
                                          + "".join(f"g = AngularGrid(method={m!r}, {r_}={k})\n" for r_ in order[:order.index(route) + 1] if True)
                                          + "assert g.points.shape == ref.points.shape and np.array_equal(g.points, ref.points) and np.array_equal(g.weights, ref.weights)\n"))
                        break
    _clear(ang)


def _o_coulomb_fresh(ctx: Ctx, cou):
    """The lazily loaded table from its unloaded state: first load by number / by symbol / by another
    element, values against the JSON file read here, edits of everything returned in between."""
    import json
    raw = json.loads((SRC / "data" / "atomic_gauss_params.json").read_text())
    utils = importlib.import_module("grid.utils")
    cache_name = "_ATOMIC_GAUSS_PARAMS_CACHE"
    els = [e for e in ("H", "C", "O", "Fe", "Xe") if e in raw]
    for first in ("number", "symbol", "other", "lower"):
        if hasattr(cou, cache_name):
            setattr(cou, cache_name, None)
        seq = list(els)
        ctx.rng.shuffle(seq)
        for k, el in enumerate(seq + seq[:2]):
            z = utils.sym2num[el]
            arg = z if (first == "number" and k == 0) or ctx.rng.random() < 0.3 else (el.lower() if first == "lower" else el)
            if first == "other" and k == 0:
                cou.load_atomic_gaussian_params(els[-1])
            c, a = cou.load_atomic_gaussian_params(arg)
            ctx.count(["oracle-coulomb-fresh", first, str(arg), k], nontrivial=True, tag="oracle:coulomb-fresh")
            if not (np.array_equal(c, np.asarray(raw[el]["coeffs_s"], float)) and np.array_equal(a, np.asarray(raw[el]["alphas_s"], float))):
                ctx.fail("oracle", "coulomb.load_atomic_gaussian_params:fresh-state",
                         f"parameters of {arg!r} (call #{k} after the table was unloaded, first call by {first}) differ from atomic_gauss_params.json",
                         witness={"element": str(arg), "first": first, "call": k},
                         snippet=("import json, numpy as np\nimport grid.coulomb as cou\nfrom importlib.resources import files\n"
                                  "raw = json.loads(files('grid.data').joinpath('atomic_gauss_params.json').read_text())\n"
                                  f"cou._ATOMIC_GAUSS_PARAMS_CACHE = None\nfor el in {seq[:k + 1]!r}:\n"
                                  "    c, a = cou.load_atomic_gaussian_params(el); k = (c.copy(), a.copy()); c[...] = 0; a[...] = 0\n"
                                  "    c, a = cou.load_atomic_gaussian_params(el.lower())\n"
                                  "    assert np.array_equal(c, np.asarray(raw[el]['coeffs_s'], float)) and np.array_equal(a, np.asarray(raw[el]['alphas_s'], float)), el\n"))
            c[...] = -1.0
            a[...] = -1.0


def _o_hirshfeld(ctx: Ctx, reps):
    """Pro-atom densities and Hirshfeld weights in interleaved orders with edits of everything returned,
    against a spline of the shipped file built here."""
    hw = importlib.import_module("grid.hirshfeld")
    from scipy.interpolate import CubicSpline
    H = hw.HirshfeldWeights
    nums = sorted(int(p.stem[1:]) for p in (SRC / "data" / "proatoms").glob("a*.npz"))
    pts = ctx.np_rng.uniform(-2.0, 2.0, (12, 3))
    coord = np.array([0.1, -0.2, 0.3])

    def ref(num):
        with np.load(SRC / "data" / "proatoms" / f"a{num:03d}.npz") as z:
            r, dn = z["r"], z["dn"]
        return CubicSpline(r, dn, bc_type="natural", extrapolate=True)(np.linalg.norm(pts - coord, axis=-1))
    refs = {n: ref(n) for n in nums}
    obj = H()
    for k in range(3 * reps):
        num = ctx.rng.choice(nums)
        route = ctx.rng.randrange(3)
        ctx.count(["oracle-hirshfeld", num, route, k], nontrivial=True, tag="oracle:hirshfeld")
        try:
            if route == 0:
                got = H.generate_proatom(pts, coord, num)
            elif route == 1:
                got = obj._get_proatom_density(num, np.linalg.norm(pts - coord, axis=-1))
            else:
                r, dn = H._load_npz_proatom(num)
                got = CubicSpline(r, dn, bc_type="natural", extrapolate=True)(np.linalg.norm(pts - coord, axis=-1))
                r[...] = 0.0
                dn[...] = 0.0
        except Exception as e:   # noqa: BLE001 - e.g. a spline of data an earlier caller edited
            got = np.full(len(pts), np.nan)
            ctx.info(f"hirshfeld route {route} raised {type(e).__name__}: {str(e)[:120]}")
        if not np.allclose(got, refs[num], rtol=1e-13, atol=0.0):
            ctx.fail("oracle", "hirshfeld.HirshfeldWeights:proatom",
                     f"pro-atom density of Z={num} (call #{k}, route {route}) differs from the spline of the shipped file after earlier calls / edits of earlier results",
                     witness={"num": num, "call": k, "route": route},
                     snippet=("import numpy as np\nfrom grid.hirshfeld import HirshfeldWeights as H\n"
                              f"p = np.linspace(-1, 1, 12).reshape(4, 3); c = np.zeros(3)\nref = H.generate_proatom(p, c, {num}).copy()\n"
                              f"r, dn = H._load_npz_proatom({num}); r[...] = 0; dn[...] = 0\ng = H.generate_proatom(p, c, {num}); g[...] = 0\n"
                              f"H.generate_proatom(p, c, 8)\nassert np.array_equal(H.generate_proatom(p, c, {num}), ref)\n"))
        got[...] = -5.0
    # weights of a diatomic, twice, other molecule in between, result edited
    atc = np.array([[0.0, 0.0, -0.6], [0.0, 0.0, 0.6]])
    ind = np.array([0, 6, 12])
    w1 = obj(pts, atc, np.array([1, 8]), ind)
    keep = w1.copy()
    w1[...] = 0.0
    H()(pts, atc, np.array([6, 7]), ind)
    w2 = obj(pts, atc, np.array([1, 8]), ind)
    ctx.count(["oracle-hirshfeld-weights"], nontrivial=True, tag="oracle:hirshfeld")
    if not np.array_equal(w2, keep):
        ctx.fail("oracle", "hirshfeld.HirshfeldWeights:weights", "Hirshfeld weights of the same molecule differ on a second call after the first result was edited and another molecule was evaluated",
                 witness={"atnums": [1, 8]})


def _o_becke(ctx: Ctx, reps):
    """Covalent radii and Becke weights: tables against a copy taken at the start, results edited, two
    objects with different radii alternating, the three public routes in either order, the caller's
    dictionary edited after construction."""
    utils = importlib.import_module("grid.utils")
    bk = importlib.import_module("grid.becke")
    tables = {t: utils.get_cov_radii(np.arange(1, 87), t).copy() for t in ("bragg", "cambridge", "alvarez")}
    for k in range(3 * reps):
        t = ctx.rng.choice(list(tables))
        zs = ctx.rng.sample(range(1, 87), ctx.rng.randrange(1, 6))           # in any order
        form = ctx.rng.randrange(4)
        arg = zs[0] if form == 0 else (list(zs) if form == 1 else (np.array(zs) if form == 2 else np.array(zs, dtype=np.int32)))
        got = utils.get_cov_radii(arg, t)
        want = tables[t][np.array([zs[0]] if form == 0 else zs) - 1]
        ctx.count(["oracle-cov-radii", t, form, zs], nontrivial=True, tag="oracle:cov-radii")
        if not np.array_equal(got, want, equal_nan=True):
            ctx.fail("oracle", "utils.get_cov_radii", f"get_cov_radii({arg!r}, {t!r}) differs from its first answer after earlier results were edited in place",
                     witness={"atnums": zs, "type": t, "form": form},
                     snippet=("import numpy as np\nfrom grid.utils import get_cov_radii as G\n"
                              f"a = np.array({zs}); ref = G(a, {t!r}).copy(); r = G(a, {t!r}); r[...] = 0; r2 = G({zs[0]}, {t!r}); r2[...] = 0\n"
                              f"assert np.array_equal(G(a, {t!r}), ref, equal_nan=True)\n"))
        try:
            got[...] = 0.0
        except (TypeError, ValueError):
            pass
    pts = ctx.np_rng.uniform(-2.0, 2.0, (14, 3))
    atc = np.array([[0.0, 0.0, -0.7], [0.0, 0.3, 0.7], [0.9, 0.0, 0.0]])
    ind = np.array([0, 5, 9, 14])
    # molecules that agree in size, first atom, multiset of atoms (a memo keyed too coarsely); Z=2: no Bragg radius (nan branch)
    mols = [np.array(z) for z in ([1, 6, 8], [1, 8, 6], [1, 7, 7], [2, 1, 7], [8, 8, 1], [8, 1, 8], [6, 8, 1])]
    user = {1: 0.8, 6: 1.4}
    objs = [lambda: bk.BeckeWeights(), lambda: bk.BeckeWeights(radii=dict(user), order=2), lambda: bk.BeckeWeights(order=4)]
    live = [f() for f in objs]
    d_shared = dict(user)
    live[1] = bk.BeckeWeights(radii=d_shared, order=2)
    d_shared[1] = 9.0
    d_shared[8] = 0.1                      # the caller goes on using its dictionary
    hist = []
    for k in range(6 * reps):
        j = ctx.rng.randrange(3)
        atn = mols[ctx.rng.randrange(len(mols))]
        route = ctx.rng.randrange(3)
        ctx.count(["oracle-becke", j, atn.tolist(), route], nontrivial=True, tag="oracle:becke")

        def call(o):
            if route == 0:
                return o(pts, atc, atn, ind)
            if route == 1:
                return o.generate_weights(pts, atc, atn, pt_ind=ind)
            return o.compute_weights(pts, atc, atn, pt_ind=ind)
        got = call(live[j])
        want = call(objs[j]())
        if not np.array_equal(got, want, equal_nan=True):
            ctx.fail("oracle", "becke.BeckeWeights:radii",
                     f"BeckeWeights object #{j} (route {route}, atoms {atn.tolist()}, call #{k}) differs from a new object with the same parameters",
                     witness={"object": j, "atnums": atn.tolist(), "route": route, "call": k},
                     snippet=_becke_snippet(hist + [(j, atn.tolist(), route)]))
        hist.append((j, atn.tolist(), route))
        got[...] = 0.0


def _becke_snippet(hist):
    lines = ["import warnings; warnings.filterwarnings('ignore')", "import numpy as np", "from grid.becke import BeckeWeights",
             "p = np.linspace(-2, 2, 42).reshape(14, 3) * np.array([1.0, -0.7, 0.4]); c = np.array([[0, 0, -.7], [0, .3, .7], [.9, 0, 0]]); i = np.array([0, 5, 9, 14])",
             "new = [lambda: BeckeWeights(), lambda: BeckeWeights(radii={1: 0.8, 6: 1.4}, order=2), lambda: BeckeWeights(order=4)]",
             "d = {1: 0.8, 6: 1.4}; live = [new[0](), BeckeWeights(radii=d, order=2), new[2]()]; d[1] = 9.0; d[8] = 0.1",
             "def call(o, z, r):",
             "    z = np.array(z)",
             "    return o(p, c, z, i) if r == 0 else (o.generate_weights(p, c, z, pt_ind=i) if r == 1 else o.compute_weights(p, c, z, pt_ind=i))"]
    for j, z, r in hist[:-1]:
        lines.append(f"call(live[{j}], {z}, {r})[...] = 0")
    j, z, r = hist[-1]
    lines.append(f"assert np.array_equal(call(live[{j}], {z}, {r}), call(new[{j}](), {z}, {r}), equal_nan=True), 'weights depend on earlier calls'")
    return "\n".join(lines) + "\n"


def _o_b_objects(ctx: Ctx, rt, reps):
    """Two b-scaled transforms alive at once (the scale is per object), results edited in place, the
    accessor `b` and the public setter between calls, an explicit b seeing larger grids."""
    for k in range(3 * reps):
        cls = ctx.rng.choice(list(B_CLASSES))
        xa = np.arange(ctx.rng.randrange(3, 9), dtype=float)
        xb = np.arange(ctx.rng.randrange(10, 20), dtype=float)
        ta, tb = B_CLASSES[cls](rt, None), B_CLASSES[cls](rt, None)
        explicit = B_CLASSES[cls](rt, 7.0)
        ref_a = B_CLASSES[cls](rt, float(xa.max()))
        ref_b = B_CLASSES[cls](rt, float(xb.max()))
        ref_e = B_CLASSES[cls](rt, 7.0)
        ya = ta.transform(xa)
        yb = tb.deriv(xb)
        ya[...] = 0.0
        yb[...] = 0.0
        seq = []
        for _ in range(ctx.rng.randrange(2, 7)):
            who = ctx.rng.randrange(3)
            meth = ctx.rng.choice(B_METHODS[cls] + ["b", "set"])
            x = (xa, xb)[ctx.rng.randrange(2)]
            seq.append((who, meth, len(x)))
            t, r = ((ta, ref_a), (tb, ref_b), (explicit, ref_e))[who]
            if meth == "b":
                got, want = t.b, r.b if r.b is not None else None
                bad = got is None or float(got) != float((xa.max(), xb.max(), 7.0)[who])
            elif meth == "set":
                t.set_maximum_parameter_b(x)
                bad = float(t.b) != float((xa.max(), xb.max(), 7.0)[who])
            else:
                xx = np.linspace(0.2, 11.0, len(x)) if meth == "inverse" else x
                got = getattr(t, meth)(xx)
                want = getattr(r, meth)(xx)
                bad = not np.array_equal(got, want, equal_nan=True)
                got[...] = 0.0
            if bad:
                ctx.fail("oracle", f"rtransform.{cls}.b:objects",
                         f"{cls}: object #{who} (scale fixed to {(xa.max(), xb.max(), 7.0)[who]}) gives another {meth} after the history {seq}",
                         witness={"class": cls, "sequence": seq, "na": len(xa), "nb": len(xb)},
                         snippet=("import warnings; warnings.filterwarnings('ignore')\nimport numpy as np\nfrom grid import rtransform as rt\n"
                                  f"a = rt.{cls}(0.1, 12.0); b = rt.{cls}(0.1, 12.0); xa = np.arange({len(xa)}.0); xb = np.arange({len(xb)}.0)\n"
                                  f"a.transform(xa)[...] = 0; b.deriv(xb)[...] = 0; a.deriv(xb); b.transform(xa); a.set_maximum_parameter_b(xb)\n"
                                  f"assert a.b == xa.max() and b.b == xb.max()\n"
                                  f"assert np.array_equal(a.transform(xb), rt.{cls}(0.1, 12.0, b=xa.max()).transform(xb))\n"))
                break
        ctx.count(["oracle-b-objects", cls, seq], nontrivial=True, tag="oracle:b-objects")


def _basis_snippet(deg, cen, seq):
    lines = ["import warnings; warnings.filterwarnings('ignore')", "import numpy as np", "from grid.atomgrid import AtomGrid",
             "from grid.onedgrid import GaussLegendre", "from grid.rtransform import BeckeRTransform",
             f"rg = BeckeRTransform(0.0, 1.5).transform_1d_grid(GaussLegendre(6)); cen = np.array({cen.tolist()})",
             f"a = AtomGrid(rg, degrees=[{deg}], center=cen); b = AtomGrid(rg, degrees=[{deg}], center=cen)",
             "r2 = np.sum((a.points - cen)**2, axis=1); fs = [np.exp(-r2), np.exp(-.5*r2)*(1 + (a.points - cen)[:, 2])]",
             "p = np.array([[.3, .1, -.2], [0, .9, .4], [-1.1, .2, .3]]); val = lambda sp: np.array([[float(s(x)) for x in (.3, .9, 1.7)] for s in sp])"]
    for j, meth in seq[:-1]:
        if meth == "splines":
            lines.append(f"for s in a.radial_component_splines(fs[{j}]): s.c[...] = 0")
        else:
            lines.append(f"a.interpolate(fs[{j}])(p)")
    j, meth = seq[-1]
    if meth == "splines":
        lines.append(f"assert np.array_equal(val(a.radial_component_splines(fs[{j}])), val(b.radial_component_splines(fs[{j}]))), 'splines depend on earlier calls'")
    else:
        lines.append(f"assert np.array_equal(a.interpolate(fs[{j}])(p), b.interpolate(fs[{j}])(p)), 'interpolation depends on earlier calls'")
    return "\n".join(lines) + "\n"


def _o_basis(ctx: Ctx, reps):
    """The spherical-harmonics memo of AtomGrid: `radial_component_splines` and `interpolate` in either
    order, two functions alternating, edits of the splines / values returned, the default `degrees`
    argument; every answer against a new AtomGrid.  Returns the observation about the accessor."""
    atg = importlib.import_module("grid.atomgrid")
    rt = importlib.import_module("grid.rtransform")
    one = importlib.import_module("grid.onedgrid")
    rg = rt.BeckeRTransform(0.0, 1.5).transform_1d_grid(one.GaussLegendre(6))
    probe = np.array([[0.3, 0.1, -0.2], [0.0, 0.9, 0.4], [-1.1, 0.2, 0.3]])
    for k in range(max(2, reps // 2)):
        deg = ctx.rng.choice([3, 5, 7])
        cen = np.array([0.0, ctx.rng.choice([0.0, 0.2, 0.4, 1024.0]), 0.0])      # (class 8: a centre far from the origin)
        a = atg.AtomGrid(rg, degrees=[deg], center=cen)
        r2 = np.sum((a.points - cen) ** 2, axis=1)
        fs = [np.exp(-r2), np.exp(-0.5 * r2) * (1.0 + (a.points - cen)[:, 2])]

        def fresh():
            return atg.AtomGrid(rg, degrees=[deg], center=cen)
        refs = [(_spline_values(fresh().radial_component_splines(f)), fresh().interpolate(f)(probe)) for f in fs]
        seq = []
        first_basis = a.basis
        for _ in range(ctx.rng.randrange(3, 8)):
            j = ctx.rng.randrange(2)
            meth = ctx.rng.choice(["splines", "interpolate"])
            seq.append((j, meth))
            if meth == "splines":
                sp = a.radial_component_splines(fs[j])
                got, want = _spline_values(sp), refs[j][0]
                for s_ in sp:
                    s_.c[...] = 0.0           # the caller edits what it was given
            else:
                got, want = a.interpolate(fs[j])(probe), refs[j][1]
                got = got.copy()
            if not np.array_equal(got, want):
                ctx.fail("oracle", "atomgrid.AtomGrid.basis:memo",
                         f"AtomGrid(degrees=[{deg}]): {meth} of function #{j} after the history {seq} differs from a new AtomGrid's",
                         witness={"degree": deg, "center": cen.tolist(), "sequence": seq, "basis_before_first_use": None if first_basis is None else "array"},
                         snippet=_basis_snippet(deg, cen, seq))
                break
        ctx.count(["oracle-basis", deg, seq], nontrivial=True, tag="oracle:basis")
    # default `degrees=[50]`: a mutable default argument; two default constructions, the first one's arrays edited
    small = rt.BeckeRTransform(0.0, 1.5).transform_1d_grid(one.GaussLegendre(2))
    g1 = atg.AtomGrid(small)
    keep = (g1.points.copy(), g1.weights.copy(), list(g1.degrees))
    g1.weights[...] = 0.0
    try:
        g1.degrees[0] = 3
    except (TypeError, IndexError):
        pass
    g2 = atg.AtomGrid(small)
    ctx.count(["oracle-default-degrees"], nontrivial=True, tag="oracle:basis")
    if not (np.array_equal(g2.points, keep[0]) and np.array_equal(g2.weights, keep[1]) and list(g2.degrees) == keep[2]):
        ctx.fail("oracle", "atomgrid.AtomGrid:default-degrees", "AtomGrid(rgrid) with the default `degrees` differs on the second construction after the first grid was edited (mutable default argument)",
                 witness={"degrees_first": keep[2], "degrees_second": list(g2.degrees)},
                 snippet=("import warnings; warnings.filterwarnings('ignore')\nimport numpy as np\nfrom grid.atomgrid import AtomGrid\nfrom grid.onedgrid import GaussLegendre\nfrom grid.rtransform import BeckeRTransform\n"
                          "rg = BeckeRTransform(0.0, 1.5).transform_1d_grid(GaussLegendre(2)); a = AtomGrid(rg); n = a.size; a.degrees[0] = 3; a.weights[...] = 0\n"
                          "b = AtomGrid(rg); assert b.size == n and b.weights.any()\n"))
    # observation (code as it is, theorem basis_memo_corruptible_at): the accessor returns the memo itself
    a = atg.AtomGrid(rg, degrees=[5])
    r2 = np.sum(a.points ** 2, axis=1)
    f = np.exp(-r2)
    v1 = _spline_values(a.radial_component_splines(f))
    b = a.basis
    corrupt = False
    if b is not None:
        b[...] = 0.0
        corrupt = not np.array_equal(_spline_values(a.radial_component_splines(f)), v1)
    return {"basis_accessor_returns_the_memo_itself (edit changes later splines)": corrupt}


def _o_molgrid_stored(ctx: Ctx, reps):
    """MolGrid with stored / unstored atomic grids: after construction the caller edits the atomic
    grids it passed in (and the list): points, weights, integrals and the per-atom grids handed out
    must stay what they were."""
    atg = importlib.import_module("grid.atomgrid")
    rt = importlib.import_module("grid.rtransform")
    one = importlib.import_module("grid.onedgrid")
    mol = importlib.import_module("grid.molgrid")
    bk = importlib.import_module("grid.becke")
    rg = rt.BeckeRTransform(0.0, 1.5).transform_1d_grid(one.GaussLegendre(4))
    obs = {}
    for k in range(max(4, reps)):
        store = bool(k % 2)
        m = ctx.rng.choice(METHODS[:3])
        d = ctx.rng.choice(_degree_pool(importlib.import_module("grid.angular"), m))
        natom = 1 if k % 3 == 2 else 2
        cs = ([0.0, 0.0, -0.7], [0.0, 0.0, 0.7])[:natom]
        ats = [atg.AtomGrid(rg, degrees=[d], method=m, center=np.array(c)) for c in cs]
        aim = bk.BeckeWeights()
        mg = mol.MolGrid(np.array([1, 8][:natom]), ats, aim, store=store)
        f = np.exp(-np.sum(mg.points ** 2, axis=1))
        keep = dict(points=mg.points.copy(), weights=mg.weights.copy(), integral=mg.integrate(f),
                    aim=mg.aim_weights.copy(), at0=(mg.get_atomic_grid(0).points.copy(), mg.get_atomic_grid(0).weights.copy()))
        # the caller goes on using the atomic grids and the list it passed in
        if not store:
            ats[0].weights[...] = 0.0
            ats[-1].center[...] = 5.0
            ats.append("something else")
        else:
            ats[-1].get_shell_grid(1).weights[...] = 0.0
            ats[-1].integrate(np.ones(ats[-1].size))
            ats[-1].points[...] = 0.0            # (a new array on every access)
        g0 = mg.get_atomic_grid(0)
        ctx.count(["oracle-molgrid-stored", store, m, d, natom], nontrivial=True, tag="oracle:molgrid-stored")
        ok = (np.array_equal(mg.points, keep["points"]) and np.array_equal(mg.weights, keep["weights"])
              and mg.integrate(f) == keep["integral"] and np.array_equal(mg.aim_weights, keep["aim"])
              and np.array_equal(g0.points, keep["at0"][0]) and np.array_equal(g0.weights, keep["at0"][1]))
        if not ok:
            ctx.fail("oracle", "molgrid.MolGrid:atgrids",
                     f"MolGrid(store={store}) of {natom} {m} degree-{d} atom(s) changed after the caller edited the atomic grids it had passed in",
                     witness={"store": store, "method": m, "degree": d, "atoms": natom},
                     snippet=("import warnings; warnings.filterwarnings('ignore')\nimport numpy as np\nfrom grid.atomgrid import AtomGrid\nfrom grid.molgrid import MolGrid\nfrom grid.becke import BeckeWeights\nfrom grid.onedgrid import GaussLegendre\nfrom grid.rtransform import BeckeRTransform\n"
                              f"rg = BeckeRTransform(0.0, 1.5).transform_1d_grid(GaussLegendre(4)); ats = [AtomGrid(rg, degrees=[{d}], method={m!r}, center=np.array(c)) for c in ([0, 0, -.7], [0, 0, .7])[:{natom}]]\n"
                              f"mg = MolGrid(np.array([1, 8][:{natom}]), ats, BeckeWeights(), store={store}); p, w = mg.points.copy(), mg.weights.copy(); q = mg.get_atomic_grid(0).weights.copy()\n"
                              + ("ats[0].weights[...] = 0; ats[-1].center[...] = 5\n" if not store else "ats[-1].get_shell_grid(1).weights[...] = 0\n")
                              + "assert np.array_equal(mg.points, p) and np.array_equal(mg.weights, w) and np.array_equal(mg.get_atomic_grid(0).weights, q)\n"))
        if not store:
            lg = mg.get_atomic_grid(natom - 1)
            obs["molgrid_unstored_atomic_grid_is_view"] = bool(np.shares_memory(lg.points, mg.points) or np.shares_memory(mg[natom - 1].weights, mg.weights))
    return obs


def _kdtree_snippet(name, n, variant, rad):
    cls, dim = name.split(":")[0], int(name.split(":")[1][0])
    ctor = {"Grid": "Grid(p, w)", "PeriodicGrid": ("PeriodicGrid(p, w, np.diag([1.5, 2.0, 2.5]))" if dim == 3 else "PeriodicGrid(p, w, np.array([2.0]))")}[cls]
    return (f"import numpy as np\nfrom grid.basegrid import Grid\nfrom grid.periodicgrid import PeriodicGrid\nrng = np.random.default_rng(1); n, dim = {n}, {dim}\n"
            "pts = lambda: (rng.uniform(-1, 1, (n, dim)) if dim > 1 else rng.uniform(-1, 1, n))\n"
            f"make = lambda p, w: {ctor}\n"
            "same = lambda a, b: len(a.weights) == len(b.weights) and np.array_equal(np.sort(np.asarray(a.points).reshape(len(a.weights), -1), axis=0), np.sort(np.asarray(b.points).reshape(len(b.weights), -1), axis=0))\n"
            f"c = np.zeros(dim) if dim > 1 else np.array(0.0); rad = {rad}\n"
            "for trial in range(20):\n"
            "    p0, p1, p2, w = pts(), pts(), pts(), np.ones(n)\n"
            "    g = make(p0.copy(), w.copy())\n"
            + ("    g.get_localgrid(c, np.inf)\n" if variant == 3 and cls == "Grid" else "")
            + "    l = g.get_localgrid(c, rad); l.points[...] = 9; l.weights[...] = 9\n"
            "    assert np.array_equal(g.points, p0) and np.array_equal(g.weights, w), 'editing the local grid changed the parent'\n"
            "    assert same(g.get_localgrid(c, rad), make(p0.copy(), w.copy()).get_localgrid(c, rad)), 'second query differs'\n"
            + {0: "    g.points = p1.copy()\n", 3: "    g.points = p1.copy()\n", 1: "    a = g.points; a[...] = p1; g.points = a\n",
               2: "    g.points = p2.copy(); g.get_localgrid(c, rad); g.points = p1.copy()\n"}[variant]
            + "    assert same(g.get_localgrid(c, rad), make(p1.copy(), w.copy()).get_localgrid(c, rad)), 'query after assigning new points answers for other points'\n")


def _o_kdtree(ctx: Ctx, reps):
    """kd-tree memos (classes 9-11): query, assignment through the setter, edit-and-reassign, query; edits
    of the local grid handed out; first query in a fresh state with radius inf (which builds no tree).
    Every answer against a new grid object with the current points.  Returns the observations."""
    atg = importlib.import_module("grid.atomgrid")
    rt = importlib.import_module("grid.rtransform")
    one = importlib.import_module("grid.onedgrid")
    obs = {}
    for k in range(2 * reps):
        name, make, dim = ctx.rng.choice(_grid_factories(ctx))
        n = ctx.rng.choice([3, 40, 120])
        p0, p1, p2 = (_kd_points(ctx, n, dim) for _ in range(3))
        w = ctx.np_rng.uniform(0.5, 1.5, n)
        g = make(p0.copy(), w.copy())
        c = np.zeros(dim) if dim > 1 else np.array(0.0)
        rad = ctx.rng.choice([0.4, 0.9])
        variant = ctx.rng.randrange(4)
        ctx.count(["oracle-kdtree", name, n, variant], nontrivial=True, tag="oracle:kdtree")
        if variant == 3 and not name.startswith("Periodic"):
            g.get_localgrid(c, np.inf)                 # first call of a fresh object takes the branch that builds no tree
        l0 = g.get_localgrid(c, rad)
        ok = _same_local(l0, make(p0.copy(), w.copy()).get_localgrid(c, rad))
        l0.points[...] = 9.0                           # the caller edits what it was given
        l0.weights[...] = 9.0
        ok = ok and np.array_equal(g.points, p0) and np.array_equal(g.weights, w)
        ok = ok and _same_local(g.get_localgrid(c, rad), make(p0.copy(), w.copy()).get_localgrid(c, rad))
        if variant in (0, 3):
            g.points = p1.copy()
        elif variant == 1:
            arr = g.points
            arr[...] = p1
            g.points = arr
        else:
            g.points = p2.copy()
            g.get_localgrid(c, rad)
            g.points = p1.copy()
        g.weights = w[::-1].copy()
        l1 = g.get_localgrid(c, rad)
        ok = ok and _same_local(l1, make(p1.copy(), w[::-1].copy()).get_localgrid(c, rad))
        if not ok:
            ctx.fail("oracle", f"basegrid.get_localgrid:kdtree:{name.split(':')[0]}",
                     f"{name} with {n} points: get_localgrid after a query / edit of the local grid / assignment of new points (variant {variant}) differs from a new grid object with the same points",
                     witness={"class": name, "n": n, "variant": variant, "radius": rad},
                     snippet=_kdtree_snippet(name, n, variant, rad))
    # AtomGrid.get_localgrid twice with an edit of the first result
    rg = rt.BeckeRTransform(0.0, 1.5).transform_1d_grid(one.GaussLegendre(5))
    a = atg.AtomGrid(rg, degrees=[5], center=np.array([0.0, 0.0, 0.5]))
    l0 = a.get_localgrid(np.array([0.0, 0.0, 0.5]), 1.0)
    keep = (np.sort(l0.indices), a.points.copy(), a.weights.copy())
    l0.points[...] = 0.0
    l0.weights[...] = 0.0
    l1 = a.get_localgrid(np.array([0.0, 0.0, 0.5]), 1.0)
    ctx.count(["oracle-kdtree-atomgrid"], nontrivial=True, tag="oracle:kdtree")
    if not (np.array_equal(np.sort(l1.indices), keep[0]) and np.array_equal(a.points, keep[1]) and np.array_equal(a.weights, keep[2])
            and np.array_equal(l1.points, a.points[l1.indices])):
        ctx.fail("oracle", "basegrid.get_localgrid:kdtree:AtomGrid", "AtomGrid.get_localgrid: second answer / the atomic grid itself changed after the first local grid was edited",
                 witness={"degree": 5})
    # observations (code as it is)
    bg = importlib.import_module("grid.basegrid")
    p = ctx.np_rng.uniform(-1, 1, (300, 3))
    g = bg.Grid(p.copy(), np.ones(300))
    g.get_localgrid(np.zeros(3), 0.6)
    g.points[...] = ctx.np_rng.uniform(-1, 1, (300, 3))
    got = g.get_localgrid(np.zeros(3), 0.6)
    ref = bg.Grid(g.points.copy(), np.ones(300)).get_localgrid(np.zeros(3), 0.6)
    obs["kdtree_stale_after_inplace_edit_of_points"] = not _same_local(got, ref)
    li = g.get_localgrid(np.zeros(3), np.inf)
    obs["localgrid_radius_inf_shares_parent_arrays"] = bool(np.shares_memory(li.points, g.points) or np.shares_memory(li.weights, g.weights))
    return obs


EXC_SNIPPETS = {
    "complex-and-layers": (
        "import warnings; warnings.filterwarnings('ignore')\nimport numpy as np\nfrom grid.atomgrid import AtomGrid\nfrom grid.basegrid import OneDGrid\nfrom grid.molgrid import MolGrid\n"
        "from grid.becke import BeckeWeights\nfrom grid.onedgrid import GaussLegendre\nfrom grid.rtransform import BeckeRTransform\n"
        "r1 = OneDGrid(np.array([0.8]), np.array([1.0]), (0.0, np.inf)); r3 = BeckeRTransform(0.0, 1.5).transform_1d_grid(GaussLegendre(3))\n"
        "ats = [AtomGrid(r1, degrees=[7], center=np.array([0, 0, -.7])), AtomGrid(r3, degrees=[3, 9, 5], method='spherical', center=np.array([.3, 0, .7]))]\n"
        "mg = MolGrid(np.array([8, 1]), ats, BeckeWeights())      # atoms of different sizes\nassert mg.size == ats[0].size + ats[1].size\n"
        "a = AtomGrid(r3, degrees=[5]); f = np.exp(-np.sum(a.points**2, axis=1)); a.radial_component_splines(f * (1 + 2j))\n"),
    "coulomb.load_atomic_gaussian_params:fresh-state": (
        "import grid.coulomb as cou\ncou._ATOMIC_GAUSS_PARAMS_CACHE = None\ncou.load_atomic_gaussian_params(6)\n"
        "cou._ATOMIC_GAUSS_PARAMS_CACHE = None\ncou.load_atomic_gaussian_params('c')\n"),
}


def _b_reject_snippet(cls, b0, seq, x):
    lines = ["import warnings; warnings.filterwarnings('ignore')", "import numpy as np", "from grid import rtransform as rt",
             f"tf = rt.{cls}(0.1, 12.0, b={b0!r}); new = rt.{cls}(0.1, 12.0, b={b0!r})"]
    for meth, g in seq:
        lines += [f"try:\n    tf.{meth}(np.array({g.tolist()!r}))\nexcept ValueError:\n    pass      # rejected: the maximum of the grid is (nearly) zero"]
    lines.append(f"x = np.array({x.tolist()!r})")
    lines.append("assert np.array_equal(tf.transform(x), new.transform(x), equal_nan=True) and tf.b == new.b, 'a rejected call left its scale behind'")
    return "\n".join(lines) + "\n"


def _o_b_rejected(ctx: Ctx, rt, reps=6):
    """A call rejected because the maximum of its grid is (nearly) zero leaves no trace: after any number of
    rejected calls (any method, grids on the rejected side of the 1e-16 window) the next accepted call, and
    everything after it, equals what a new object gives that never saw the rejected grids (repair 92a7e5b)."""
    for k in range(3 * reps):
        cls = ctx.rng.choice(list(B_CLASSES))
        b0 = None if ctx.rng.random() < 0.8 else 5.0
        tf, new = B_CLASSES[cls](rt, b0), B_CLASSES[cls](rt, b0)
        seq, n_rej = [], 0
        for _ in range(ctx.rng.randrange(1, 4)):
            mx = ctx.rng.choice([0.0, -0.0, 1e-300, 1e-17, 0.99e-16, -1e-17])
            n = ctx.rng.randrange(1, 5)
            g = np.array([mx - j for j in range(n)])
            ctx.np_rng.shuffle(g)
            meth = ctx.rng.choice([m for m in B_METHODS[cls] if m != "inverse"])
            seq.append((meth, g))
            try:
                with np.errstate(all="ignore"):
                    getattr(tf, meth)(g)
            except ValueError:
                n_rej += 1
        x = np.arange(float(ctx.rng.randrange(3, 9))) * ctx.rng.choice([1.0, 2.0 ** -20, 2.0 ** 10])
        ctx.count(["oracle-b-rejected", cls, b0, [(m, g.tolist()) for m, g in seq], x.tolist()], nontrivial=n_rej > 0, tag="oracle:b-rejected")
        with np.errstate(all="ignore"):
            try:
                later, later_b = tf.transform(x), tf.b
            except Exception as e:   # noqa: BLE001
                later, later_b = np.full(len(x), np.nan), f"raised {type(e).__name__}"
            fresh, fresh_b = new.transform(x), new.b
        ok = np.array_equal(later, fresh, equal_nan=True) and later_b == fresh_b and (b0 is not None or n_rej == len(seq))
        if b0 is not None:
            ok = ok and n_rej == 0          # a fixed scale never rejects a grid
        if not ok:
            ctx.fail("oracle", "rtransform.set_maximum_parameter_b:rejected-call",
                     f"{cls}(0.1, 12.0, b={b0}): after {len(seq)} call(s) on grids with a (nearly) zero maximum ({n_rej} raised ValueError) the object has b = {later_b} "
                     f"and transform({x.tolist()}) = {later.tolist()}; a new object has b = {fresh_b} and gives {fresh.tolist()}",
                     witness={"class": cls, "b": b0, "rejected_calls": [(m, g.tolist()) for m, g in seq], "x": x.tolist()},
                     snippet=_b_reject_snippet(cls, b0, seq, x))


def _oracle_round3(ctx: Ctx, budget: str):
    ang = importlib.import_module("grid.angular")
    rt = importlib.import_module("grid.rtransform")
    cou = importlib.import_module("grid.coulomb")
    reps = {"small": 6, "large": 40}[budget] * (3 if ctx.thorough else 1)
    obs = {}

    harness_errors = []

    def guarded(key, fn, *a):
        """Run one part; an exception raised by the library inside a legal history is a failing input, an exception of the
        harness itself is kept and re-raised after all parts have run."""
        try:
            r = fn(ctx, *a)
            if isinstance(r, dict):
                obs.update(r)
        except Exception as e:   # noqa: BLE001
            import traceback
            last = traceback.extract_tb(e.__traceback__)[-1].filename
            if "/harness/" in last:
                harness_errors.append(e)
                ctx.info(f"part {key} of the oracle stopped with {type(e).__name__}: {str(e)[:150]} (the other parts ran)")
                return
            ctx.fail("oracle", key + ":raises", f"the library raised {type(e).__name__}: {str(e)[:200]} inside a history of legal calls",
                     witness={"traceback": traceback.format_exc()[-1500:]}, snippet=EXC_SNIPPETS.get(key))
    guarded("angular.AngularGrid:cache:fresh-state", _o_angular_matrix, ang, reps)
    guarded("coulomb.load_atomic_gaussian_params:fresh-state", _o_coulomb_fresh, cou)
    guarded("hirshfeld.HirshfeldWeights:proatom", _o_hirshfeld, reps)
    guarded("becke.BeckeWeights:radii", _o_becke, reps)
    guarded("rtransform.b:objects", _o_b_objects, rt, reps)
    guarded("rtransform.b:rejected-call", _o_b_rejected, rt, reps)
    guarded("rtransform.b:call-that-raises", _o_b_exceptions, rt, reps)
    guarded("rejected-request", _o_exceptions_other_state, reps)
    guarded("array-kinds", _o_kinds, reps)
    guarded("argument-forms", _o_arg_combinations, reps)
    guarded("reused-arguments", _o_reused_arguments, reps)
    guarded("complex-and-layers", _o_complex_and_layers, reps)
    guarded("block-sizes", _o_block_sizes, reps)
    guarded("orders-and-parameters", _o_orders_and_parameters, reps)
    guarded("precisions", _o_precisions, reps)
    guarded("identity-and-instances", _o_identity_and_instances, reps)
    guarded("handed-out", _o_handed_out, reps)
    guarded("by-reference", _o_by_reference_isolation, reps)
    guarded("atomgrid.AtomGrid.basis:memo", _o_basis, reps)
    guarded("molgrid.MolGrid:atgrids", _o_molgrid_stored, reps)
    guarded("basegrid.get_localgrid:kdtree", _o_kdtree, reps)
    # Judged OUTSIDE the property by the lead (DESIGN 8.3: an in-place edit of an array property of a grid without assignment
    # is outside the clause; the base-class properties return the stored arrays by convention): information only.  The Lean
    # theorems `basis_memo_corruptible_at` / `memo_stale_after_inplace_edit_at` describe the code as it is.
    ctx.extra["observed_aliasing (true = present in this tree; outside the property, information only)"] = obs
    for k, v in obs.items():
        if v:
            ctx.info(f"observed (outside the property, information only): {k}")
    if harness_errors:
        raise harness_errors[0]


def oracle_at(ctx: Ctx, failure):
    """Evaluate the property at the history on which model and implementation disagreed."""
    w = failure.witness or {}
    if not isinstance(w, dict):
        return
    ang = importlib.import_module("grid.angular")
    if failure.key == "angular.AngularGrid:cache-protocol" and "history" in w:
        ops = [tuple(o) for o in w["history"]]
        _clear(ang)
        arrays = []
        for k, op in enumerate(ops):
            if op[0] == "c":
                _, m, d, cache = op
                g = ang.AngularGrid(degree=d, method=m, cache=cache)
                deg, sp, sw = _shipped(ang, m, d)
                arrays.append((g.points, g.weights))
                if not (np.array_equal(g.points, sp) and np.array_equal(g.weights, sw)):
                    lines = ["import warnings; warnings.filterwarnings('ignore')", "import numpy as np", "from grid import angular as ang", "from grid.angular import AngularGrid",
                             "for c in ('LEBEDEV_CACHE','SPHERICAL_CACHE','MAX_DET_CACHE','AHRENS_BEYLKIN_CACHE'): getattr(ang, c).clear()",
                             f"ref = AngularGrid(degree={d}, method={m!r}, cache=False); rp, rw = ref.points.copy(), ref.weights.copy()",
                             "for c in ('LEBEDEV_CACHE','SPHERICAL_CACHE','MAX_DET_CACHE','AHRENS_BEYLKIN_CACHE'): getattr(ang, c).clear()", "gs = []"]
                    for o in ops[:k + 1]:
                        if o[0] == "c":
                            lines.append(f"gs.append(AngularGrid(degree={o[2]}, method={o[1]!r}, cache={bool(o[3])}))")
                        else:
                            lines.append(f"gs[{o[1]}].{'points' if o[2] == 'p' else 'weights'}[...] = {float(o[3])}")
                    lines.append("assert np.array_equal(gs[-1].points, rp) and np.array_equal(gs[-1].weights, rw), 'grid differs from the shipped data after this history'")
                    ctx.fail("oracle", "angular.AngularGrid:cache", f"history of {k + 1} operations: AngularGrid(degree={d}, method={m!r}, cache={cache}) does not return the shipped data",
                             witness={"history": [list(o) for o in ops[:k + 1]]}, snippet="\n".join(lines) + "\n")
                    break
            else:
                _, i, which, v = op
                arrays[i][0 if which == "p" else 1][...] = float(v)
        _clear(ang)
    elif failure.key.startswith(("basegrid.kdtree", "atomgrid.AtomGrid.basis", "module-state", "rtransform.")):
        _oracle_round3(ctx, "large")


# ------------------------------------------------------------------------------------------
# History independence against a *fresh process*: a new object in this process shares every
# module-level object, class attribute and function cache with the histories that ran before, so it
# is no reference for state kept there.  Each family of observations below is evaluated once in a
# process of its own (started before the histories, in parallel) and once in this process after all
# histories, in the opposite order; the bits must agree.
# ------------------------------------------------------------------------------------------
FAMILIES = ("angular", "becke", "basis", "misc")


def _bits(a):
    import hashlib
    a = np.ascontiguousarray(np.asarray(a, dtype=float))
    return f"{a.shape}:{hashlib.blake2b(a.tobytes(), digest_size=10).hexdigest()}"


def _observations(family):
    """-> [(name, thunk)] in canonical order; every thunk builds its objects anew and returns arrays."""
    import warnings
    warnings.filterwarnings("ignore")
    ang = importlib.import_module("grid.angular")
    atg = importlib.import_module("grid.atomgrid")
    rt = importlib.import_module("grid.rtransform")
    one = importlib.import_module("grid.onedgrid")
    out = []
    rg = rt.BeckeRTransform(0.0, 1.5).transform_1d_grid(one.GaussLegendre(5))
    if family == "angular":
        mol = importlib.import_module("grid.molgrid")
        bk = importlib.import_module("grid.becke")
        for m in METHODS:
            tab = sorted(int(k) for k in getattr(ang, PFX[m] + "_DEGREES"))
            for d in tab[:3]:
                out.append((f"AngularGrid({m},{d})", lambda m=m, d=d: (lambda g: [g.points, g.weights])(ang.AngularGrid(degree=d, method=m))))
                out.append((f"AngularGrid({m},size of {d})", lambda m=m, d=d: (lambda g: [g.points, g.weights])(
                    ang.AngularGrid(size=int(getattr(ang, PFX[m] + "_DEGREES")[d]), method=m.upper(), cache=False))))
            d = tab[1]
            out.append((f"AtomGrid({m},{d})", lambda m=m, d=d: (lambda a: [a.points, a.weights, a.get_shell_grid(2).points])(
                atg.AtomGrid(rg, degrees=[d], method=m, center=np.array([0.0, 0.1, 0.2]), rotate=3))))
            out.append((f"MolGrid({m},{d})", lambda m=m, d=d: (lambda g: [g.points, g.weights])(
                mol.MolGrid(np.array([1, 8]), [atg.AtomGrid(rg, degrees=[d], method=m, center=np.array(c)) for c in ([0.0, 0.0, -0.7], [0.0, 0.0, 0.7])],
                            bk.BeckeWeights(), store=True))))
    elif family == "becke":
        bk = importlib.import_module("grid.becke")
        pts = np.linspace(-2.0, 2.0, 42).reshape(14, 3) * np.array([1.0, -0.7, 0.4])
        atc = np.array([[0.0, 0.0, -0.7], [0.0, 0.3, 0.7], [0.9, 0.0, 0.0]])
        ind = np.array([0, 5, 9, 14])
        news = [lambda: bk.BeckeWeights(), lambda: bk.BeckeWeights(radii={1: 0.8, 6: 1.4}, order=2), lambda: bk.BeckeWeights(order=4)]
        for z in ([1, 6, 8], [1, 8, 6], [1, 7, 7], [2, 1, 7], [8, 8, 1], [8, 1, 8], [6, 8, 1], [6, 1, 8]):
            for j, new in enumerate(news):
                out.append((f"BeckeWeights#{j}{z}", lambda z=z, new=new: [new()(pts, atc, np.array(z), ind),
                                                                          new().compute_weights(pts, atc, np.array(z), pt_ind=ind)]))
        hw = importlib.import_module("grid.hirshfeld")
        for z in ([1, 8, 6], [6, 8, 1], [7, 7, 1]):
            out.append((f"HirshfeldWeights{z}", lambda z=z: [hw.HirshfeldWeights()(pts, atc, np.array(z), ind)]))
    elif family == "basis":
        probe = np.array([[0.3, 0.1, -0.2], [0.0, 0.9, 0.4], [-1.1, 0.2, 0.3]])
        for deg in (3, 5, 7):
            for cz in (0.0, 0.4):
                for fk in (0, 1):
                    def obs(deg=deg, cz=cz, fk=fk):
                        cen = np.array([0.0, 0.0, cz])
                        a = atg.AtomGrid(rg, degrees=[deg], center=cen)
                        r2 = np.sum((a.points - cen) ** 2, axis=1)
                        f = (np.exp(-r2), np.exp(-0.5 * r2) * (1.0 + (a.points - cen)[:, 2]))[fk]
                        return [_spline_values(a.radial_component_splines(f)), a.interpolate(f)(probe + cen), a.basis]
                    out.append((f"basis(deg={deg},z={cz},f{fk})", obs))
    elif family == "misc":
        hw = importlib.import_module("grid.hirshfeld")
        cou = importlib.import_module("grid.coulomb")
        utils = importlib.import_module("grid.utils")
        bg = importlib.import_module("grid.basegrid")
        pts = np.linspace(-2.0, 2.0, 36).reshape(12, 3) * np.array([1.0, -0.7, 0.4])
        for num in sorted(int(p.stem[1:]) for p in (SRC / "data" / "proatoms").glob("a*.npz")):
            out.append((f"proatom({num})", lambda num=num: [hw.HirshfeldWeights.generate_proatom(pts, np.array([0.1, -0.2, 0.3]), num)]))
        for el in ("H", 6, "o", 26):
            out.append((f"coulomb({el!r})", lambda el=el: list(cou.load_atomic_gaussian_params(el))))
        for t in ("bragg", "cambridge", "alvarez"):
            out.append((f"cov_radii({t})", lambda t=t: [np.nan_to_num(utils.get_cov_radii(np.arange(1, 87), t), nan=-1.0), np.nan_to_num(utils.get_cov_radii(6, t), nan=-1.0)]))
        for cls in B_CLASSES:
            for n in (4, 9):
                out.append((f"{cls}(n={n})", lambda cls=cls, n=n: (lambda tf: [tf.transform(np.arange(float(n))), tf.deriv(np.arange(7.0)), np.array([tf.b])])(B_CLASSES[cls](rt, None))))
        p3 = np.linspace(-1.0, 1.0, 90).reshape(30, 3) * np.array([1.0, -0.5, 0.25])
        out.append(("localgrid", lambda: (lambda lg: [np.sort(lg.indices)])(bg.Grid(p3.copy(), np.ones(30)).get_localgrid(np.zeros(3), 0.6))))
        out.append(("AtomGrid(default degrees)", lambda: (lambda a: [a.weights, np.array(a.degrees, dtype=float)])(
            atg.AtomGrid(rt.BeckeRTransform(0.0, 1.5).transform_1d_grid(one.GaussLegendre(2))))))
        out.append(("AtomGrid.from_preset(coarse,Z=6)", lambda: (lambda a: [a.points, a.weights])(atg.AtomGrid.from_preset(atnum=6, preset="coarse"))))
    else:
        raise ValueError(family)
    return out


def _observe(family, reverse=False):
    obs = _observations(family)
    if reverse:
        obs = obs[::-1]
    res = {}
    for name, thunk in obs:
        try:
            res[name] = [_bits(a) for a in thunk()]
        except Exception as e:   # noqa: BLE001
            res[name] = [f"raised {type(e).__name__}"]
    return res


def _observe_main(family):
    import json
    import sys
    sys.stdout.write("@@" + json.dumps(_observe(family)) + "\n")


def _pristine_start():
    """Start one fresh process per family. -> {family: Popen}"""
    import os
    import subprocess
    import sys
    env = dict(os.environ)
    if os.environ.get("GRID_REPO"):
        env["PYTHONPATH"] = os.path.join(os.environ["GRID_REPO"], "src") + os.pathsep + env.get("PYTHONPATH", "")
    procs = {}
    for fam in FAMILIES:
        procs[fam] = subprocess.Popen([sys.executable, "-c", f"from harness.props.c19 import _observe_main; _observe_main({fam!r})"],
                                      cwd=str(__import__('pathlib').Path(__file__).resolve().parents[2]),
                                      env=env, stdout=subprocess.PIPE, stderr=subprocess.PIPE, text=True)
    return procs


SNIP_PROCESS = """import subprocess, sys, json
verif, fam, seed, tier, budget = %r, %r, %r, %r, %r
pre = 'import sys; sys.path.insert(0, %%r); import json; from harness.props import c19; ' %% verif
fresh = pre + 'print("@@" + json.dumps(c19._observe(%%r)))' %% fam
after = pre + 'print("@@" + json.dumps(c19._observe_after_histories(%%r, %%r, %%r, %%r)))' %% (fam, seed, tier, budget)
def run(code):
    out = subprocess.run([sys.executable, '-c', code], capture_output=True, text=True).stdout
    return json.loads([l for l in out.splitlines() if l.startswith('@@')][0][2:])
a, b = run(fresh), run(after)
bad = [k for k in a if a[k] != b[k]]
assert not bad, f'observations that differ between a fresh process and a process that first ran the histories of the check: {bad}'
"""


def _observe_after_histories(family, seed, tier, budget):
    """What `_pristine_compare` compares with the fresh process: the observations after the histories of a run."""
    ctx = Ctx("C19", tier, seed)
    _oracle_histories(ctx, budget)
    _oracle_round3(ctx, budget)
    return _observe(family, reverse=True)


def _pristine_compare(ctx: Ctx, procs, budget="small"):
    import json
    for fam, p in procs.items():
        try:
            out, err = p.communicate(timeout=300)
            line = [ln for ln in out.splitlines() if ln.startswith("@@")]
            ref = json.loads(line[0][2:])
        except Exception as e:   # noqa: BLE001
            ctx.info(f"fresh-process reference for {fam} unavailable: {type(e).__name__}: {str(e)[:100]}")
            continue
        got = _observe(fam, reverse=True)
        for name in ref:
            ctx.count(["fresh-process", fam, name], nontrivial=True, tag=f"oracle:fresh-process:{fam}")
            if got.get(name) != ref[name]:
                ctx.fail("oracle", f"history-independence:{fam}",
                         f"{name}: the value observed after the histories of this run differs bit for bit from the value a fresh process observes "
                         f"(this process {got.get(name)}, fresh process {ref[name]}): the result depends on what happened before in the process",
                         witness={"family": fam, "observation": name},
                         snippet=SNIP_PROCESS % (str(__import__('pathlib').Path(__file__).resolve().parents[2]), fam, ctx.seed, ctx.tier, budget))


# ------------------------------------------------------------------------------------------
# Calls that end in an exception (round 3, after a seeded change that moved the domain guard of
# transform_1d_grid behind the calls that fix the scale): a call that raises leaves every remembered
# parameter / memo / cache of the object and of the module as it was.
# ------------------------------------------------------------------------------------------
def _one_d(points, domain=(0.0, np.inf)):
    bg = importlib.import_module("grid.basegrid")
    points = np.asarray(points, dtype=float)
    return bg.OneDGrid(points, np.ones(len(points)) / len(points), domain)


def _b_entry_call(ctx: Ctx, cls):
    """One call of a public entry point of a b-scaled transform.
    -> (description for replay, callable(tf), guards-accept flag for the model, maximum the call would see)"""
    one = importlib.import_module("grid.onedgrid")
    r = ctx.rng.random()
    if r < 0.35:
        mx = ctx.rng.choice(TINY) if ctx.rng.random() < 0.5 else float(ctx.rng.randrange(1, 9))
        n = ctx.rng.randrange(1, 5)
        x = np.array([mx - k for k in range(n)])
        ctx.np_rng.shuffle(x)
        meth = ctx.rng.choice([m for m in B_METHODS[cls] if m != "inverse"])
        return (f"tf.{meth}(np.array({x.tolist()!r}))", lambda tf: getattr(tf, meth)(x), True, float(np.max(x)))
    if r < 0.6:                       # transform_1d_grid on a grid its guards accept
        if ctx.rng.random() < 0.5:
            n = ctx.rng.randrange(2, 9)
            return (f"tf.transform_1d_grid(UniformInteger({n}))", lambda tf: tf.transform_1d_grid(one.UniformInteger(n)), True, float(n - 1))
        mx = ctx.rng.choice([0.0, 1e-17, 0.99e-16, 2.5, 6.0])
        pts = np.array([mx * k / 3.0 for k in range(4)])
        pts[-1] = mx
        return (f"tf.transform_1d_grid(OneDGrid(np.array({pts.tolist()!r}), np.ones(4) / 4, (0.0, np.inf)))",
                lambda tf: tf.transform_1d_grid(_one_d(pts)), True, float(np.max(pts)))
    # transform_1d_grid on something its guards refuse
    k = ctx.rng.randrange(5)
    if k == 0:
        n = ctx.rng.randrange(2, 7)
        g = one.GaussLegendre(n)
        return (f"tf.transform_1d_grid(GaussLegendre({n}))", lambda tf: tf.transform_1d_grid(g), False, float(np.max(g.points)))
    if k == 1:
        pts = np.array([-0.4, 0.5, float(ctx.rng.randrange(1, 4))])
        return (f"tf.transform_1d_grid(OneDGrid(np.array({pts.tolist()!r}), np.ones(3) / 3, (-0.5, 3.5)))",
                lambda tf: tf.transform_1d_grid(_one_d(pts, (-0.5, 3.5))), False, float(np.max(pts)))
    if k == 2:
        pts = np.array([0.5, 1.5, float(ctx.rng.randrange(2, 6))])
        return (f"tf.transform_1d_grid(OneDGrid(np.array({pts.tolist()!r}), np.ones(3) / 3, None))",
                lambda tf: tf.transform_1d_grid(_one_d(pts, None)), False, float(np.max(pts)))
    if k == 3:
        arr = np.arange(float(ctx.rng.randrange(2, 6)))
        return (f"tf.transform_1d_grid(np.array({arr.tolist()!r}))", lambda tf: tf.transform_1d_grid(arr), False, float(np.max(arr)))
    n = ctx.rng.randrange(2, 6)
    g = one.GaussChebyshev(n)
    return (f"tf.transform_1d_grid(GaussChebyshev({n}))", lambda tf: tf.transform_1d_grid(g), False, float(np.max(g.points)))


def _b_entry_corr(ctx: Ctx):
    """Histories over all entry points (methods and transform_1d_grid, accepted / refused by the guards / rejected for a zero
    maximum): which calls raise and what the object remembers after each, against `t1dStep` with the regenerated statement
    order of transform_1d_grid and the regenerated `setMaxBChecked_*`."""
    rt = importlib.import_module("grid.rtransform")
    for _ in range(ctx.n(40, 800)):
        cls = ctx.rng.choice(list(B_CLASSES))
        b0 = None if ctx.rng.random() < 0.8 else float(ctx.rng.choice([3.0, 7.0]))
        tf = B_CLASSES[cls](rt, b0)
        descr, toks, impl = [], [], []
        for _ in range(ctx.rng.randrange(1, 6)):
            d, call, ok, mx = _b_entry_call(ctx, cls)
            raised = False
            try:
                with np.errstate(all="ignore"):
                    call(tf)
            except Exception:   # noqa: BLE001 - any exception ends the call
                raised = True
            descr.append(d)
            toks += ["1" if ok else "0", f2b(mx)]
            impl.append((None if tf.b is None else float(tf.b), raised))
        ans = driver_batch([f"C19.bcalls {cls} {'none' if b0 is None else f2b(b0)} " + " ".join(toks)])[0].split()[1:]
        model = [(None if ans[2 * i] == "none" else b2f(ans[2 * i]), ans[2 * i + 1] == "1") for i in range(len(descr))]
        ctx.count(["b-entry-history", cls, b0, descr], nontrivial=any(r for _, r in impl) and not all(r for _, r in impl),
                  tag=f"b-entry:{cls}")
        ctx.traces += 1
        same = all((a[1] == b[1]) and ((a[0] is None) == (b[0] is None)) and (a[0] is None or f2b(a[0]) == f2b(b[0])) for a, b in zip(impl, model))
        if not same:
            ctx.fail("corr", f"rtransform.{cls}.b:entry-points", f"(remembered scale, raised) after each call: implementation {impl}, model {model}",
                     witness={"class": cls, "b": b0, "calls": descr})


SNIP_HEAD = ("import warnings; warnings.filterwarnings('ignore')\nimport numpy as np\nfrom grid import rtransform as rt\n"
             "from grid.basegrid import OneDGrid\nfrom grid.onedgrid import GaussLegendre, GaussChebyshev, UniformInteger\n")


def _o_b_exceptions(ctx: Ctx, rt, reps=6):
    """Any public entry point of a b-scaled transform that ends in an exception, then an accepted call: the accepted call
    (transform_1d_grid of UniformInteger(N) or a method on arange(N)) must give what a new object gives."""
    one = importlib.import_module("grid.onedgrid")
    obs = {}
    for k in range(4 * reps):
        cls = ctx.rng.choice(list(B_CLASSES))
        tf, new = B_CLASSES[cls](rt, None), B_CLASSES[cls](rt, None)
        descr, n_raised = [], 0
        for _ in range(ctx.rng.randrange(1, 4)):
            # calls chosen to raise: refused / rejected grids, bad arguments
            r = ctx.rng.random()
            if r < 0.6:
                d, call, ok, mx = _b_entry_call(ctx, cls)
                if ok and not (abs(mx) < 1e-16):
                    continue                      # would be accepted: not part of this clause
            else:
                arg, txt = ctx.rng.choice([(None, "None"), ("abc", "'abc'"), (np.array([]), "np.array([])"), (np.zeros(3), "np.zeros(3)"),
                                           (np.zeros((2, 2)), "np.zeros((2, 2))")])
                meth = ctx.rng.choice(B_METHODS[cls] + ["transform_1d_grid", "set_maximum_parameter_b"])
                d, call = f"tf.{meth}({txt})", (lambda tf, meth=meth, arg=arg: getattr(tf, meth)(arg))
            try:
                with np.errstate(all="ignore"):
                    call(tf)
                descr.append(d + "   # accepted")
            except Exception:   # noqa: BLE001
                n_raised += 1
                descr.append(d)
        if n_raised == 0 or any(d.endswith("# accepted") for d in descr):
            continue
        n = ctx.rng.randrange(4, 12)
        final = ctx.rng.choice(["transform_1d_grid", "transform", "deriv"])
        ctx.count(["oracle-b-exceptions", cls, descr, final, n], nontrivial=True, tag="oracle:b-exceptions")
        with np.errstate(all="ignore"):
            if final == "transform_1d_grid":
                a, b = tf.transform_1d_grid(one.UniformInteger(n)), new.transform_1d_grid(one.UniformInteger(n))
                same = np.array_equal(a.points, b.points, equal_nan=True) and np.array_equal(a.weights, b.weights, equal_nan=True)
                got, want = a.points, b.points
                ftxt = f"tf.transform_1d_grid(UniformInteger({n})).points, new.transform_1d_grid(UniformInteger({n})).points"
            else:
                got, want = getattr(tf, final)(np.arange(float(n))), getattr(new, final)(np.arange(float(n)))
                same = np.array_equal(got, want, equal_nan=True)
                ftxt = f"tf.{final}(np.arange({n}.0)), new.{final}(np.arange({n}.0))"
        if not (same and tf.b == new.b):
            lines = [SNIP_HEAD + f"tf, new = rt.{cls}(0.1, 12.0), rt.{cls}(0.1, 12.0)"]
            for d in descr:
                lines.append(f"try:\n    {d}\nexcept Exception:\n    pass")
            lines.append(f"a, b = {ftxt}")
            lines.append("assert np.array_equal(a, b, equal_nan=True) and tf.b == new.b, f'a call that raised left its scale behind: b = {tf.b}, a new object has {new.b}'")
            ctx.fail("oracle", "rtransform.b:call-that-raises",
                     f"{cls}(0.1, 12.0): after {descr} (all raised) the object has b = {tf.b} where a new object gets {new.b}; {final} on {n} points gives "
                     f"{np.asarray(got)[:4].tolist()}… instead of {np.asarray(want)[:4].tolist()}…",
                     witness={"class": cls, "calls_that_raised": descr, "then": final, "n": n}, snippet="\n".join(lines) + "\n")
    # information (see the report): a Python list / tuple argument raises TypeError *after* the scale was taken from it
    for cls in B_CLASSES:
        tf = B_CLASSES[cls](rt, None)
        try:
            tf.transform([0.0, 1.0, 2.0])
            lst = None
        except Exception as e:   # noqa: BLE001
            lst = type(e).__name__
        obs[f"{cls}: transform([0., 1., 2.]) raises {lst} and leaves b = {tf.b} (list argument, documented type is ndarray)"] = lst is not None and tf.b is not None
    return obs


def _dict_state(d):
    return {k: tuple(id(x) for x in v) if isinstance(v, tuple) else id(v) for k, v in d.items()}


def _o_exceptions_other_state(ctx: Ctx, reps=6):
    """A rejected request leaves the caches / memos as they were: angular caches, the Coulomb table, kd-trees, the basis memo,
    Becke / Hirshfeld objects.  After the rejected call the stored objects are the same objects with the same content and the
    next accepted call gives the reference value."""
    ang = importlib.import_module("grid.angular")
    cou = importlib.import_module("grid.coulomb")
    bg = importlib.import_module("grid.basegrid")
    pg = importlib.import_module("grid.periodicgrid")
    atg = importlib.import_module("grid.atomgrid")
    rt = importlib.import_module("grid.rtransform")
    one = importlib.import_module("grid.onedgrid")
    import json

    def raised(f):
        try:
            f()
            return False
        except Exception:   # noqa: BLE001
            return True
    # -- angular caches
    bad_requests = [("degree=10**6", dict(degree=10 ** 6)), ("degree=-1", dict(degree=-1)), ("degree=3.5", dict(degree=3.5)),
                    ("degree='3'", dict(degree="3")), ("size=10**7", dict(size=10 ** 7)), ("size=-3", dict(degree=None, size=-3)),
                    ("method='foo'", dict(degree=3, method="foo")), ("method=None", dict(degree=3, method=None))]
    for m in METHODS:
        for filled in (False, True):
            _clear(ang)
            d = _degree_pool(ang, m)[0]
            if filled:
                ang.AngularGrid(degree=d, method=m)
            before = {mm: _dict_state(getattr(ang, CACHES[mm])) for mm in METHODS}
            txt, kw = ctx.rng.choice(bad_requests)
            kw = dict(kw)
            kw.setdefault("method", m)
            kw["cache"] = ctx.rng.random() < 0.7
            r = raised(lambda: ang.AngularGrid(**kw))
            after = {mm: _dict_state(getattr(ang, CACHES[mm])) for mm in METHODS}
            g = ang.AngularGrid(degree=d, method=m)
            deg, sp, sw = _shipped(ang, m, d)
            ctx.count(["oracle-exc-angular", m, filled, txt], nontrivial=True, tag="oracle:exceptions:angular")
            if not r:
                continue
            if before != after or not (np.array_equal(g.points, sp) and np.array_equal(g.weights, sw)):
                ctx.fail("oracle", "angular.AngularGrid:cache:rejected-request",
                         f"AngularGrid({txt}, method={kw['method']!r}, cache={kw['cache']}) raised, but the cache dictionaries changed "
                         f"or the next AngularGrid(degree={d}, method={m!r}) differs from the shipped data",
                         witness={"method": m, "request": txt, "cache_filled_before": filled},
                         snippet=("import warnings; warnings.filterwarnings('ignore')\nimport numpy as np\nfrom grid import angular as ang\nfrom grid.angular import AngularGrid\n"
                                  "names = ('LEBEDEV_CACHE','SPHERICAL_CACHE','MAX_DET_CACHE','AHRENS_BEYLKIN_CACHE')\nfor c in names: getattr(ang, c).clear()\n"
                                  f"ref = AngularGrid(degree={d}, method={m!r}, cache=False)\n" + (f"AngularGrid(degree={d}, method={m!r})\n" if filled else "")
                                  + "before = {c: sorted(getattr(ang, c)) for c in names}\n"
                                  + f"try:\n    AngularGrid(**{kw!r})\nexcept Exception:\n    pass\n"
                                  + "assert before == {c: sorted(getattr(ang, c)) for c in names}, 'a rejected request changed the caches'\n"
                                  + f"g = AngularGrid(degree={d}, method={m!r})\nassert np.array_equal(g.points, ref.points) and np.array_equal(g.weights, ref.weights)\n"))
    _clear(ang)
    # -- Coulomb table
    rawj = json.loads((SRC / "data" / "atomic_gauss_params.json").read_text())
    utils = importlib.import_module("grid.utils")
    missing = [s for _, s in sorted(utils.num2sym.items()) if s not in rawj]
    bad_loads = ["Xx", 0, 200, 3.5, None, "", -1] + missing[:2]
    for loaded in (False, True):
        for bad in ctx.rng.sample(bad_loads, 4):
            if hasattr(cou, "_ATOMIC_GAUSS_PARAMS_CACHE"):
                cou._ATOMIC_GAUSS_PARAMS_CACHE = None
            if loaded:
                cou.load_atomic_gaussian_params("H")
            table = getattr(cou, "_ATOMIC_GAUSS_PARAMS_CACHE", None)
            r = raised(lambda: cou.load_atomic_gaussian_params(bad))
            table2 = getattr(cou, "_ATOMIC_GAUSS_PARAMS_CACHE", None)
            ctx.count(["oracle-exc-coulomb", loaded, repr(bad)], nontrivial=True, tag="oracle:exceptions:coulomb")
            if not r:
                continue
            ok = (table2 is table) if loaded else (table2 is None or _deep_equal(table2, rawj))
            try:
                c, a = cou.load_atomic_gaussian_params(6)
                ok = ok and np.array_equal(c, np.asarray(rawj["C"]["coeffs_s"], float)) and np.array_equal(a, np.asarray(rawj["C"]["alphas_s"], float))
            except Exception:   # noqa: BLE001
                ok = False
            if not ok:
                ctx.fail("oracle", "coulomb.load_atomic_gaussian_params:rejected-request",
                         f"load_atomic_gaussian_params({bad!r}) raised ({'table loaded before' if loaded else 'table not loaded yet'}); afterwards the table is another object / the parameters of carbon differ from the file",
                         witness={"element": repr(bad), "loaded_before": loaded},
                         snippet=("import json, numpy as np\nimport grid.coulomb as cou\nfrom importlib.resources import files\n"
                                  "raw = json.loads(files('grid.data').joinpath('atomic_gauss_params.json').read_text())\ncou._ATOMIC_GAUSS_PARAMS_CACHE = None\n"
                                  + ("cou.load_atomic_gaussian_params('H')\n" if loaded else "")
                                  + f"try:\n    cou.load_atomic_gaussian_params({bad!r})\nexcept Exception:\n    pass\n"
                                  "c, a = cou.load_atomic_gaussian_params(6)\nassert np.array_equal(c, np.asarray(raw['C']['coeffs_s'], float)) and np.array_equal(a, np.asarray(raw['C']['alphas_s'], float))\n"))
    # -- kd-trees
    for k in range(reps):
        name, make, dim = ctx.rng.choice(_grid_factories(ctx))
        n = ctx.rng.choice([5, 40])
        p0, w = _kd_points(ctx, n, dim), np.ones(n)
        g = make(p0.copy(), w.copy())
        c = np.zeros(dim) if dim > 1 else np.array(0.0)
        built = ctx.rng.random() < 0.5
        if built:
            g.get_localgrid(c, 0.8)
        tree = getattr(g, "_kdtree", None)
        bad = ctx.rng.randrange(4)
        if bad == 0:
            r = raised(lambda: g.get_localgrid(np.zeros(dim + 1), 0.8))
        elif bad == 1:
            r = raised(lambda: g.get_localgrid(c, -1.0))
        elif bad == 2:
            r = raised(lambda: g.get_localgrid(c, np.nan))
        else:
            r = raised(lambda: setattr(g, "points", np.zeros((n + 1, dim)) if dim > 1 else np.zeros(n + 1)))
        ctx.count(["oracle-exc-kdtree", name, n, built, bad], nontrivial=True, tag="oracle:exceptions:kdtree")
        if not r:
            continue
        ok = getattr(g, "_kdtree", None) is tree and np.array_equal(g.points, p0) and \
            _same_local(g.get_localgrid(c, 0.8), make(p0.copy(), w.copy()).get_localgrid(c, 0.8))
        if not ok:
            ctx.fail("oracle", f"basegrid.get_localgrid:kdtree:rejected-request:{name.split(':')[0]}",
                     f"{name} with {n} points (tree built before: {built}): a rejected request (kind {bad}: 0 wrong centre shape, 1 negative radius, 2 nan radius, 3 points of another shape) "
                     f"changed the tree / the points, or the next get_localgrid differs from a new grid's",
                     witness={"class": name, "n": n, "built": built, "kind": bad})
    # -- basis memo, Becke, Hirshfeld
    rg = rt.BeckeRTransform(0.0, 1.5).transform_1d_grid(one.GaussLegendre(5))
    a = atg.AtomGrid(rg, degrees=[5])
    f = np.exp(-np.sum(a.points ** 2, axis=1))
    r = raised(lambda: a.radial_component_splines(f[:-1])) and raised(lambda: a.interpolate(np.ones(3)))
    ctx.count(["oracle-exc-basis"], nontrivial=True, tag="oracle:exceptions:basis")
    if r and not (a.basis is None and np.array_equal(_spline_values(a.radial_component_splines(f)),
                                                      _spline_values(atg.AtomGrid(rg, degrees=[5]).radial_component_splines(f)))):
        ctx.fail("oracle", "atomgrid.AtomGrid.basis:rejected-request", "AtomGrid: radial_component_splines with an array of the wrong size raised but filled the basis memo / changed the next decomposition",
                 witness={"degree": 5})
    bk = importlib.import_module("grid.becke")
    hw = importlib.import_module("grid.hirshfeld")
    pts = ctx.np_rng.uniform(-2.0, 2.0, (10, 3))
    atc = np.array([[0.0, 0.0, -0.7], [0.0, 0.0, 0.7]])
    ind = np.array([0, 5, 10])
    for nm, new in (("BeckeWeights", lambda: bk.BeckeWeights(order=3)), ("HirshfeldWeights", lambda: hw.HirshfeldWeights())):
        o = new()
        want = new()(pts, atc, np.array([1, 8]), ind)
        r1 = raised(lambda: o(pts, atc, np.array([1.0, 8.0]), ind)) if nm == "HirshfeldWeights" else raised(lambda: o(pts, atc, np.array([1, 200]), ind))
        r2 = raised(lambda: o(pts, atc[:1], np.array([1, 8]), ind))
        ctx.count(["oracle-exc-" + nm, r1, r2], nontrivial=True, tag="oracle:exceptions:aim")
        if (r1 or r2) and not np.array_equal(o(pts, atc, np.array([1, 8]), ind), want):
            ctx.fail("oracle", f"{nm}:rejected-request", f"{nm}: the weights of H-O after a rejected call on the same object differ from a new object's",
                     witness={"rejected": [bool(r1), bool(r2)]})


# ==========================================================================================
# Round 4 (classes 14-20): array kinds inside objects, argument combinations, reused argument
# objects (method switches on defaults), complex data through the memo, extreme layers, unequal shapes
# ==========================================================================================
def _array_kinds(x):
    """Variants of a float64 1-D / 2-D array holding the same values (where the kind can hold them)."""
    x = np.asarray(x, dtype=float)
    out = {"float64": x.copy()}
    ro = x.copy()
    ro.setflags(write=False)
    out["read-only"] = ro
    big = np.zeros((2 * x.shape[0],) + x.shape[1:])
    big[::2] = x
    out["strided"] = big[::2]
    out["negative-stride"] = x[::-1].copy()[::-1]
    if x.ndim == 2:
        out["fortran"] = np.asfortranarray(x)
    if np.array_equal(x, x.astype(np.float32).astype(float)):
        out["float32"] = x.astype(np.float32)
    if np.array_equal(x, np.round(x)):
        out["int64"] = x.astype(np.int64)
        out["int32"] = x.astype(np.int32)
    return out


def _o_kinds(ctx: Ctx, reps=6):
    """Class 14: the arrays an object holds / the first grid a transform sees come as float32, integer, read-only,
    strided, negative-stride, Fortran-ordered arrays; what is remembered from them (scale b, kd-tree) must serve later
    float64 requests like the float64 computation (bitwise; 5e-6 relative when the caller chose single precision)."""
    rt = importlib.import_module("grid.rtransform")
    bg = importlib.import_module("grid.basegrid")
    obs = {}
    y = np.linspace(0.2, 4.0, 5)
    worst32 = 0.0
    for cls in B_CLASSES:
        x64 = np.array([0.0, 0.25, 1.5, 2.75, float(ctx.rng.randrange(3, 9))])
        for kind, x in _array_kinds(x64).items():
            for entry in ("transform", "deriv", "transform_1d_grid"):
                if ctx.rng.random() < 0.5 and kind not in ("float32", "int64"):
                    continue
                tf = B_CLASSES[cls](rt, None)
                ref = B_CLASSES[cls](rt, float(np.max(x64)))
                keep = x.copy()
                ctx.count(["oracle-kinds-b", cls, kind, entry], nontrivial=True, tag="oracle:kinds:b")
                with np.errstate(all="ignore"):
                    if entry == "transform_1d_grid":
                        tf.transform_1d_grid(bg.OneDGrid(x, np.ones(len(x)) / len(x), (0.0, np.inf)))
                    else:
                        getattr(tf, entry)(x)
                    got = [tf.transform(y), tf.deriv(y), tf.inverse(tf.transform(y))]
                    want = [ref.transform(y), ref.deriv(y), ref.inverse(ref.transform(y))]
                if kind == "float32":
                    rel = max(float(np.max(np.abs(a - b) / np.maximum(np.abs(b), 1e-300))) for a, b in zip(got, want))
                    worst32 = max(worst32, rel)
                    ok = rel <= 5e-6
                else:
                    ok = all(np.array_equal(a, b, equal_nan=True) for a, b in zip(got, want))
                ok = ok and float(tf.b) == float(np.max(x64)) and np.array_equal(x, keep)
                if not ok:
                    ctx.fail("oracle", "rtransform.b:array-kind",
                             f"{cls}: the scale taken from a {kind} grid ({entry}) serves later float64 calls differently from b={float(np.max(x64))} given explicitly (b = {tf.b!r})",
                             witness={"class": cls, "kind": kind, "entry": entry, "grid": x64.tolist()},
                             snippet=("import warnings; warnings.filterwarnings('ignore')\nimport numpy as np\nfrom grid import rtransform as rt\n"
                                      f"x = np.array({x64.tolist()!r}); y = np.linspace(0.2, 4.0, 5); tf = rt.{cls}(0.1, 12.0); ref = rt.{cls}(0.1, 12.0, b=float(x.max()))\n"
                                      + {"float32": "k = x.astype(np.float32)", "int64": "k = x.astype(np.int64)", "int32": "k = x.astype(np.int32)", "read-only": "k = x.copy(); k.setflags(write=False)",
                                         "strided": "k = np.repeat(x, 2)[::2]", "negative-stride": "k = x[::-1].copy()[::-1]", "float64": "k = x.copy()", "fortran": "k = x.copy()"}[kind]
                                      + "\ntf.transform(k)\n"
                                      + ("assert np.allclose(tf.deriv(y), ref.deriv(y), rtol=5e-6, atol=0)\n" if kind == "float32" else "assert np.array_equal(tf.deriv(y), ref.deriv(y)) and np.array_equal(tf.transform(y), ref.transform(y))\n")))
    obs[f"scale inferred from a float32 grid is kept as np.float32: later float64 calls differ by up to {worst32:.1e} relative from b given as a Python float"] = worst32 > 1e-12
    # kd-trees on grids holding arrays of these kinds (values in units of 1/8: every kind holds them exactly)
    for k in range(2 * reps):
        name, make, dim = ctx.rng.choice(_grid_factories(ctx))
        n = ctx.rng.choice([1, 2, 3, 30])
        def pts():
            p = np.round(ctx.np_rng.uniform(-1.0, 1.0, (n, dim)) * 8) / (1 if ctx.rng.random() < 0.3 else 8)
            return p[:, 0].copy() if dim == 1 else p
        p0, p1 = pts(), pts()
        kinds0, kinds1 = _array_kinds(p0), _array_kinds(p1)
        k0, k1 = ctx.rng.choice(sorted(kinds0)), ctx.rng.choice(sorted(kinds1))
        c = np.zeros(dim) if dim > 1 else np.array(0.0)
        rad = 0.77
        ctx.count(["oracle-kinds-kdtree", name, n, k0, k1], nontrivial=True, tag="oracle:kinds:kdtree")
        try:
            g = make(kinds0[k0], np.ones(n))
            ok = _same_indices(g.get_localgrid(c, rad), make(p0.copy(), np.ones(n)).get_localgrid(c, rad))
            if kinds1[k1].dtype == kinds0[k0].dtype or True:
                g.points = kinds1[k1]
                ok = ok and _same_indices(g.get_localgrid(c, rad), make(p1.copy(), np.ones(n)).get_localgrid(c, rad))
        except Exception as e:   # noqa: BLE001
            ok = False
            ctx.info(f"kd-tree on {k0}/{k1} points raised {type(e).__name__}: {str(e)[:100]}")
        if not ok:
            ctx.fail("oracle", f"basegrid.get_localgrid:kdtree:array-kind:{name.split(':')[0]}",
                     f"{name}, {n} points held as {k0}, then assigned as {k1}: get_localgrid differs from the grid holding float64 copies",
                     witness={"class": name, "n": n, "kinds": [k0, k1], "p0": p0.tolist(), "p1": p1.tolist()})
    return obs


def _same_indices(a, b):
    return sorted(np.asarray(a.indices).ravel().tolist()) == sorted(np.asarray(b.indices).ravel().tolist()) and \
        np.allclose(np.sort(np.asarray(a.points, dtype=float).ravel()), np.sort(np.asarray(b.points, dtype=float).ravel()), rtol=0, atol=0)


def _o_arg_combinations(ctx: Ctx, reps=6):
    """Class 15: every documented way of saying the same request (positional / keyword, omitted / None / the default value,
    both alternatives at once: `size` wins over `degree`, `sizes` over `degrees`) interleaved with the cache on; each
    answer against the shipped data of the key the documentation says it resolves to."""
    ang = importlib.import_module("grid.angular")
    atg = importlib.import_module("grid.atomgrid")
    rt = importlib.import_module("grid.rtransform")
    one = importlib.import_module("grid.onedgrid")
    bk = importlib.import_module("grid.becke")
    for m in METHODS:
        tab = sorted(int(k) for k in getattr(ang, PFX[m] + "_DEGREES"))
        d, d2 = tab[1], tab[3]
        s2 = int(getattr(ang, PFX[m] + "_DEGREES")[d2])
        forms = [("positional degree", lambda: ang.AngularGrid(d, method=m), d),
                 ("degree=", lambda: ang.AngularGrid(degree=d, method=m), d),
                 ("degree and size (size wins)", lambda: ang.AngularGrid(degree=d, size=s2, method=m), d2),
                 ("degree=None, size=", lambda: ang.AngularGrid(degree=None, size=s2, method=m), d2),
                 ("size only", lambda: ang.AngularGrid(size=s2, method=m), d2),
                 ("cache=True given", lambda: ang.AngularGrid(degree=d, cache=True, method=m.upper()), d),
                 ("cache=False given", lambda: ang.AngularGrid(degree=d2, cache=False, method=m), d2)]
        if m == "lebedev":
            forms.append(("method omitted", lambda: ang.AngularGrid(degree=d), d))
        _clear(ang)
        ctx.rng.shuffle(forms)
        done = []
        for name, f, key in forms + forms[:2]:
            g = f()
            done.append(name)
            deg, sp, sw = _shipped(ang, m, key)
            ctx.count(["oracle-args-angular", m, name], nontrivial=True, tag="oracle:arguments")
            if g.points.shape != sp.shape or not (np.array_equal(g.points, sp) and np.array_equal(g.weights, sw)) or int(g.degree) != int(deg):
                ctx.fail("oracle", "angular.AngularGrid:cache:argument-forms",
                         f"AngularGrid, method {m}: the request '{name}' (degree {d}, other degree {d2} / size {s2}) after {done[:-1]} has {g.size} points, degree {g.degree}; the documentation resolves it to degree {int(deg)} ({len(sw)} points)",
                         witness={"method": m, "forms": done, "degree": d, "size": s2},
                         snippet=("import warnings; warnings.filterwarnings('ignore')\nimport numpy as np\nfrom grid import angular as ang\nfrom grid.angular import AngularGrid\n"
                                  "for c in ('LEBEDEV_CACHE','SPHERICAL_CACHE','MAX_DET_CACHE','AHRENS_BEYLKIN_CACHE'): getattr(ang, c).clear()\n"
                                  f"ref = AngularGrid(size={s2}, method={m!r}, cache=False)\n"
                                  f"AngularGrid(degree={d}, method={m!r}); g = AngularGrid(degree={d}, size={s2}, method={m!r}); h = AngularGrid(degree={d}, method={m!r})\n"
                                  f"assert g.size == ref.size and np.array_equal(g.points, ref.points), 'size does not win over degree'\nassert h.degree == {d}\n"))
                break
    _clear(ang)
    rg = rt.BeckeRTransform(0.0, 1.5).transform_1d_grid(one.GaussLegendre(2))
    m = ctx.rng.choice(METHODS)
    groups = {
        "default degrees": [lambda: atg.AtomGrid(rg, method=m), lambda: atg.AtomGrid(rg, [50], method=m), lambda: atg.AtomGrid(rg, degrees=[50], method=m),
                            lambda: atg.AtomGrid(rg, degrees=[50, 50], method=m), lambda: atg.AtomGrid(rg, degrees=np.array([50]), method=m, center=None, rotate=0),
                            lambda: atg.AtomGrid(rgrid=rg, degrees=[50], sizes=None, center=np.zeros(3), method=m.upper())],
        "sizes win": [lambda: atg.AtomGrid(rg, sizes=[20], method=m), lambda: atg.AtomGrid(rg, degrees=[11], sizes=[20], method=m),
                      lambda: atg.AtomGrid(rg, None, sizes=[20, 20], method=m), lambda: atg.AtomGrid(rg, [3], sizes=np.array([20]), method=m)],
    }
    for gname, fs in groups.items():
        order = list(range(len(fs)))
        ctx.rng.shuffle(order)
        res = {}
        for j in order:
            a = fs[j]()
            res[j] = (a.points, a.weights, [int(x) for x in a.degrees])
        ctx.count(["oracle-args-atomgrid", m, gname, order], nontrivial=True, tag="oracle:arguments")
        bad = [j for j in order if not (np.array_equal(res[j][0], res[order[0]][0]) and np.array_equal(res[j][1], res[order[0]][1]) and res[j][2] == res[order[0]][2])]
        if bad:
            ctx.fail("oracle", "atomgrid.AtomGrid:argument-forms",
                     f"AtomGrid, method {m}, '{gname}': equivalent ways of writing the request give different grids (forms {bad} differ from form {order[0]}; built in the order {order}; sizes {[len(res[j][1]) for j in order]})",
                     witness={"method": m, "group": gname, "order": order},
                     snippet=("import warnings; warnings.filterwarnings('ignore')\nimport numpy as np\nfrom grid.atomgrid import AtomGrid\nfrom grid.onedgrid import GaussLegendre\nfrom grid.rtransform import BeckeRTransform\n"
                              f"rg = BeckeRTransform(0.0, 1.5).transform_1d_grid(GaussLegendre(2)); m = {m!r}\n"
                              "a = [AtomGrid(rg, method=m), AtomGrid(rg, [50], method=m), AtomGrid(rg, degrees=np.array([50]), method=m, center=None, rotate=0), AtomGrid(rg, method=m)]\n"
                              "assert all(x.size == a[0].size and np.array_equal(x.weights, a[0].weights) for x in a), [x.size for x in a]\n"
                              "b = [AtomGrid(rg, sizes=[20], method=m), AtomGrid(rg, degrees=[11], sizes=[20], method=m)]\nassert b[0].size == b[1].size\n"))
    x = np.arange(6.0)
    for cls in B_CLASSES:
        C = getattr(rt, cls)
        forms = [C(0.1, 12.0), C(0.1, 12.0, None), C(0.1, 12.0, b=None), C(rmin=0.1, rmax=12.0), C(rmax=12.0, rmin=0.1, b=None)]
        ex = [C(0.1, 12.0, 5.0), C(0.1, 12.0, b=5.0), C(rmin=0.1, rmax=12.0, b=5.0)]
        outs = [(f.transform(x), f.deriv(x), float(f.b)) for f in forms]
        oute = [(f.transform(np.arange(9.0)), f.deriv(x), float(f.b)) for f in ex] + [(C(0.1, 12.0).transform(x), None, 5.0)][:0]
        ctx.count(["oracle-args-b", cls], nontrivial=True, tag="oracle:arguments")
        if not all(np.array_equal(o[0], outs[0][0]) and np.array_equal(o[1], outs[0][1]) and o[2] == 5.0 for o in outs) or \
                not all(np.array_equal(o[0], oute[0][0]) and np.array_equal(o[1], oute[0][1]) and o[2] == 5.0 for o in oute):
            ctx.fail("oracle", f"rtransform.{cls}.b:argument-forms", f"{cls}: b omitted / None / positional / keyword give different scales or results",
                     witness={"class": cls, "b": [o[2] for o in outs + oute]})
    pts = ctx.np_rng.uniform(-2.0, 2.0, (8, 3))
    atc = np.array([[0.0, 0.0, -0.7], [0.0, 0.0, 0.7]])
    ind = np.array([0, 4, 8])
    ws = [o(pts, atc, np.array([1, 8]), ind) for o in (bk.BeckeWeights(), bk.BeckeWeights(None), bk.BeckeWeights(radii=None, order=3), bk.BeckeWeights({}, 3), bk.BeckeWeights(order=3))]
    ctx.count(["oracle-args-becke"], nontrivial=True, tag="oracle:arguments")
    if not all(np.array_equal(w, ws[0]) for w in ws):
        ctx.fail("oracle", "becke.BeckeWeights:argument-forms", "BeckeWeights: radii omitted / None / {} and order omitted / 3 give different weights", witness={})


def _o_reused_arguments(ctx: Ctx, reps=6):
    """Class 16, and the seeded change that wrote the mapped degrees back into the caller's list / the default `[50]`:
    one argument object (list, ndarray, a view into a larger array, the default) serves several requests under
    *different methods*; every answer against a request made with a pristine copy, the argument (and the bytes around a
    view) unchanged afterwards."""
    ang = importlib.import_module("grid.angular")
    atg = importlib.import_module("grid.atomgrid")
    rt = importlib.import_module("grid.rtransform")
    one = importlib.import_module("grid.onedgrid")
    bk = importlib.import_module("grid.becke")
    bg = importlib.import_module("grid.basegrid")
    rg = rt.BeckeRTransform(0.0, 1.5).transform_1d_grid(one.GaussLegendre(3))
    rg2 = rt.BeckeRTransform(0.0, 1.5).transform_1d_grid(one.GaussLegendre(2))
    # (a) the default argument across methods, in a random order, twice
    order = METHODS + METHODS
    ctx.rng.shuffle(order)
    dflt = atg.AtomGrid.__init__.__defaults__
    for k, m in enumerate(order[:5 if reps <= 6 else 8]):
        got = atg.AtomGrid(rg2, method=m)
        want = atg.AtomGrid(rg2, degrees=[50], method=m)
        ctx.count(["oracle-reuse-default", order[:k + 1]], nontrivial=True, tag="oracle:reused-arguments")
        if got.size != want.size or not np.array_equal(got.weights, want.weights) or list(map(int, got.degrees)) != list(map(int, want.degrees)) \
                or atg.AtomGrid.__init__.__defaults__ != ([50],):
            ctx.fail("oracle", "atomgrid.AtomGrid:default-degrees:method-switch",
                     f"AtomGrid(rgrid, method={m!r}) with the default degrees, after default-degree grids of the methods {order[:k]}, has degrees {list(map(int, got.degrees))} / {got.size} points; "
                     f"degrees=[50] written out gives {list(map(int, want.degrees))} / {want.size} points (default argument now {atg.AtomGrid.__init__.__defaults__})",
                     witness={"methods": order[:k + 1]},
                     snippet=("import warnings; warnings.filterwarnings('ignore')\nimport numpy as np\nfrom grid.atomgrid import AtomGrid\nfrom grid.onedgrid import GaussLegendre\nfrom grid.rtransform import BeckeRTransform\n"
                              "rg = BeckeRTransform(0.0, 1.5).transform_1d_grid(GaussLegendre(2))\n"
                              + "".join(f"g = AtomGrid(rg, method={mm!r})\n" for mm in order[:k + 1])
                              + f"w = AtomGrid(rg, degrees=[50], method={m!r})\nassert g.size == w.size and list(g.degrees) == list(w.degrees) and AtomGrid.__init__.__defaults__ == ([50],), (list(g.degrees), AtomGrid.__init__.__defaults__)\n"))
            break
    # (b) one degrees / sizes object for grids of different methods
    for k in range(reps):
        which = ctx.rng.choice(["degrees", "sizes"])
        vals = [ctx.rng.choice([4, 6, 8, 10, 12]) for _ in range(3)] if which == "degrees" else [ctx.rng.choice([7, 15, 20, 27, 40]) for _ in range(3)]
        form = ctx.rng.choice(["list", "ndarray", "int32", "view"])
        big = np.full(9, -7, dtype=np.int64)
        if form == "list":
            arg = list(vals)
        elif form == "ndarray":
            arg = np.array(vals)
        elif form == "int32":
            arg = np.array(vals, dtype=np.int32)
        else:
            big[3:6] = vals
            arg = big[3:6]
        ms = ctx.rng.sample(METHODS, 3)
        ctx.count(["oracle-reuse-" + which, form, vals, ms], nontrivial=True, tag="oracle:reused-arguments")
        for j, m in enumerate(ms):
            got = atg.AtomGrid(rg, **{which: arg}, method=m) if which == "sizes" else atg.AtomGrid(rg, arg, method=m)
            want = atg.AtomGrid(rg, **{which: list(vals)}, method=m)
            same_arg = list(map(int, arg)) == vals and (form != "view" or (list(big[:3]) == [-7] * 3 and list(big[6:]) == [-7] * 3))
            if got.size != want.size or not np.array_equal(got.weights, want.weights) or not same_arg:
                ctx.fail("oracle", f"atomgrid.AtomGrid:reused-{which}",
                         f"one {which} object ({form}, {vals}) used for AtomGrids of the methods {ms[:j + 1]}: the grid of {m!r} has degrees {list(map(int, got.degrees))} ({got.size} points) where a pristine copy of the "
                         f"argument gives {list(map(int, want.degrees))} ({want.size} points); the argument is now {list(map(int, arg))}" + (f", array around the view {big.tolist()}" if form == "view" else ""),
                         witness={"argument": which, "form": form, "values": vals, "methods": ms[:j + 1]},
                         snippet=("import warnings; warnings.filterwarnings('ignore')\nimport numpy as np\nfrom grid.atomgrid import AtomGrid\nfrom grid.onedgrid import GaussLegendre\nfrom grid.rtransform import BeckeRTransform\n"
                                  f"rg = BeckeRTransform(0.0, 1.5).transform_1d_grid(GaussLegendre(3)); vals = {vals!r}; arg = " + {"list": "list(vals)", "ndarray": "np.array(vals)", "int32": "np.array(vals, dtype=np.int32)", "view": "np.array([-7] * 3 + vals + [-7] * 3)[3:6]"}[form] + "\n"
                                  + "".join(f"g = AtomGrid(rg, {which}=arg, method={mm!r})\n" for mm in ms[:j + 1])
                                  + f"w = AtomGrid(rg, {which}=list(vals), method={m!r})\nassert g.size == w.size and list(map(int, arg)) == vals, (list(g.degrees), list(w.degrees), list(arg))\n"))
                break
    # (c) one array for every entry point of two transforms; (d) one radii dict, one points array, one list of atomic grids
    for cls in B_CLASSES:
        big = np.full(12, 99.0)
        big[3:9] = np.arange(6.0)
        x = big[3:9]
        t1, t2 = B_CLASSES[cls](rt, None), B_CLASSES[cls](rt, None)
        ref = B_CLASSES[cls](rt, 5.0)
        outs = []
        for meth in ["set_maximum_parameter_b"] + B_METHODS[cls]:
            for t in (t1, t2):
                r = getattr(t, meth)(x)
                if meth not in ("inverse", "set_maximum_parameter_b"):
                    outs.append(np.array_equal(r, getattr(ref, meth)(np.arange(6.0)), equal_nan=True))
        ctx.count(["oracle-reuse-x", cls], nontrivial=True, tag="oracle:reused-arguments")
        if not (all(outs) and np.array_equal(big, np.r_[[99.0] * 3, np.arange(6.0), [99.0] * 3]) and t1.b == 5.0 and t2.b == 5.0):
            ctx.fail("oracle", f"rtransform.{cls}:reused-array", f"{cls}: one array (a view) passed to every method of two objects: a result differs from the one for a pristine copy, or the array / the bytes around it changed ({big.tolist()})",
                     witness={"class": cls})
    d = {1: 0.9, 8: 1.3}
    pts = ctx.np_rng.uniform(-2.0, 2.0, (8, 3))
    keep_pts = pts.copy()
    atc = np.array([[0.0, 0.0, -0.7], [0.0, 0.0, 0.7]])
    ind = np.array([0, 4, 8])
    w = [bk.BeckeWeights(d, order=o)(pts, atc, np.array([1, 8]), ind) for o in (2, 3, 2)]
    wr = [bk.BeckeWeights({1: 0.9, 8: 1.3}, order=o)(keep_pts.copy(), atc.copy(), np.array([1, 8]), ind.copy()) for o in (2, 3, 2)]
    g1, g2 = bg.Grid(pts, np.ones(8)), bg.Grid(pts, np.ones(8))
    l1, l2 = g1.get_localgrid(np.zeros(3), 1.5), g2.get_localgrid(np.zeros(3), 1.5)
    ctx.count(["oracle-reuse-misc"], nontrivial=True, tag="oracle:reused-arguments")
    if not (all(np.array_equal(a, b) for a, b in zip(w, wr)) and d == {1: 0.9, 8: 1.3} and np.array_equal(pts, keep_pts)
            and sorted(l1.indices) == sorted(l2.indices) == sorted(bg.Grid(keep_pts.copy(), np.ones(8)).get_localgrid(np.zeros(3), 1.5).indices)):
        ctx.fail("oracle", "reused-argument:radii-points", "one radii dictionary for three BeckeWeights / one points array for two Grids: a result differs from the one for pristine copies, or the argument changed", witness={})


def _o_complex_and_layers(ctx: Ctx, reps=6):
    """Classes 17, 19, 20: complex function values through the spherical-harmonics memo (the decomposition is linear) before and
    after real ones; atomic grids on radial grids with huge / tiny / trimmed radii and the largest degree of a method; molecules
    of atoms with different degrees and numbers of shells (1 and 3), per-shell degree lists: later requests are what a new
    object / the shipped data give."""
    ang = importlib.import_module("grid.angular")
    atg = importlib.import_module("grid.atomgrid")
    rt = importlib.import_module("grid.rtransform")
    one = importlib.import_module("grid.onedgrid")
    mol = importlib.import_module("grid.molgrid")
    bk = importlib.import_module("grid.becke")
    rg = rt.BeckeRTransform(0.0, 1.5).transform_1d_grid(one.GaussLegendre(5))
    a = atg.AtomGrid(rg, degrees=[5])
    f = np.exp(-np.sum(a.points ** 2, axis=1)) * (1.0 + a.points[:, 0])
    ref = _spline_values(atg.AtomGrid(rg, degrees=[5]).radial_component_splines(f))
    z = ctx.rng.choice([1 + 2j, -0.5j, np.complex64(2 + 1j)])
    first_complex = ctx.rng.random() < 0.5
    if not first_complex:
        a.radial_component_splines(f)
    sc = a.radial_component_splines(f * z)
    vc = np.array([[complex(s(x)) for x in (0.3, 0.9, 1.7)] for s in sc])
    vr = _spline_values(a.radial_component_splines(f))
    ctx.count(["oracle-complex-basis", complex(z), first_complex], nontrivial=True, tag="oracle:complex")
    if not (np.array_equal(vr, ref) and np.allclose(vc, complex(z) * ref, rtol=1e-6 if isinstance(z, np.complex64) else 1e-12, atol=1e-14)):
        ctx.fail("oracle", "atomgrid.AtomGrid.basis:complex-values", f"AtomGrid: decomposition of complex function values ({z} f, {'first' if first_complex else 'second'} use of the memo) is not {z} times the real one, "
                 "or the real decomposition afterwards differs from a new grid's", witness={"factor": str(z), "first": first_complex})
    # extreme radial layers / largest degree, then the plain requests
    _clear(ang)
    m = ctx.rng.choice(METHODS)
    dmax = max(int(k) for k in getattr(ang, PFX[m] + "_DEGREES"))
    huge = rt.BeckeRTransform(1e-8, 1e6).transform_1d_grid(one.GaussChebyshevLobatto(4))      # radii from 1e-8 to the trimmed end 1e16
    e1 = atg.AtomGrid(huge, degrees=[3, dmax, 3, 5], method=m)
    e1.weights[...] = 0.0
    e2 = atg.AtomGrid(huge, degrees=[3, dmax, 3, 5], method=m)
    g0 = ang.AngularGrid(degree=dmax, method=m)
    g0.points[...] = 0.0                      # the caller edits the largest grid it was given
    g0.weights[...] = 0.0
    g = ang.AngularGrid(degree=dmax, method=m)
    deg, sp, sw = _shipped(ang, m, dmax)
    small = atg.AtomGrid(rg, degrees=[3], method=m)
    _clear(ang)
    small_ref = atg.AtomGrid(rg, degrees=[3], method=m)
    e_ref = atg.AtomGrid(huge, degrees=[3, dmax, 3, 5], method=m)
    ctx.count(["oracle-extreme-layers", m, dmax], nontrivial=True, tag="oracle:extreme-layers")
    if not (np.array_equal(g.points, sp) and np.array_equal(g.weights, sw) and np.array_equal(small.points, small_ref.points) and np.array_equal(small.weights, small_ref.weights)
            and np.array_equal(e2.points, e_ref.points, equal_nan=True) and np.array_equal(e2.weights, e_ref.weights, equal_nan=True)):
        ctx.fail("oracle", "atomgrid.AtomGrid:angular-cache:extreme-layers",
                 f"after an atomic grid on radii 1e-8 … 1e16 with per-shell degrees [3, {dmax}, 3, 5] ({m}) whose weights were zeroed: the same grid again, AngularGrid(degree={dmax}) or a small atomic grid differ from the pristine state",
                 witness={"method": m, "degree": dmax})
    _clear(ang)
    # molecules of unequal atoms (1 shell / 3 shells, different degrees and methods are not mixed by MolGrid: one method per atom grid)
    for k in range(max(2, reps // 3)):
        m1, m2 = ctx.rng.sample(METHODS, 2)
        r1 = importlib.import_module("grid.basegrid").OneDGrid(np.array([0.8]), np.array([1.0]), (0.0, np.inf))      # a single shell
        r3 = rt.BeckeRTransform(0.0, 1.5).transform_1d_grid(one.GaussLegendre(3))
        def build():
            ats = [atg.AtomGrid(r1, degrees=[7], method=m1, center=np.array([0.0, 0.0, -0.7])),
                   atg.AtomGrid(r3, degrees=[3, 9, 5], method=m2, center=np.array([0.3, 0.0, 0.7]))]
            return mol.MolGrid(np.array([8, 1]), ats, bk.BeckeWeights(), store=bool(k % 2))
        _clear(ang)
        ref_m = build()
        ref_pw = (ref_m.points.copy(), ref_m.weights.copy(), ref_m.indices.copy())
        ref_m.points[...] = 0.0
        ref_m.weights[...] = 0.0
        for arr in (ref_m.get_atomic_grid(1).weights,):
            arr[...] = 0.0
        got = build()
        ctx.count(["oracle-unequal-molgrid", m1, m2, k % 2], nontrivial=True, tag="oracle:unequal-shapes")
        if not (np.array_equal(got.points, ref_pw[0]) and np.array_equal(got.weights, ref_pw[1]) and np.array_equal(got.indices, ref_pw[2])):
            ctx.fail("oracle", "molgrid.MolGrid:angular-cache:unequal-atoms",
                     f"MolGrid of a 1-shell {m1} atom (degree 7) and a 3-shell {m2} atom (degrees [3, 9, 5]) built again after the first one's arrays were zeroed differs from the first",
                     witness={"methods": [m1, m2], "store": bool(k % 2)})
    _clear(ang)


# ==========================================================================================
# Round 5 (classes 21-26): sizes past block boundaries, silently assumed orders, narrow / extended
# precision given directly, parameters independent of the data, identity-keyed memoisation, state
# shared between instances — for everything C19 remembers
# ==========================================================================================
def _closed_form(cls, b, x, rmin=0.1, rmax=12.0):
    """Map and Jacobian of the three b-scaled transforms per node, from their definitions."""
    x = np.asarray(x, dtype=float)
    if cls == "LinearInfiniteRTransform":
        return (rmax - rmin) * x / b + rmin, np.full(x.shape, (rmax - rmin) / b)
    if cls == "ExpRTransform":
        a = np.log(rmax / rmin) / b
        return rmin * np.exp(a * x), rmin * a * np.exp(a * x)
    p = np.log(rmax / rmin) / np.log(b + 1.0)
    return rmin * (x + 1.0) ** p, rmin * p * (x + 1.0) ** (p - 1.0)


def _brute_local(points, center, radius):
    d = np.sqrt(np.sum((np.asarray(points, dtype=float).reshape(len(points), -1) - np.atleast_1d(center)) ** 2, axis=1))
    return np.nonzero(d <= radius)[0]


def _o_block_sizes(ctx: Ctx, reps=6):
    """Class 21: arrays whose length is just past a power of two / a round number, the decisive element in the remainder:
    the scale b is the maximum of the whole grid, kd-tree queries against a brute-force distance test, element-wise table
    reads and pro-atom densities additive over a split of the input."""
    rt = importlib.import_module("grid.rtransform")
    bg = importlib.import_module("grid.basegrid")
    utils = importlib.import_module("grid.utils")
    hw = importlib.import_module("grid.hirshfeld")
    sizes = [1025, 4097, 20001] + ([31234, 65537, 2 ** 19 + 1] if ctx.thorough else [])
    for n, cls, pos in [(n, cls, n - 1) for n in sizes for cls in B_CLASSES] + \
            [(n, ctx.rng.choice(list(B_CLASSES)), ctx.rng.choice([n - 2, n - ctx.rng.randrange(1, 25), 0, ctx.rng.randrange(n)])) for n in sizes]:
        x = ctx.np_rng.uniform(0.0, 5.0, n)
        x[pos] = 7.5
        tf = B_CLASSES[cls](rt, None)
        with np.errstate(all="ignore"):
            r = getattr(tf, ctx.rng.choice(["transform", "deriv"]))(x)
            r2, d2 = tf.transform(x), tf.deriv(x)
        want_r, want_d = _closed_form(cls, 7.5, x)
        ctx.count(["oracle-block-b", cls, n, pos], nontrivial=True, tag="oracle:block-sizes")
        if float(tf.b) != 7.5 or len(r) != n or not (np.allclose(r2, want_r, rtol=1e-11, atol=0) and np.allclose(d2, want_d, rtol=1e-11, atol=0)):
            ctx.fail("oracle", "rtransform.b:block-sizes",
                     f"{cls}: a grid of {n} points with its maximum 7.5 at index {pos} fixes b = {tf.b}; map / Jacobian differ from the closed form with b = 7.5",
                     witness={"class": cls, "n": n, "position_of_maximum": pos},
                     snippet=("import warnings; warnings.filterwarnings('ignore')\nimport numpy as np\nfrom grid import rtransform as rt\n"
                              f"x = np.linspace(0.0, 5.0, {n}); x[{pos}] = 7.5; tf = rt.{cls}(0.1, 12.0); tf.transform(x)\nassert tf.b == 7.5, tf.b\n"))
    for n in sizes[:3] if not ctx.thorough else sizes[:5]:
        dim = ctx.rng.choice([1, 2, 3])
        p = ctx.np_rng.uniform(-1.0, 1.0, (n, dim))
        pts = p[:, 0].copy() if dim == 1 else p
        g = bg.Grid(pts, np.ones(n))
        c = np.zeros(dim) if dim > 1 else np.array(0.0)
        rad = {1: 0.01, 2: 0.12, 3: 0.3}[dim]
        idx = np.sort(np.asarray(g.get_localgrid(c, rad).indices).ravel())
        p2 = ctx.np_rng.uniform(-1.0, 1.0, (n, dim))
        g.points = p2[:, 0].copy() if dim == 1 else p2
        idx2 = np.sort(np.asarray(g.get_localgrid(c, rad).indices).ravel())
        ctx.count(["oracle-block-kdtree", n, dim], nontrivial=True, tag="oracle:block-sizes")
        if not (np.array_equal(idx, _brute_local(pts, c, rad)) and np.array_equal(idx2, _brute_local(p2, c, rad))):
            ctx.fail("oracle", "basegrid.get_localgrid:kdtree:block-sizes", f"Grid with {n} points in {dim}-D: get_localgrid (before / after assigning new points) differs from the brute-force distance test",
                     witness={"n": n, "dim": dim, "radius": rad})
    n = sizes[ctx.rng.randrange(2)]
    zs = ctx.np_rng.integers(1, 87, n)
    k = ctx.rng.randrange(1, n)
    t = ctx.rng.choice(["bragg", "cambridge", "alvarez"])
    whole = utils.get_cov_radii(zs, t)
    parts = np.concatenate([utils.get_cov_radii(zs[:k], t), utils.get_cov_radii(zs[k:], t)])
    pts = ctx.np_rng.uniform(-2.0, 2.0, (n, 3))
    dens = hw.HirshfeldWeights.generate_proatom(pts, np.zeros(3), 8)
    dparts = np.concatenate([hw.HirshfeldWeights.generate_proatom(pts[:k], np.zeros(3), 8), hw.HirshfeldWeights.generate_proatom(pts[k:], np.zeros(3), 8)])
    ctx.count(["oracle-block-tables", n, k, t], nontrivial=True, tag="oracle:block-sizes")
    if not (np.array_equal(whole, parts, equal_nan=True) and np.array_equal(dens, dparts)):
        ctx.fail("oracle", "tables:block-sizes", f"get_cov_radii / generate_proatom on {n} elements differ from the concatenation of the answers for the first {k} and the remaining elements", witness={"n": n, "split": k})


def _o_orders_and_parameters(ctx: Ctx, reps=6):
    """Classes 22 and 24: the first grid a transform sees is descending / shuffled / a reversed OneDGrid / the descending grid
    MultiExpRTransform produces; a scale given explicitly or inferred from a first grid is then applied to *other* grids (nodes
    beyond b, at 0, next to the ends; transform_1d_grid on two different 1-D grids in sequence).  Reference: the closed-form map
    and Jacobian per node, so neither order nor the earlier grid can matter."""
    rt = importlib.import_module("grid.rtransform")
    bg = importlib.import_module("grid.basegrid")
    one = importlib.import_module("grid.onedgrid")
    utils = importlib.import_module("grid.utils")
    for k in range(3 * reps):
        cls = ctx.rng.choice(list(B_CLASSES))
        n = ctx.rng.randrange(3, 9)
        first = np.sort(ctx.np_rng.uniform(0.0, 6.0, n))
        order = ctx.rng.choice(["ascending", "descending", "shuffled", "multiexp"])
        if order == "descending":
            first = first[::-1].copy()
        elif order == "shuffled":
            ctx.np_rng.shuffle(first)
        elif order == "multiexp":
            first = rt.MultiExpRTransform(0.0, 1.5).transform_1d_grid(one.GaussLegendre(n)).points      # descending radii, as the library makes them
            first = first[np.isfinite(first)]
        explicit = ctx.rng.random() < 0.35
        b = float(ctx.rng.choice([2.0, 5.0])) if explicit else float(np.max(first))
        tf = B_CLASSES[cls](rt, b if explicit else None)
        entry = ctx.rng.choice(["method", "t1d"])
        with np.errstate(all="ignore"):
            if entry == "t1d":
                g1 = tf.transform_1d_grid(bg.OneDGrid(first, np.ones(len(first)) / len(first), (0.0, np.inf)))
                got1 = (g1.points, g1.weights * len(first))
            else:
                got1 = (tf.transform(first), tf.deriv(first))
            # another grid: nodes beyond b, the end 0, next to it, in another order
            second = np.array([0.0, 1e-12, b * (1 - 1e-12), b, b * (1 + 1e-12), 2.5 * b, 40.0 * b, ctx.rng.uniform(0, b)])
            ctx.np_rng.shuffle(second)
            if ctx.rng.random() < 0.5:
                g2 = tf.transform_1d_grid(bg.OneDGrid(second, np.ones(len(second)), (0.0, np.inf)))
                got2 = (g2.points, g2.weights)
            else:
                got2 = (tf.transform(second), tf.deriv(second))
        w1, w2 = _closed_form(cls, b, first), _closed_form(cls, b, second)
        ctx.count(["oracle-order-params", cls, order, explicit, entry, first.tolist()], nontrivial=True, tag="oracle:orders-parameters")
        ok = float(tf.b) == b and all(np.allclose(a, w, rtol=1e-10, atol=0, equal_nan=True) for a, w in zip(got1 + got2, w1 + w2))
        if not ok:
            ctx.fail("oracle", "rtransform.b:order-and-parameter",
                     f"{cls} (b {'given' if explicit else 'inferred'} = {b}): first grid {order} {first.tolist()} through {entry}, then the grid {second.tolist()}: map / Jacobian differ from the closed form per node (b now {tf.b})",
                     witness={"class": cls, "order": order, "explicit": explicit, "first": first.tolist(), "second": second.tolist(), "entry": entry},
                     snippet=("import warnings; warnings.filterwarnings('ignore')\nimport numpy as np\nfrom grid import rtransform as rt\nfrom grid.basegrid import OneDGrid\n"
                              f"first = np.array({first.tolist()!r}); second = np.array({second.tolist()!r}); tf = rt.{cls}(0.1, 12.0, b={b if explicit else None!r}); ref = rt.{cls}(0.1, 12.0, b={b!r})\n"
                              + ("tf.transform_1d_grid(OneDGrid(first, np.ones(len(first)), (0.0, np.inf)))\n" if entry == "t1d" else "tf.transform(first)\n")
                              + f"assert tf.b == {b!r}, tf.b\nassert np.allclose(tf.transform(second), ref.transform(second), rtol=1e-12, equal_nan=True) and np.allclose(tf.deriv(second), ref.deriv(second), rtol=1e-12, equal_nan=True)\n"))
    # unsorted / descending atomic numbers
    zs = ctx.np_rng.integers(1, 87, 12)
    for arr in (zs, np.sort(zs)[::-1], np.sort(zs)[::-1].copy()):
        got = utils.get_cov_radii(arr, "bragg")
        want = np.array([utils.get_cov_radii(int(z), "bragg")[0] for z in arr])
        ctx.count(["oracle-order-radii", arr.tolist()], nontrivial=True, tag="oracle:orders-parameters")
        if not np.array_equal(got, want, equal_nan=True):
            ctx.fail("oracle", "utils.get_cov_radii:order", f"get_cov_radii({arr.tolist()}) differs from the element-by-element answers", witness={"atnums": arr.tolist()})


def _o_precisions(ctx: Ctx, reps=6):
    """Class 23: float16 / float32 / longdouble / integer arrays given directly as the first grid of a transform, as the points
    of a kd-tree query, as atomic numbers: the answer against the float64 one to the precision of the narrower type, the
    argument unchanged, a second call with the same argument object equal to the first."""
    rt = importlib.import_module("grid.rtransform")
    bg = importlib.import_module("grid.basegrid")
    utils = importlib.import_module("grid.utils")
    obs = {}
    y = np.linspace(0.2, 4.0, 5)
    # integer grids are exact data; NumPy evaluates np.log of a uint8 / int16 scalar in float16 / float32, so the scale kept as
    # such a scalar costs PowerRTransform that precision on every later call (observed on the pinned tree, reported to the lead):
    # the tolerances below are what the unchanged tree does, the observation is recorded
    tol = {"float16": 4e-3, "float32": 5e-6, "longdouble": 1e-14, "int16": 5e-6, "uint8": 4e-3}
    changed_dtype = False
    worst_int = 0.0
    for cls in B_CLASSES:
        x64 = np.array([0.0, 0.25, 1.5, 2.75, float(ctx.rng.randrange(3, 9))])
        for name, dt in (("float16", np.float16), ("float32", np.float32), ("longdouble", np.longdouble), ("int16", np.int16), ("uint8", np.uint8)):
            x = (np.round(x64) if name in ("int16", "uint8") else x64).astype(dt)
            keep = x.copy()
            tf = B_CLASSES[cls](rt, None)
            ref = B_CLASSES[cls](rt, float(np.max(x)))
            with np.errstate(all="ignore"):
                r1 = tf.transform(x)
                r2 = tf.transform(x)
                got, want = [tf.transform(y), tf.deriv(y)], [ref.transform(y), ref.deriv(y)]
            rel = max(float(np.max(np.abs(np.asarray(a, dtype=float) - b) / np.abs(b))) for a, b in zip(got, want))
            changed_dtype = changed_dtype or any(np.asarray(a).dtype != np.float64 for a in got)
            if name in ("int16", "uint8"):
                worst_int = max(worst_int, rel)
            ctx.count(["oracle-precision-b", cls, name], nontrivial=True, tag="oracle:precisions")
            if not (rel <= tol[name] and np.array_equal(x, keep) and x.dtype == keep.dtype and np.array_equal(r1, r2, equal_nan=True) and float(tf.b) == float(np.max(x))):
                ctx.fail("oracle", "rtransform.b:precision-of-first-grid",
                         f"{cls}: first grid given as {name}: later float64 calls differ by {rel:.2e} relative from b = {float(np.max(x))} given explicitly (allowed {tol[name]}), or the argument changed, or a second call with the same object differs",
                         witness={"class": cls, "dtype": name, "grid": x64.tolist()},
                         snippet=("import warnings; warnings.filterwarnings('ignore')\nimport numpy as np\nfrom grid import rtransform as rt\n"
                                  f"x = np.array({np.asarray(x, dtype=float).tolist()!r}).astype(np.{name}); y = np.linspace(0.2, 4.0, 5); tf = rt.{cls}(0.1, 12.0); ref = rt.{cls}(0.1, 12.0, b=float(x.max()))\n"
                                  f"a = tf.transform(x); b = tf.transform(x)\nassert np.array_equal(a, b)\nassert np.allclose(np.asarray(tf.deriv(y), float), ref.deriv(y), rtol={max(tol[name], 1e-15)!r}, atol=0)\n"))
    obs[f"scale inferred from a uint8 / int16 grid (exact integers) is kept as that integer scalar: PowerRTransform then evaluates log(b + 1) in float16 / float32, "
        f"later float64 calls are off by up to {worst_int:.1e} relative (r(b) = 11.98 instead of 12 for a uint8 grid 0..3)"] = worst_int > 1e-12
    obs["scale inferred from a float16 / longdouble grid is kept in that type: later float64 calls come back in half-precision accuracy / as float128 arrays"] = changed_dtype
    for name, dt in (("float16", np.float16), ("float32", np.float32), ("longdouble", np.longdouble), ("int16", np.int16)):
        n, dim = ctx.rng.choice([2, 30]), ctx.rng.choice([1, 2, 3])
        p = np.round(ctx.np_rng.uniform(-1.0, 1.0, (n, dim)) * 8) / (1 if name == "int16" else 8)
        pts = (p[:, 0].copy() if dim == 1 else p).astype(dt)
        keep = pts.copy()
        c = (np.zeros(dim) if dim > 1 else np.array(0.0)).astype(dt if name != "int16" else float)
        try:
            g = bg.Grid(pts, np.ones(n))
            i1 = np.sort(np.asarray(g.get_localgrid(c, 0.77).indices).ravel())
            i2 = np.sort(np.asarray(g.get_localgrid(c, 0.77).indices).ravel())
            ok = np.array_equal(i1, _brute_local(np.asarray(pts, dtype=float), np.asarray(c, dtype=float), 0.77)) and np.array_equal(i1, i2) and np.array_equal(pts, keep)
        except Exception as e:   # noqa: BLE001
            ok = True
            ctx.info(f"Grid with {name} points: get_localgrid raised {type(e).__name__}: {str(e)[:100]}")
        ctx.count(["oracle-precision-kdtree", name, n, dim], nontrivial=True, tag="oracle:precisions")
        if not ok:
            ctx.fail("oracle", "basegrid.get_localgrid:kdtree:precision", f"Grid holding {n} {name} points in {dim}-D (coordinates in units of 1/8): get_localgrid differs from the brute-force test, from its own second answer, or changed the points",
                     witness={"dtype": name, "n": n, "dim": dim, "points": np.asarray(p).tolist()})
    for dt in (np.uint8, np.int16, np.int32, np.uint64):
        zs = ctx.np_rng.integers(1, 87, 7).astype(dt)
        keep = zs.copy()
        a, b = utils.get_cov_radii(zs, "alvarez"), utils.get_cov_radii(zs, "alvarez")
        ctx.count(["oracle-precision-radii", dt.__name__], nontrivial=True, tag="oracle:precisions")
        if not (np.array_equal(a, utils.get_cov_radii(zs.astype(np.int64), "alvarez"), equal_nan=True) and np.array_equal(a, b, equal_nan=True) and np.array_equal(zs, keep)):
            ctx.fail("oracle", "utils.get_cov_radii:precision", f"get_cov_radii with {dt.__name__} atomic numbers {zs.tolist()} differs from the int64 answer / from its second answer", witness={"atnums": zs.tolist(), "dtype": dt.__name__})
    return obs


def _o_identity_and_instances(ctx: Ctx, reps=6):
    """Classes 25 and 26: one array object edited in place between two calls / constructions (a memo keyed by the identity of its
    argument answers for the old contents); two instances that differ in one hidden dependency used alternately (state kept on
    the class instead of the instance).  References are computed on fresh copies / before the other instance exists."""
    ang = importlib.import_module("grid.angular")
    atg = importlib.import_module("grid.atomgrid")
    rt = importlib.import_module("grid.rtransform")
    one = importlib.import_module("grid.onedgrid")
    bg = importlib.import_module("grid.basegrid")
    pg = importlib.import_module("grid.periodicgrid")
    bk = importlib.import_module("grid.becke")
    hw = importlib.import_module("grid.hirshfeld")
    utils = importlib.import_module("grid.utils")

    def check(key, what, ok, witness=None, snippet=None):
        ctx.count(["oracle-identity", key, what], nontrivial=True, tag="oracle:identity-instances")
        if not ok:
            ctx.fail("oracle", key, what, witness=witness or {}, snippet=snippet)
    # -- 25: the same buffer with new contents
    m = ctx.rng.choice(METHODS)
    rg = rt.BeckeRTransform(0.0, 1.5).transform_1d_grid(one.GaussLegendre(3))
    for form in ("list", "ndarray"):
        v1, v2 = [ctx.rng.choice([4, 6, 8]) for _ in range(3)], [ctx.rng.choice([10, 12, 14]) for _ in range(3)]
        buf = list(v1) if form == "list" else np.array(v1)
        a1 = atg.AtomGrid(rg, buf, method=m)
        buf[:] = v2
        a2 = atg.AtomGrid(rg, buf, method=m)
        w2 = atg.AtomGrid(rg, list(v2), method=m)
        check("atomgrid.AtomGrid:degrees-buffer", f"AtomGrid({m}) built from one degrees {form} before and after `buf[:] = {v2}`: the second grid has degrees {list(map(int, a2.degrees))}, a fresh copy gives {list(map(int, w2.degrees))}",
              a2.size == w2.size and np.array_equal(a2.weights, w2.weights) and a1.size == atg.AtomGrid(rg, list(v1), method=m).size, {"method": m, "form": form, "v1": v1, "v2": v2},
              ("import warnings; warnings.filterwarnings('ignore')\nimport numpy as np\nfrom grid.atomgrid import AtomGrid\nfrom grid.onedgrid import GaussLegendre\nfrom grid.rtransform import BeckeRTransform\n"
               f"rg = BeckeRTransform(0.0, 1.5).transform_1d_grid(GaussLegendre(3)); buf = {'list' if form == 'list' else 'np.array'}({v1!r}); AtomGrid(rg, buf, method={m!r}); buf[:] = {v2!r}\n"
               f"assert AtomGrid(rg, buf, method={m!r}).size == AtomGrid(rg, {v2!r}, method={m!r}).size\n"))
    # the radial grid object edited in place between two constructions
    rpts = rt.BeckeRTransform(0.0, 1.5).transform_1d_grid(one.GaussLegendre(3))
    a1 = atg.AtomGrid(rpts, degrees=[5], method=m)
    rpts.points[...] = rpts.points * 2.0
    a2 = atg.AtomGrid(rpts, degrees=[5], method=m)
    w2 = atg.AtomGrid(bg.OneDGrid(rpts.points.copy(), rpts.weights.copy(), rpts.domain), degrees=[5], method=m)
    check("atomgrid.AtomGrid:rgrid-buffer", "AtomGrid built from one radial grid object before and after its points were doubled in place: the second grid differs from the one on a fresh OneDGrid with the new points",
          np.array_equal(a2.points, w2.points) and np.array_equal(a2.weights, w2.weights) and not np.array_equal(a1.points, a2.points), {"method": m})
    for cls in B_CLASSES:
        tf = B_CLASSES[cls](rt, 6.0)
        buf = np.arange(5.0)
        r1 = [tf.transform(buf).copy(), tf.deriv(buf).copy()]
        buf *= 1.5
        buf[0] = 0.25
        r2 = [tf.transform(buf), tf.deriv(buf)]
        w = _closed_form(cls, 6.0, buf.copy())
        check(f"rtransform.{cls}:argument-buffer", f"{cls}(b=6): one array passed before and after `buf *= 1.5`: the second map / Jacobian differ from the closed form on the new contents",
              all(np.allclose(a, b, rtol=1e-12, atol=0) for a, b in zip(r2, w)) and not np.array_equal(r1[0], r2[0]), {"class": cls})
    zs = np.array([1, 6, 8])
    r1 = utils.get_cov_radii(zs, "bragg").copy()
    zs[:] = [7, 16, 26]
    check("utils.get_cov_radii:argument-buffer", "get_cov_radii with one array before and after `zs[:] = [7, 16, 26]`", np.array_equal(utils.get_cov_radii(zs, "bragg"), utils.get_cov_radii(np.array([7, 16, 26]), "bragg")) and not np.array_equal(r1, utils.get_cov_radii(zs, "bragg")))
    pts, atc, atn, ind = ctx.np_rng.uniform(-2, 2, (8, 3)), np.array([[0.0, 0.0, -0.7], [0.0, 0.0, 0.7]]), np.array([1, 8]), np.array([0, 4, 8])
    for nm, obj in (("BeckeWeights", bk.BeckeWeights()), ("HirshfeldWeights", hw.HirshfeldWeights())):
        obj(pts, atc, atn, ind)
        pts *= 0.5
        atc[1, 2] = 1.1
        atn[:] = [8, 1] if nm == "BeckeWeights" else [6, 7]
        got = obj(pts, atc, atn, ind)
        want = type(obj)()(pts.copy(), atc.copy(), atn.copy(), ind.copy())
        check(f"{nm}:argument-buffers", f"{nm}: points / coordinates / atomic numbers edited in place between two calls on one object: the second answer differs from a new object on fresh copies", np.array_equal(got, want, equal_nan=True))
    p0 = ctx.np_rng.uniform(-1, 1, (40, 3))
    buf = p0.copy()
    g1 = bg.Grid(buf, np.ones(40))
    g1.get_localgrid(np.zeros(3), 0.7)
    cen = np.zeros(3)
    l1 = np.sort(g1.get_localgrid(cen, 0.7).indices)
    cen[:] = [0.4, -0.3, 0.2]
    l2 = np.sort(g1.get_localgrid(cen, 0.7).indices)
    buf2 = ctx.np_rng.uniform(-1, 1, (40, 3))
    buf[...] = buf2
    g2 = bg.Grid(buf, np.ones(40))            # a new grid on the same array object with new contents (a tree keyed by id(points) would be stale)
    l3 = np.sort(g2.get_localgrid(np.zeros(3), 0.7).indices)
    check("basegrid.get_localgrid:kdtree:buffers", "get_localgrid with one centre array edited in place between two queries / a new Grid on an array object an earlier Grid (with a built tree) was made from, after the array got new contents",
          np.array_equal(l1, _brute_local(p0, np.zeros(3), 0.7)) and np.array_equal(l2, _brute_local(p0, np.array([0.4, -0.3, 0.2]), 0.7)) and np.array_equal(l3, _brute_local(buf2, np.zeros(3), 0.7)))
    # -- 26: two instances alternately; references before the other instance exists
    rgA = rt.BeckeRTransform(0.0, 1.5).transform_1d_grid(one.GaussLegendre(4))
    rgB = bg.OneDGrid(np.array([0.0, 0.4, 1.1, 2.3]), np.array([0.2, 0.5, 0.9, 1.5]), (0.0, np.inf))      # another radial grid of the same size, with a node at r = 0
    deg = ctx.rng.choice([3, 5, 7])
    mk = [lambda: atg.AtomGrid(rgA, degrees=[deg]), lambda: atg.AtomGrid(rgB, degrees=[deg]), lambda: atg.AtomGrid(rgA, degrees=[deg], center=np.array([0.0, 0.0, 0.5]))]
    fun = lambda a: np.exp(-np.sum((a.points - a.center) ** 2, axis=1)) * (1.0 + (a.points - a.center)[:, 1])     # noqa: E731
    refs = []
    for f in mk:
        a = f()
        refs.append(_spline_values(a.radial_component_splines(fun(a)), r=(0.3, 0.9)))
        del a
    live = [f() for f in mk]
    order = [0, 1, 2, 1, 0, 2]
    ctx.rng.shuffle(order)
    got_ok = [bool(np.array_equal(_spline_values(live[j].radial_component_splines(fun(live[j])), r=(0.3, 0.9)), refs[j])) for j in order]
    # (a reference made in this process shares class-level state with the instances: the memo itself is also compared with the
    #  harmonics evaluated directly at the angles of each grid)
    harm = importlib.import_module("grid.utils").generate_real_spherical_harmonics
    for j, a in enumerate(live):
        theta, phi = a.convert_cartesian_to_spherical().T[1:]
        got_ok.append(bool(a.basis is not None and np.array_equal(a.basis, harm(a.l_max // 2, theta, phi))))
    check("atomgrid.AtomGrid.basis:instances", f"three AtomGrids (degree {deg}) differing in the radial grid (one with a node at r = 0) / the centre, decomposed alternately in the order {order}: which answers equal the ones computed in isolation: {got_ok}",
          all(got_ok), {"degree": deg, "order": order},
          ("import warnings; warnings.filterwarnings('ignore')\nimport numpy as np\nfrom grid.atomgrid import AtomGrid\nfrom grid.basegrid import OneDGrid\nfrom grid.onedgrid import GaussLegendre\nfrom grid.rtransform import BeckeRTransform\n"
           "rgA = BeckeRTransform(0.0, 1.5).transform_1d_grid(GaussLegendre(4)); rgB = OneDGrid(np.array([0.0, 0.4, 1.1, 2.3]), np.array([0.2, 0.5, 0.9, 1.5]), (0.0, np.inf))\n"
           f"f = lambda a: np.exp(-np.sum(a.points**2, axis=1)) * (1 + a.points[:, 1]); val = lambda a: [float(s(0.9)) for s in a.radial_component_splines(f(a))]\n"
           f"rA = val(AtomGrid(rgA, degrees=[{deg}])); rB = val(AtomGrid(rgB, degrees=[{deg}])); a, b = AtomGrid(rgA, degrees=[{deg}]), AtomGrid(rgB, degrees=[{deg}])\n"
           "assert val(b) == rB and val(a) == rA and val(b) == rB, 'the decomposition of one grid depends on another grid alive in the process'\n"))
    pA, pB = ctx.np_rng.uniform(-1, 1, (30, 3)), ctx.np_rng.uniform(-1, 1, (30, 3))
    cells = [np.diag([1.5, 2.0, 2.5]), np.diag([2.5, 2.0, 1.5])]
    mkg = [lambda: bg.Grid(pA.copy(), np.ones(30)), lambda: bg.Grid(pB.copy(), np.ones(30)), lambda: pg.PeriodicGrid(pA.copy(), np.ones(30), cells[0]), lambda: pg.PeriodicGrid(pA.copy(), np.ones(30), cells[1])]
    refs = [_local_key(f().get_localgrid(np.zeros(3), 0.9)) for f in mkg]
    live = [f() for f in mkg]
    order = [0, 1, 2, 3, 1, 0, 3, 2]
    ctx.rng.shuffle(order)
    ok = []
    for j in order:
        kk = _local_key(live[j].get_localgrid(np.zeros(3), 0.9))
        ok.append(bool(len(kk[1]) == len(refs[j][1]) and np.array_equal(kk[0], refs[j][0])))
    check("basegrid.get_localgrid:kdtree:instances", f"two Grids with the same shape and two PeriodicGrids with the same points and different cells queried alternately ({order}): equal to the answers in isolation: {ok}", all(ok), {"order": order})
    # the default degree / a cached degree next to `size=` (the neighbourhood of the seeded change C19-f), every method, cache on / off
    for mm in METHODS:
        tab = getattr(ang, PFX[mm] + "_DEGREES")
        d50 = int(ang.AngularGrid._get_degree_and_size(degree=50, size=None, method=mm)[0])
        dsm = sorted(int(k) for k in tab)[2]
        s_sm = int(tab[dsm])
        for c1 in (True, False):
            _clear(ang)
            ang.AngularGrid(method=mm)                      # the default degree
            ang.AngularGrid(degree=d50, method=mm)          # its supported value, a key of the cache now
            reqs = [("size only (degree left at its default)", dict(size=s_sm)), ("cached degree and size", dict(degree=d50, size=s_sm)),
                    ("default degree written out and size", dict(degree=50, size=s_sm))]
            for name, kw in reqs:
                g = ang.AngularGrid(method=mm, cache=c1, **kw)
                deg_, sp, sw = _shipped(ang, mm, dsm)
                check("angular.AngularGrid:cache:size-after-cached-degree", f"AngularGrid({name}: {kw}, method={mm!r}, cache={c1}) after the default-degree grid was cached has {g.size} points (degree {g.degree}); `size` wins: {len(sw)} points (degree {dsm})",
                      g.size == len(sw) and np.array_equal(g.points, sp) and np.array_equal(g.weights, sw), {"method": mm, "request": name, "cache": c1},
                      ("import warnings; warnings.filterwarnings('ignore')\nimport numpy as np\nfrom grid import angular as ang\nfrom grid.angular import AngularGrid\n"
                       "for c in ('LEBEDEV_CACHE','SPHERICAL_CACHE','MAX_DET_CACHE','AHRENS_BEYLKIN_CACHE'): getattr(ang, c).clear()\n"
                       f"ref = AngularGrid(size={s_sm}, method={mm!r}, cache=False); AngularGrid(method={mm!r}); AngularGrid(degree={d50}, method={mm!r})\n"
                       f"g = AngularGrid(method={mm!r}, cache={c1}, **{kw!r})\nassert g.size == ref.size and np.array_equal(g.points, ref.points), (g.size, ref.size)\n"))
    _clear(ang)


# ==========================================================================================
# Everything an AtomGrid / MolGrid hands out is edited in place; the parent is observed again
# (eighth round of seeded changes: get_shell_grid returning a view of the atomic grid's points
# when rotate != 0).  rotate = 0 and rotate != 0, incl. the default 37 of MolGrid.from_*.
# ==========================================================================================
def _atom_reference_ok(ang, a, m, rg_points, rg_weights, center):
    """Independent of the rotation convention: shell i of the atomic grid is a rigid rotation of the shipped points of its
    degree scaled by r_i and moved to the centre (same norms and same Gram matrix), with weights shipped x w_i r_i^2."""
    pts = a.points - center
    ind = np.asarray(a.indices)
    for i, d in enumerate(a.degrees):
        _, sp, sw = _shipped(ang, m, int(d))
        sh = pts[ind[i]:ind[i + 1]]
        r = float(rg_points[i])
        if sh.shape != sp.shape:
            return False
        if not np.allclose(sh @ sh.T, (sp @ sp.T) * r * r, rtol=0, atol=1e-12 * max(1.0, r * r)):
            return False
        if not np.allclose(a.weights[ind[i]:ind[i + 1]], sw * rg_weights[i] * r * r, rtol=1e-13, atol=0):
            return False
    return True


def _arrays_of(obj):
    """The arrays of a handed-out object: the array itself, points / weights / indices of a grid, the coefficients of a spline."""
    if isinstance(obj, np.ndarray):
        return [obj]
    out = [getattr(obj, nm, None) for nm in ("points", "weights", "indices", "c")]
    return [a for a in out if isinstance(a, np.ndarray)]


def _edit(obj):
    """In-place edit of every array of a handed-out object. -> number of arrays edited"""
    n = 0
    for arr in _arrays_of(obj):
        if arr.size and arr.flags.writeable:
            try:
                arr[...] = (arr * 0 - 7) if arr.dtype.kind in "iu" else -7.25
                n += 1
            except (ValueError, TypeError):
                pass
    return n


ATOM_HANDOUTS = [
    ("get_shell_grid(i)", lambda a, i: a.get_shell_grid(i)),
    ("get_shell_grid(i, r_sq=False)", lambda a, i: a.get_shell_grid(i, r_sq=False)),
    ("points", lambda a, i: a.points),
    ("convert_cartesian_to_spherical()", lambda a, i: a.convert_cartesian_to_spherical()),
    ("convert_cartesian_to_spherical(points, center)", lambda a, i: a.convert_cartesian_to_spherical(a.points, a.center)),
    ("get_localgrid(center, r)", lambda a, i: a.get_localgrid(a.center, 1.0 + i)),
    # (AtomGrid[...] is not available: Grid.__getitem__ calls the AtomGrid constructor with arrays and raises TypeError; the
    #  __getitem__ selection of the molecular level, MolGrid[k], is in the molecular part)
    ("integrate_angular_coordinates(values)", lambda a, i: a.integrate_angular_coordinates(np.ones(a.size))),
    ("spherical_average(values)", lambda a, i: a.spherical_average(np.exp(-np.sum((a.points - a.center) ** 2, axis=1)))),
]
# handed out by reference by convention (the grid's own arrays / the objects the caller passed in): measured and reported, not asserted
ATOM_BY_REFERENCE = [
    ("weights", lambda a, i: a.weights), ("indices", lambda a, i: a.indices), ("center", lambda a, i: a.center),
    ("rgrid", lambda a, i: a.rgrid), ("get_localgrid(center, inf)", lambda a, i: a.get_localgrid(a.center, np.inf)),
    ("basis", lambda a, i: a.basis),
]


def _atom_state(a, f):
    out = dict(points=a.points.copy(), weights=a.weights.copy(), indices=np.asarray(a.indices).copy(), integral=a.integrate(f(a)),
               shells=[(s.points.copy(), s.weights.copy()) for s in (a.get_shell_grid(i) for i in range(a.n_shells))],
               shells_nosq=[(s.points.copy(), s.weights.copy()) for s in (a.get_shell_grid(i, r_sq=False) for i in range(a.n_shells))])
    return out


def _same_state(s1, s2):
    return (np.array_equal(s1["points"], s2["points"]) and np.array_equal(s1["weights"], s2["weights"]) and np.array_equal(s1["indices"], s2["indices"])
            and s1["integral"] == s2["integral"]
            and all(np.array_equal(a[0], b[0]) and np.array_equal(a[1], b[1]) for a, b in zip(s1["shells"] + s1["shells_nosq"], s2["shells"] + s2["shells_nosq"])))


def _handout_snippet(m, degs, rot, cen, name):
    expr = {"get_shell_grid(i)": "a.get_shell_grid(1)", "get_shell_grid(i, r_sq=False)": "a.get_shell_grid(1, r_sq=False)", "points": "a.points",
            "convert_cartesian_to_spherical()": "a.convert_cartesian_to_spherical()", "convert_cartesian_to_spherical(points, center)": "a.convert_cartesian_to_spherical(a.points, a.center)",
            "get_localgrid(center, r)": "a.get_localgrid(a.center, 2.0)", "self[mask]": "a[np.arange(a.size) % 2 == 0]", "self[index array]": "a[np.arange(0, a.size, 3)]",
            "integrate_angular_coordinates(values)": "a.integrate_angular_coordinates(np.ones(a.size))", "spherical_average(values)": "a.get_shell_grid(1)"}.get(name, "a.get_shell_grid(1)")
    return ("import warnings; warnings.filterwarnings('ignore')\nimport numpy as np\nfrom grid.atomgrid import AtomGrid\nfrom grid.onedgrid import GaussLegendre\nfrom grid.rtransform import BeckeRTransform\n"
            f"rg = BeckeRTransform(0.0, 1.5).transform_1d_grid(GaussLegendre(3)); a = AtomGrid(rg, degrees={degs!r}, rotate={rot}, center=np.array({cen!r}), method={m!r})\n"
            "p, w, s = a.points.copy(), a.weights.copy(), a.get_shell_grid(1).points.copy(); f = np.exp(-np.sum((a.points - a.center)**2, axis=1)); q = a.integrate(f)\n"
            f"o = {expr}\nfor arr in ([o] if isinstance(o, np.ndarray) else [o.points, o.weights]):\n    arr[...] = -7.25      # the caller edits what it was given\n"
            "assert np.array_equal(a.points, p) and np.array_equal(a.weights, w) and a.integrate(f) == q and np.array_equal(a.get_shell_grid(1).points, s), 'editing a handed-out object changed the atomic grid'\n")


def _o_handed_out(ctx: Ctx, reps=6):
    """C19's own wording: what the caller does with previously returned grids, including editing their arrays in place, never
    changes what the atomic / molecular grid it came from, or anything built from it later, returns."""
    ang = importlib.import_module("grid.angular")
    atg = importlib.import_module("grid.atomgrid")
    rt = importlib.import_module("grid.rtransform")
    one = importlib.import_module("grid.onedgrid")
    mol = importlib.import_module("grid.molgrid")
    bk = importlib.import_module("grid.becke")
    obs = {}
    f = lambda a: np.exp(-np.sum((a.points - a.center) ** 2, axis=1))     # noqa: E731
    rg = rt.BeckeRTransform(0.0, 1.5).transform_1d_grid(one.GaussLegendre(3))
    rp, rw = rg.points.copy(), rg.weights.copy()
    by_ref = {}
    for rot in (0, ctx.rng.choice([1, 37, 2024])):
        m = ctx.rng.choice(METHODS)
        pool = _degree_pool(ang, m)
        degs = [int(ctx.rng.choice(pool)) for _ in range(3)]
        cen = [0.0, ctx.rng.choice([0.0, 0.5]), -0.25]
        a = atg.AtomGrid(rg, degrees=degs, rotate=rot, center=np.array(cen), method=m)
        ref_ok = _atom_reference_ok(ang, a, m, rp, rw, np.array(cen))
        st0 = _atom_state(a, f)
        ctx.count(["oracle-handout-reference", m, degs, rot], nontrivial=True, tag="oracle:handed-out")
        if not ref_ok:
            ctx.fail("oracle", "atomgrid.AtomGrid:shipped-rotated-scaled", f"AtomGrid({m}, degrees {degs}, rotate={rot}): a shell is not a rigid rotation of the shipped points scaled by its radius at the centre, or its weights are not shipped x w r^2",
                     witness={"method": m, "degrees": degs, "rotate": rot})
        for name, get in ATOM_HANDOUTS:
            i = ctx.rng.randrange(3)
            o1 = get(a, i)
            keep = [x.copy() for x in _arrays_of(o1)]
            n = _edit(o1)
            st1 = _atom_state(a, f)
            o2 = get(a, i)
            again = _arrays_of(o2)
            same_again = all(np.array_equal(x, y, equal_nan=True) for x, y in zip(keep, again))
            ctx.count(["oracle-handout", m, rot, name], nontrivial=True, tag="oracle:handed-out")
            if not (_same_state(st0, st1) and same_again and _atom_reference_ok(ang, a, m, rp, rw, np.array(cen))):
                what = ("the atomic grid changed (points / weights / integral / shells)" if not _same_state(st0, st1) else "the same request again returns the edited data")
                ctx.fail("oracle", "atomgrid.AtomGrid:handed-out:" + name.split("(")[0],
                         f"AtomGrid({m}, degrees {degs}, rotate={rot}): after an in-place edit of what `{name}` returned ({n} arrays), {what}",
                         witness={"method": m, "degrees": degs, "rotate": rot, "center": cen, "handed_out": name, "shell": i},
                         snippet=_handout_snippet(m, degs, rot, cen, name))
                a = atg.AtomGrid(rg, degrees=degs, rotate=rot, center=np.array(cen), method=m)      # go on with an intact grid
                st0 = _atom_state(a, f)
        # by convention handed out by reference: measure on a throw-away grid
        for name, get in ATOM_BY_REFERENCE:
            b = atg.AtomGrid(bg_copy(rg), degrees=degs, rotate=rot, center=np.array(cen), method=m)
            if name == "basis":
                b.radial_component_splines(f(b))
            s0 = _atom_state(b, f)
            o = get(b, 1)
            if o is None:
                continue
            _edit(o)
            try:
                changed = not _same_state(s0, _atom_state(b, f))
            except Exception:   # noqa: BLE001
                changed = True
            by_ref[name] = by_ref.get(name, False) or changed
    obs["AtomGrid objects handed out by reference by convention, an in-place edit of which changes the grid: " + ", ".join(sorted(k for k, v in by_ref.items() if v))] = any(by_ref.values())
    # molecular level: stored atomic grids (rotate = 37 by default in from_size), everything handed out edited, then observed / rebuilt
    atn, atc = np.array([8, 1]), np.array([[0.0, 0.0, -0.7], [0.0, 0.3, 0.7]])
    builders = [("from_size(rotate default)", lambda: mol.MolGrid.from_size(atn, atc, 14, rg, bk.BeckeWeights(), store=True)),
                ("from_size(rotate=0)", lambda: mol.MolGrid.from_size(atn, atc, 14, rg, bk.BeckeWeights(), store=True, rotate=0)),
                ("MolGrid(list of rotated atomic grids)", lambda: mol.MolGrid(atn, [atg.AtomGrid(rg, degrees=[5, 3, 7], rotate=5, center=c) for c in atc], bk.BeckeWeights(), store=True))]
    for bname, build in builders:
        try:
            mg = build()
        except TypeError:
            continue
        fm = np.exp(-np.sum(mg.points ** 2, axis=1))
        k0 = dict(points=mg.points.copy(), weights=mg.weights.copy(), integral=mg.integrate(fm), at=[_atom_state(mg.get_atomic_grid(k), f) for k in range(2)],
                  rot=[mg.get_atomic_grid(k).rotate for k in range(2)])
        outs = [("get_atomic_grid(k).get_shell_grid(i)", lambda: mg.get_atomic_grid(1).get_shell_grid(ctx.rng.randrange(3))),
                ("self[k].get_shell_grid(i, r_sq=False)", lambda: mg[0].get_shell_grid(1, r_sq=False)),
                ("atgrids[k].points", lambda: mg.atgrids[0].points),
                ("get_atomic_grid(k).get_localgrid", lambda: mg.get_atomic_grid(0).get_localgrid(atc[0], 1.5)),
                ("get_localgrid", lambda: mg.get_localgrid(np.zeros(3), 1.2)),
                ("get_atomic_grid(k).convert_cartesian_to_spherical()", lambda: mg.get_atomic_grid(1).convert_cartesian_to_spherical())]
        for oname, get in outs:
            _edit(get())
            ok = (np.array_equal(mg.points, k0["points"]) and np.array_equal(mg.weights, k0["weights"]) and mg.integrate(fm) == k0["integral"]
                  and all(_same_state(k0["at"][k], _atom_state(mg.get_atomic_grid(k), f)) for k in range(2)))
            later = mol.MolGrid(atn, [mg.get_atomic_grid(k) for k in range(2)], bk.BeckeWeights())
            ok = ok and np.array_equal(later.points, k0["points"]) and np.array_equal(later.weights, k0["weights"])
            ctx.count(["oracle-handout-molgrid", bname, oname], nontrivial=True, tag="oracle:handed-out")
            if not ok:
                ctx.fail("oracle", "molgrid.MolGrid:handed-out",
                         f"MolGrid.{bname} (atomic grids rotate = {k0['rot']}): after an in-place edit of what `{oname}` returned, the molecular grid, one of its atomic grids, or a MolGrid built from them afterwards differs from before",
                         witness={"builder": bname, "handed_out": oname, "rotate": [int(r) for r in k0["rot"]]},
                         snippet=("import warnings; warnings.filterwarnings('ignore')\nimport numpy as np\nfrom grid.molgrid import MolGrid\nfrom grid.becke import BeckeWeights\nfrom grid.onedgrid import GaussLegendre\nfrom grid.rtransform import BeckeRTransform\n"
                                  "rg = BeckeRTransform(0.0, 1.5).transform_1d_grid(GaussLegendre(3)); atn, atc = np.array([8, 1]), np.array([[0, 0, -.7], [0, .3, .7]])\n"
                                  "mg = MolGrid.from_size(atn, atc, 14, rg, BeckeWeights(), store=True); p = mg.points.copy(); ap = mg.get_atomic_grid(1).points.copy()\n"
                                  "s = mg.get_atomic_grid(1).get_shell_grid(1); s.points[...] = -7.25; s.weights[...] = -7.25\n"
                                  "assert np.array_equal(mg.get_atomic_grid(1).points, ap), 'editing a shell grid changed the stored atomic grid'\n"
                                  "later = MolGrid(atn, [mg.get_atomic_grid(k) for k in range(2)], BeckeWeights()); assert np.array_equal(later.points, p)\n"))
                break
    return obs


def bg_copy(rg):
    """A OneDGrid of its own (so that editing `atomgrid.rgrid` does not touch the one shared by the other cases)."""
    bg = importlib.import_module("grid.basegrid")
    return bg.OneDGrid(rg.points.copy(), rg.weights.copy(), rg.domain)


# ==========================================================================================
# Objects handed out BY REFERENCE (rgrid, weights, indices, center, the infinite-radius local grid): an in-place edit /
# setter rebind on ONE holder must not reach any OTHER object — the other atoms of the molecule (same and other element), a
# molecule built before, and everything built AFTERWARDS through the constructors with default arguments (ninth round of
# seeded changes: the default radial grid memoised per element, one OneDGrid shared by all atoms of an element).
# ==========================================================================================
def _default_rgrid_closed_form(atnum):
    """r_i = rmin (i + 1)^p, w_i = rmin p (i + 1)^(p - 1), p = log(rmax / rmin) / log(npt), from the table of default parameters."""
    import scipy.constants
    utils = importlib.import_module("grid.utils")
    rmin, rmax, npt = utils._DEFAULT_POWER_RTRANSFORM_PARAMS[int(atnum)]
    conv = scipy.constants.angstrom / scipy.constants.value("atomic unit of length")
    rmin, rmax = rmin * conv, rmax * conv
    i = np.arange(float(npt))
    p = np.log(rmax / rmin) / np.log(float(npt))
    return rmin * (i + 1.0) ** p, rmin * p * (i + 1.0) ** (p - 1.0)


def _atom_obs(a):
    """What other code reads from an atomic grid, incl. what is read from its rgrid at call time."""
    k = min(3, a.n_shells - 1)
    s = a.get_shell_grid(k)
    return dict(points=a.points.copy(), weights=a.weights.copy(), indices=np.asarray(a.indices).copy(), center=np.asarray(a.center).copy(),
                rp=a.rgrid.points.copy(), rw=a.rgrid.weights.copy(), shell=(s.points.copy(), s.weights.copy()),
                radial=np.asarray(a.integrate_angular_coordinates(np.ones(a.size))).copy())


def _obs_equal(o1, o2):
    for k in o1:
        a, b = o1[k], o2[k]
        if isinstance(a, tuple):
            if not all(x.shape == y.shape and np.array_equal(x, y) for x, y in zip(a, b)):
                return k
        elif a.shape != b.shape or not np.array_equal(a, b):
            return k
    return None


def _o_by_reference_isolation(ctx: Ctx, reps=6):
    mol = importlib.import_module("grid.molgrid")
    atg = importlib.import_module("grid.atomgrid")
    bk = importlib.import_module("grid.becke")
    atn = np.array([1, 1, 8])
    atc = np.array([[0.0, 0.76, -0.47], [0.0, -0.76, -0.47], [0.0, 0.0, 0.12]])
    makers = {
        "MolGrid.from_preset(rgrid=None)": lambda: mol.MolGrid.from_preset(atn.copy(), atc.copy(), "coarse", rgrid=None, aim_weights=bk.BeckeWeights(), store=True),
        "MolGrid.from_size(rgrid=None)": lambda: mol.MolGrid.from_size(atn.copy(), atc.copy(), 26, rgrid=None, aim_weights=bk.BeckeWeights(), store=True),
        "MolGrid.from_pruned(rgrid=None)": lambda: mol.MolGrid.from_pruned(atn.copy(), atc.copy(), radius=[1.0, 1.0, 1.5], r_sectors=[[0.5, 1.0, 1.5]] * 3,
                                                                          d_sectors=[[3, 7, 5, 3]] * 3, rgrid=None, aim_weights=bk.BeckeWeights(), store=True),
    }
    # (every construction gets its own copies of the coordinates: an atomic grid keeps the centre array it is given — by reference,
    #  by convention — so a shared coordinate array would carry the edit of `center` to the other constructions through the harness)
    atom_maker = lambda z: atg.AtomGrid.from_preset(atnum=z, preset="coarse", rgrid=None)      # noqa: E731

    def snap_mol(mg):
        return dict(points=mg.points.copy(), weights=mg.weights.copy(), atoms=[_atom_obs(a) for a in mg.atgrids])

    def mol_diff(s, mg):
        if not (np.array_equal(s["points"], mg.points) and np.array_equal(s["weights"], mg.weights)):
            return "molecular points / weights"
        for k, a in enumerate(mg.atgrids):
            try:
                d = _obs_equal(s["atoms"][k], _atom_obs(a))
            except Exception as e:   # noqa: BLE001
                d = f"raises {type(e).__name__}"
            if d:
                return f"atom {k} (Z={int(atn[k])}): {d}"
        return None
    # pristine references of everything that will be built afterwards (first thing in this part), and the closed form
    usable = {}
    for name, mk in makers.items():
        try:
            usable[name] = snap_mol(mk())
        except Exception as e:   # noqa: BLE001 - a constructor that does not take these arguments on this tree: reported, not used
            ctx.info(f"{name} not usable in the by-reference part: {type(e).__name__}: {str(e)[:100]}")
    ref_atoms = {z: _atom_obs(atom_maker(z)) for z in (1, 8)}
    before = makers["MolGrid.from_size(rgrid=None)"]()                    # a molecule built before
    s_before = snap_mol(before)
    m1 = makers["MolGrid.from_preset(rgrid=None)"]()
    s1 = snap_mol(m1)
    for k, a in enumerate(m1.atgrids):
        rp, rw = _default_rgrid_closed_form(atn[k])
        ctx.count(["oracle-byref-closed-form", int(atn[k])], nontrivial=True, tag="oracle:by-reference")
        if a.rgrid.points.shape != rp.shape or not (np.allclose(a.rgrid.points, rp, rtol=1e-12, atol=0) and np.allclose(a.rgrid.weights, rw, rtol=1e-12, atol=0)):
            ctx.fail("oracle", "molgrid.default-rgrid:closed-form", f"default radial grid of Z={int(atn[k])} in MolGrid.from_preset(rgrid=None) differs from r_i = rmin (i+1)^p with the tabulated parameters",
                     witness={"atnum": int(atn[k])})
    holder = m1.atgrids[0]
    edits = [
        ("rgrid.points edited in place", "a.rgrid.points[...] = a.rgrid.points * 2.0", lambda a: a.rgrid.points.__setitem__(Ellipsis, a.rgrid.points * 2.0)),
        ("rgrid.weights edited in place", "a.rgrid.weights[...] = 0.0", lambda a: a.rgrid.weights.__setitem__(Ellipsis, 0.0)),
        ("rgrid.points rebound through the setter", "a.rgrid.points = a.rgrid.points + 1.0", lambda a: setattr(a.rgrid, "points", a.rgrid.points + 1.0)),
        ("rgrid.weights rebound through the setter", "a.rgrid.weights = a.rgrid.weights * 3.0 + 1.0", lambda a: setattr(a.rgrid, "weights", a.rgrid.weights * 3.0 + 1.0)),
        ("weights edited in place", "a.weights[...] = -1.0", lambda a: a.weights.__setitem__(Ellipsis, -1.0)),
        ("indices edited in place", "a.indices[...] = 0", lambda a: np.asarray(a.indices).__setitem__(Ellipsis, 0)),
        ("center edited in place", "a.center[...] = 9.0", lambda a: np.asarray(a.center).__setitem__(Ellipsis, 9.0)),
        ("infinite-radius local grid edited in place", "l = a.get_localgrid(a.center, np.inf); l.points[...] = 0.0; l.weights[...] = 0.0",
         lambda a: [arr.__setitem__(Ellipsis, 0.0) for arr in (lambda l: (l.points, l.weights))(a.get_localgrid(a.center, np.inf))]),
    ]
    done = []
    for ename, etxt, edit in edits:
        try:
            edit(holder)
        except Exception as e:   # noqa: BLE001 - e.g. indices held as a read-only / non-array object
            ctx.info(f"by-reference edit '{ename}' not possible: {type(e).__name__}")
            continue
        done.append(etxt)
        problems = []
        # the other atoms of the same molecule (atom 1: same element, atom 2: another element) and the molecule built before
        for k in (1, 2):
            try:
                d = _obs_equal(s1["atoms"][k], _atom_obs(m1.atgrids[k]))
            except Exception as e:   # noqa: BLE001
                d = f"raises {type(e).__name__}: {str(e)[:80]}"
            if d:
                problems.append(f"atom {k} (Z={int(atn[k])}) of the same molecule: {d}")
        if not (np.array_equal(m1.points, s1["points"]) and np.array_equal(m1.weights, s1["weights"])):
            problems.append("points / weights of the molecule itself")
        d = mol_diff(s_before, before)
        if d:
            problems.append("the molecule built before: " + d)
        # everything built afterwards through the constructors with default arguments
        for name, ref in usable.items():
            try:
                d = mol_diff(ref, makers[name]())
            except Exception as e:   # noqa: BLE001
                d = f"raises {type(e).__name__}: {str(e)[:80]}"
            if d:
                problems.append(f"{name} built afterwards: {d}")
        for z in (1, 8):
            try:
                d = _obs_equal(ref_atoms[z], _atom_obs(atom_maker(z)))
            except Exception as e:   # noqa: BLE001
                d = f"raises {type(e).__name__}: {str(e)[:80]}"
            if d:
                problems.append(f"AtomGrid.from_preset(atnum={z}, rgrid=None) built afterwards: {d}")
        ctx.count(["oracle-byref-isolation", ename], nontrivial=True, tag="oracle:by-reference")
        if problems:
            ctx.fail("oracle", "by-reference:isolation",
                     f"H2O from MolGrid.from_preset(rgrid=None, store=True): after `{ename}` on atom 0 (H), other objects changed: " + "; ".join(problems[:4]),
                     witness={"edit": ename, "changed": problems},
                     snippet=("import warnings; warnings.filterwarnings('ignore')\nimport numpy as np\nfrom grid.molgrid import MolGrid\nfrom grid.atomgrid import AtomGrid\nfrom grid.becke import BeckeWeights\n"
                              "atn = np.array([1, 1, 8]); atc = np.array([[0, .76, -.47], [0, -.76, -.47], [0, 0, .12]])\n"
                              "mk = lambda: MolGrid.from_preset(atn, atc, 'coarse', rgrid=None, aim_weights=BeckeWeights(), store=True)\n"
                              "ref = mk(); rp = [g.rgrid.points.copy() for g in ref.atgrids]; rw = [g.rgrid.weights.copy() for g in ref.atgrids]; P, W = ref.points.copy(), ref.weights.copy()\n"
                              "ra = AtomGrid.from_preset(atnum=1, preset='coarse', rgrid=None).rgrid.points.copy()\n"
                              "mg = mk(); other = mg.atgrids[1].get_shell_grid(3).points.copy(); a = mg.atgrids[0]\n"
                              + "".join(t + "\n" for t in done)
                              + "assert np.array_equal(mg.atgrids[1].get_shell_grid(3).points, other) and np.array_equal(mg.atgrids[1].rgrid.points, rp[1]), 'the edit on atom 0 reached atom 1'\n"
                              "later = mk()\nassert np.array_equal(later.points, P) and np.array_equal(later.weights, W) and all(np.array_equal(g.rgrid.points, p) and np.array_equal(g.rgrid.weights, w) for g, p, w in zip(later.atgrids, rp, rw)), 'a molecule built afterwards differs'\n"
                              "assert np.array_equal(AtomGrid.from_preset(atnum=1, preset='coarse', rgrid=None).rgrid.points, ra), 'an atomic grid built afterwards differs'\n"))
            break

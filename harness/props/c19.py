"""C19 — caches and remembered parameters never change what a later call returns."""
import importlib

import numpy as np

from ..common import SRC, Ctx, b2f, driver_batch, f2b

LEVEL = "proof"
LEVEL_TEXT = (
    "Lean theorems over an alias machine (cells with identity, a cache from (method, degree) to cells, user handles, "
    "in-place edits): under the copy discipline extracted from AngularGrid.__init__ the invariant 'cache cells hold the "
    "shipped data and are unreachable from any user handle' is preserved by every operation, hence for EVERY history of "
    "constructions (cache on/off, any keys) and in-place edits every angular grid has the shipped points and weights; "
    "the remembered scale b of the three b-scaled transforms is set once (results after that are independent of call "
    "order); the Coulomb loader returns new arrays. The discipline, the scale update and the loader facts are regenerated "
    "from the source on every run; the machine is tied to the implementation by differential runs of random histories "
    "(content and np.shares_memory identity of every returned array, cache keys)."
)
TECHNIQUE = "Lean 4 proof (state-machine invariant over all operation histories, regenerated discipline) + differential histories"
GEN = ["angular_cache"]
LEAN_MODULES = ["GridVerif.Props.C19"]
THEOREMS = [
    "GridVerif.C19.safe_init",
    "GridVerif.C19.step_safe",
    "GridVerif.C19.cache_safe",
    "GridVerif.C19.discipline_all_fresh",
    "GridVerif.C19.angular_grids_always_shipped",
    "GridVerif.C19.cache_corruptible",
    "GridVerif.C19.b_set_once",
    "GridVerif.C19.b_results_order_independent",
    "GridVerif.C19.b_first_call_fixes",
    "GridVerif.C19.b_only_set_by_setter_and_loader_fresh",
]
RULE = (
    "histories of 3..14 operations on one process state: AngularGrid(degree, method, cache on/off) over 4 methods x a "
    "small pool of degrees (so keys repeat), in-place edits of previously returned points/weights arrays; compared with "
    "the Lean machine op by op (content equals shipped?, identity of returned arrays, final cache keys). b-histories: "
    "explicit or inferred b, random order of transform/deriv/deriv2/deriv3/inverse calls on different grids. "
    "Non-trivial = history with at least one edit between two constructions of the same key (cache) / at least two calls "
    "with different grid maxima (b)."
)
TRUSTED_BASE = [
    "Lean 4.33 kernel; axioms propext, Classical.choice, Quot.sound only (audited per theorem)",
    "translator harness/translate/angular_cache.py (classifies the two super().__init__ argument pairs as new array / "
    "cached object, recognises the cache fill and reuse statements, the set_maximum_parameter_b body, the loader's returns)",
    "hand model Model/Aliasing.lean of the cache protocol; NumPy: .copy() and arithmetic give new arrays",
]
ASSUMPTIONS = [
    "np.load returns new arrays per call; module-level cache dicts are only touched by AngularGrid.__init__ "
    "(effects IR of C20 shows no other writer)",
    "atomic and molecular grids derive their arrays from AngularGrid instances by arithmetic (new arrays): checked by the oracle histories",
]

METHODS = ["lebedev", "spherical", "maxdet", "ahrens_beylkin"]
PFX = {"lebedev": "LEBEDEV", "spherical": "SPHERICAL", "maxdet": "MAX_DET", "ahrens_beylkin": "AHRENS_BEYLKIN"}
SCALED = {"lebedev": 1, "spherical": 1, "maxdet": 0, "ahrens_beylkin": 0}
DIRS = {"lebedev": "lebedev", "spherical": "spherical_design", "maxdet": "maxdet", "ahrens_beylkin": "ahrens_beylkin"}
CACHES = {"lebedev": "LEBEDEV_CACHE", "spherical": "SPHERICAL_CACHE", "maxdet": "MAX_DET_CACHE", "ahrens_beylkin": "AHRENS_BEYLKIN_CACHE"}
DEGREES = {"lebedev": [3, 5, 7], "spherical": [1, 3, 5], "maxdet": [1, 2, 3], "ahrens_beylkin": None}


def _clear(ang):
    for c in CACHES.values():
        getattr(ang, c).clear()


def _shipped(ang, m, d):
    """(points, weights) as an AngularGrid of that key must have them, straight from the data file."""
    deg, size = ang.AngularGrid._get_degree_and_size(degree=d, size=None, method=m)
    with np.load(SRC / "data" / DIRS[m] / f"{m}_{deg}_{size}.npz") as z:
        p, w = z["points"], z["weights"]
    if len(w) == 1:
        w = np.ones(len(p)) * w
    if SCALED[m]:
        w = w * 4 * np.pi
    return deg, p, w


def _degree_pool(ang, m):
    if DEGREES[m] is not None:
        return DEGREES[m]
    return sorted(ang.AHRENS_BEYLKIN_DEGREES)[:3]


def _history(ctx: Ctx, ang):
    """-> list of ops: ('c', m, d, cache) | ('e', which construct index, 'p'|'w', value)"""
    n = ctx.rng.randrange(3, 15)
    ops, nconstruct = [], 0
    pool = [(m, d) for m in ctx.rng.sample(METHODS, ctx.rng.randrange(1, 3)) for d in ctx.rng.sample(_degree_pool(ang, m), 2)]
    for _ in range(n):
        if nconstruct == 0 or ctx.rng.random() < 0.55:
            m, d = ctx.rng.choice(pool)
            ops.append(("c", m, d, ctx.rng.random() < 0.7))
            nconstruct += 1
        else:
            ops.append(("e", ctx.rng.randrange(nconstruct), ctx.rng.choice("pw"), ctx.rng.randrange(1, 900)))
    return ops


def _run_impl(ang, ops):
    """Run a history on the library. -> per construct: (p_ok, w_ok, p_identity, w_identity), final cache keys"""
    _clear(ang)
    arrays = []   # [(points array, weights array)] per construct, in order
    res = []
    for op in ops:
        if op[0] == "c":
            _, m, d, cache = op
            g = ang.AngularGrid(degree=d, method=m, cache=cache)
            deg, sp, sw = _shipped(ang, m, d)
            p, w = g.points, g.weights
            pid = next((i for i, (a, _) in enumerate(arrays) if np.shares_memory(a, p)), None)
            wid = next((i for i, (_, b) in enumerate(arrays) if np.shares_memory(b, w)), None)
            res.append((bool(np.array_equal(p, sp)), bool(np.array_equal(w, sw)), pid, wid))
            arrays.append((p, w))
        else:
            _, i, which, v = op
            arr = arrays[i][0 if which == "p" else 1]
            arr[...] = float(v)
    keys = sorted((METHODS.index(m), int(k)) for m, c in CACHES.items() for k in getattr(ang, c))
    _clear(ang)
    return res, keys


def _model_line(ang, ops):
    toks, cells = ["C19.run"], []   # cells: per construct (pcell, wcell) — filled from the answer; edits need them
    return toks, cells


def corr(ctx: Ctx):
    ang = importlib.import_module("grid.angular")
    facts = driver_batch(["C19.facts"])[0].split()
    ctx.extra["discipline"] = facts[1:]
    nh = ctx.n(120, 3000)
    for _ in range(nh):
        ops = _history(ctx, ang)
        # The model allocates cells deterministically; run it incrementally to learn the cell ids of
        # the handles (needed to address edits): send growing prefixes in one batch.
        lines, prefix_toks = [], []
        construct_cells = []
        # first pass: constructs only, to learn cell ids is not possible without the edits' effect on
        # allocation (edits allocate nothing), so cell ids depend on constructs alone:
        toks = []
        for op in ops:
            if op[0] == "c":
                _, m, d, cache = op
                deg = ang.AngularGrid._get_degree_and_size(degree=d, size=None, method=m)[0]
                toks += ["c", str(METHODS.index(m)), str(int(deg)), str(SCALED[m]), "1" if cache else "0"]
        ans = driver_batch(["C19.run " + " ".join(toks)])[0]
        outs = ans[3:].split("|")[0].split(";")
        construct_cells = [tuple(int(x) for x in o.split()[:2]) for o in outs]
        # second pass: the full history with edits addressed by cell id
        toks, ci = [], 0
        for op in ops:
            if op[0] == "c":
                _, m, d, cache = op
                deg = ang.AngularGrid._get_degree_and_size(degree=d, size=None, method=m)[0]
                toks += ["c", str(METHODS.index(m)), str(int(deg)), str(SCALED[m]), "1" if cache else "0"]
                ci += 1
            else:
                _, i, which, v = op
                toks += ["e", str(construct_cells[i][0 if which == "p" else 1]), str(v)]
        ans = driver_batch(["C19.run " + " ".join(toks)])[0]
        body, _, keypart = ans[3:].partition("|")
        mouts = [o.split() for o in body.split(";")]
        kt = keypart.split()
        mkeys = sorted((int(kt[i]), int(kt[i + 1])) for i in range(0, len(kt), 2))
        impl, ikeys = _run_impl(ang, ops)
        # compare
        seen_cells = {}
        j = 0
        ok = True
        why = ""
        for op, mo in zip(ops, mouts):
            if op[0] != "c":
                continue
            _, m, d, cache = op
            deg = ang.AngularGrid._get_degree_and_size(degree=d, size=None, method=m)[0]
            pc, wc, pv, wv = (int(x) for x in mo)
            sp, sw = (int(x) for x in driver_batch([f"C19.shipped {METHODS.index(m)} {int(deg)}"])[0].split()[1:])
            m_ok = (pv == sp, wv == sw)
            m_pid = seen_cells.get(pc)
            m_wid = seen_cells.get(wc)
            i_pok, i_wok, i_pid, i_wid = impl[j]
            if (m_ok[0], m_ok[1]) != (i_pok, i_wok) or (m_pid is None) != (i_pid is None) or (m_wid is None) != (i_wid is None):
                ok = False
                why = (f"construct #{j} {m} degree {d}: model (points ok, weights ok, shares earlier points, shares earlier weights) = "
                       f"{(m_ok[0], m_ok[1], m_pid is not None, m_wid is not None)}, implementation {(i_pok, i_wok, i_pid is not None, i_wid is not None)}")
                break
            seen_cells.setdefault(pc, j)
            seen_cells.setdefault(wc, j)
            j += 1
        if ok and mkeys != ikeys:
            ok, why = False, f"cache keys after the history: model {mkeys}, implementation {ikeys}"
        edits_between = any(
            o[0] == "e" and any(p[0] == "c" for p in ops[:k]) and any(p[0] == "c" for p in ops[k + 1:])
            for k, o in enumerate(ops))
        ctx.count(["angular-history", [list(o) for o in ops]], nontrivial=edits_between,
                  tag="history:" + ("edit-between" if edits_between else "plain"))
        ctx.traces += 1
        if not ok:
            ctx.fail("corr", "angular.AngularGrid:cache-protocol", why, witness={"history": [list(o) for o in ops]})
    _b_corr(ctx)
    _coulomb_corr(ctx, facts)


B_CLASSES = {
    "LinearInfiniteRTransform": lambda rt, b: rt.LinearInfiniteRTransform(0.1, 12.0, b=b),
    "ExpRTransform": lambda rt, b: rt.ExpRTransform(0.1, 12.0, b=b),
    "PowerRTransform": lambda rt, b: rt.PowerRTransform(0.1, 12.0, b=b),
}
B_METHODS = {
    "LinearInfiniteRTransform": ["transform", "deriv", "inverse"],
    "ExpRTransform": ["transform", "deriv", "deriv2", "deriv3", "inverse"],
    "PowerRTransform": ["transform", "deriv", "deriv2", "deriv3", "inverse"],
}


def _b_history(ctx: Ctx, cls):
    b0 = None if ctx.rng.random() < 0.6 else float(ctx.rng.randrange(3, 40))
    calls = []
    for _ in range(ctx.rng.randrange(2, 8)):
        meth = ctx.rng.choice(B_METHODS[cls])
        n = ctx.rng.randrange(3, 12)
        x = np.arange(n, dtype=float) if meth != "inverse" else np.linspace(0.2, 11.0, n)
        calls.append((meth, x))
    return b0, calls


def _b_corr(ctx: Ctx):
    rt = importlib.import_module("grid.rtransform")
    for _ in range(ctx.n(60, 1500)):
        cls = ctx.rng.choice(list(B_CLASSES))
        b0, calls = _b_history(ctx, cls)
        tf = B_CLASSES[cls](rt, b0)
        trace = []
        for meth, x in calls:
            getattr(tf, meth)(x)
            trace.append(tf.b)
        line = f"C19.b {cls} {'none' if b0 is None else f2b(b0)} {len(calls)} " + " ".join(f2b(np.max(x)) for _, x in calls)
        ans = driver_batch([line])[0].split()[1:]
        model = [None if a == "none" else b2f(a) for a in ans]
        distinct_max = len({float(np.max(x)) for _, x in calls}) >= 2
        ctx.count(["b-history", cls, b0, [(m, float(np.max(x))) for m, x in calls]], nontrivial=distinct_max,
                  tag=f"b:{cls}:" + ("explicit" if b0 is not None else "inferred"))
        ctx.traces += 1
        if [None if t is None else float(t) for t in trace] != model:
            ctx.fail("corr", f"rtransform.{cls}.b", f"remembered scale after each call: implementation {trace}, model {model}",
                     witness={"class": cls, "b": b0, "calls": [(m, x.tolist()) for m, x in calls]})


def _coulomb_corr(ctx: Ctx, facts):
    cou = importlib.import_module("grid.coulomb")
    fresh_model = facts[5] == "true"
    for el in ("H", "C", 8, "Fe"):
        try:
            c1, a1 = cou.load_atomic_gaussian_params(el)
        except ValueError:
            continue
        keep = (c1.copy(), a1.copy())
        c2, a2 = cou.load_atomic_gaussian_params(el)
        shared = np.shares_memory(c1, c2) or np.shares_memory(a1, a2)
        ctx.count(["coulomb-loader", str(el)], nontrivial=True, tag="coulomb-loader")
        if shared == fresh_model:
            ctx.fail("corr", "coulomb.load_atomic_gaussian_params",
                     f"loader for {el}: model says results are new arrays = {fresh_model}, two calls share memory = {shared}")


# ------------------------------------------------------------------------------------------
SNIP = """import warnings; warnings.filterwarnings('ignore')
import numpy as np
from grid import angular as ang
from grid.angular import AngularGrid
method, degree = {m!r}, {d}
for c in ('LEBEDEV_CACHE','SPHERICAL_CACHE','MAX_DET_CACHE','AHRENS_BEYLKIN_CACHE'): getattr(ang, c).clear()
ref = AngularGrid(degree=degree, method=method, cache=False)
rp, rw = ref.points.copy(), ref.weights.copy()
g = AngularGrid(degree=degree, method=method)       # fills the cache
g.points[...] = 0.0; g.weights[...] = 0.0            # the caller edits the arrays it was given
h = AngularGrid(degree=degree, method=method)
assert np.array_equal(h.points, rp) and np.array_equal(h.weights, rw), 'a later grid of the same degree returns the edited arrays'
"""


def oracle(ctx: Ctx, budget: str):
    """On the implementation alone: after arbitrary histories (angular, atomic, molecular grids, shell
    extraction, in-place edits of everything returned) every later construction equals the one made in a
    pristine state; b: results after fixing do not depend on call order; Coulomb loader: equal values."""
    ang = importlib.import_module("grid.angular")
    atg = importlib.import_module("grid.atomgrid")
    rt = importlib.import_module("grid.rtransform")
    one = importlib.import_module("grid.onedgrid")
    cou = importlib.import_module("grid.coulomb")
    reps = {"small": 6, "large": 60}[budget] * (4 if ctx.thorough else 1)
    rg = rt.BeckeRTransform(0.0, 1.5).transform_1d_grid(one.GaussLegendre(4))
    for _ in range(reps):
        m = ctx.rng.choice(METHODS)
        pool = _degree_pool(ang, m)
        d = ctx.rng.choice(pool)
        _clear(ang)
        deg, sp, sw = _shipped(ang, m, d)
        ref_at = atg.AtomGrid(rg, degrees=[d], method=m)
        ref_at_p, ref_at_w = ref_at.points.copy(), ref_at.weights.copy()
        _clear(ang)
        # history
        held = []
        for _ in range(ctx.rng.randrange(2, 7)):
            r = ctx.rng.random()
            if r < 0.4:
                g = ang.AngularGrid(degree=ctx.rng.choice(pool), method=m, cache=ctx.rng.random() < 0.8)
                held += [g.points, g.weights]
            elif r < 0.6:
                a = atg.AtomGrid(rg, degrees=[ctx.rng.choice(pool)], method=m, rotate=ctx.rng.randrange(0, 3))
                sh = a.get_shell_grid(ctx.rng.randrange(0, 4))
                held += [a.weights, sh.points, sh.weights, a.points]
                a.integrate(np.ones(a.size))
            elif held:
                arr = ctx.rng.choice(held)
                arr[...] = float(ctx.rng.randrange(0, 5))
        for arr in held:
            arr[...] = -1.0
        g = ang.AngularGrid(degree=d, method=m, cache=ctx.rng.random() < 0.5)
        ctx.count(["oracle-angular", m, d], nontrivial=True, tag="oracle:angular")
        if not (np.array_equal(g.points, sp) and np.array_equal(g.weights, sw)):
            ctx.fail("oracle", "angular.AngularGrid:cache", f"AngularGrid(degree={d}, method={m}) no longer returns the shipped data after a history with in-place edits of previously returned arrays",
                     witness={"method": m, "degree": d}, snippet=SNIP.format(m=m, d=d))
        # a molecular grid built on top (two atoms, Becke weights): its arrays after the history must
        # equal those of the same grid built before any edit happened in a pristine cache state
        if ctx.rng.random() < 0.5:
            mol = importlib.import_module("grid.molgrid")
            bk = importlib.import_module("grid.becke")
            def _mol():
                ats = [atg.AtomGrid(rg, degrees=[d], method=m, center=np.array(c)) for c in ([0.0, 0.0, -0.7], [0.0, 0.0, 0.7])]
                return mol.MolGrid(np.array([1, 1]), ats, bk.BeckeWeights(), store=ctx.rng.random() < 0.5)
            got_m = _mol()
            _clear(ang)
            ref_m = _mol()
            ctx.count(["oracle-molgrid", m, d], nontrivial=True, tag="oracle:molgrid")
            if not (np.array_equal(got_m.points, ref_m.points) and np.array_equal(got_m.weights, ref_m.weights)):
                ctx.fail("oracle", "molgrid.MolGrid:angular-cache", f"MolGrid built from {m} degree {d} after a history with in-place edits differs from the one built in a pristine cache state",
                         witness={"method": m, "degree": d}, snippet=SNIP.format(m=m, d=d))
            for arr in (got_m.points, got_m.weights):
                arr[...] = -3.0    # editing the molecular grid's own arrays must not reach the cache either
        a = atg.AtomGrid(rg, degrees=[d], method=m)
        if not (np.array_equal(a.points, ref_at_p) and np.array_equal(a.weights, ref_at_w)):
            ctx.fail("oracle", "atomgrid.AtomGrid:angular-cache", f"AtomGrid built from {m} degree {d} differs from the one built in a pristine process state",
                     witness={"method": m, "degree": d}, snippet=SNIP.format(m=m, d=d))
        _clear(ang)
    # cross-method histories: the same degree requested under different methods, in both orders, with
    # the cache on (a cache keyed too coarsely, or shared between methods, shows up here)
    tabs = {m: set(int(k) for k in getattr(ang, PFX[m] + "_DEGREES")) for m in METHODS}
    for _ in range(reps):
        ma, mb = ctx.rng.sample(METHODS, 2)
        shared = sorted(d for d in tabs[ma] & tabs[mb] if d <= 41)
        if not shared:
            continue
        d = ctx.rng.choice(shared)
        _clear(ang)
        seq = [(ma, d, True), (mb, d, ctx.rng.random() < 0.7), (ma, d, ctx.rng.random() < 0.5)]
        ctx.count(["oracle-cross-method", ma, mb, d], nontrivial=True, tag="oracle:cross-method")
        for (m, dd, cache) in seq:
            g = ang.AngularGrid(degree=dd, method=m, cache=cache)
            deg, sp, sw = _shipped(ang, m, dd)
            if g.points.shape != sp.shape or not (np.array_equal(g.points, sp) and np.array_equal(g.weights, sw)):
                ctx.fail("oracle", "angular.AngularGrid:cache:cross-method",
                         f"AngularGrid(degree={dd}, method={m!r}, cache={cache}) built after {ma!r} degree {d} was cached has {len(g.points)} points / data that differ from the shipped file ({len(sp)} points)",
                         witness={"sequence": [list(x) for x in seq]},
                         snippet=("import warnings; warnings.filterwarnings('ignore')\nimport numpy as np\nfrom grid import angular as ang\nfrom grid.angular import AngularGrid\n"
                                  "for c in ('LEBEDEV_CACHE','SPHERICAL_CACHE','MAX_DET_CACHE','AHRENS_BEYLKIN_CACHE'): getattr(ang, c).clear()\n"
                                  f"AngularGrid(degree={d}, method={ma!r})\nref = AngularGrid(degree={d}, method={mb!r}, cache=False)\n"
                                  "for c in ('LEBEDEV_CACHE','SPHERICAL_CACHE','MAX_DET_CACHE','AHRENS_BEYLKIN_CACHE'): getattr(ang, c).clear()\n"
                                  f"g0 = AngularGrid(degree={d}, method={mb!r}, cache=False)\nAngularGrid(degree={d}, method={ma!r})\ng = AngularGrid(degree={d}, method={mb!r})\n"
                                  "assert g.points.shape == g0.points.shape and np.array_equal(g.points, g0.points) and np.array_equal(g.weights, g0.weights), 'grid depends on what was cached before under another method'\n"))
                break
        _clear(ang)
    # b: order independence once fixed
    for _ in range(reps * 3):
        cls = ctx.rng.choice(list(B_CLASSES))
        b0, calls = _b_history(ctx, cls)
        bfix = b0 if b0 is not None else float(np.max(calls[0][1]))
        x = np.linspace(0.5, 7.5, 5)
        ref = B_CLASSES[cls](rt, bfix).transform(x)
        tf = B_CLASSES[cls](rt, b0)
        if b0 is None:
            getattr(tf, calls[0][0])(calls[0][1])     # the first call fixes the scale
            if calls[0][0] == "inverse":
                continue                              # (scale inferred from r values: not comparable with bfix)
        order = calls[1:]
        ctx.rng.shuffle(order)
        for meth, xx in order:
            getattr(tf, meth)(xx)
        got = tf.transform(x)
        ctx.count(["oracle-b", cls, b0], nontrivial=True, tag="oracle:b")
        if not np.array_equal(got, ref):
            ctx.fail("oracle", f"rtransform.{cls}.b", f"{cls}: transform after a history of calls differs from a transform with the same fixed scale b={bfix}",
                     witness={"class": cls, "b": b0, "calls": [(m, xx.tolist()) for m, xx in calls]},
                     snippet=(
                         "import warnings; warnings.filterwarnings('ignore')\nimport numpy as np\nfrom grid import rtransform as rt\n"
                         f"tf = rt.{cls}(0.1, 12.0, b={bfix}); x = np.linspace(0.5, 7.5, 5); ref = rt.{cls}(0.1, 12.0, b={bfix}).transform(x)\n"
                         "tf.deriv(np.arange(30.0)); tf.transform(np.arange(3.0))\n"
                         "assert np.array_equal(tf.transform(x), ref), 'scale changed by later calls'\n"))
    # Coulomb loader: equal values on every call, also after the caller edited an earlier result
    for el in ("H", "C", 8, 26):
        try:
            c1, a1 = cou.load_atomic_gaussian_params(el)
        except ValueError:
            continue
        keep = (c1.copy(), a1.copy())
        c1[...] = 0.0
        a1[...] = 0.0
        c2, a2 = cou.load_atomic_gaussian_params(el)
        ctx.count(["oracle-coulomb", str(el)], nontrivial=True, tag="oracle:coulomb")
        if not (np.array_equal(c2, keep[0]) and np.array_equal(a2, keep[1])):
            ctx.fail("oracle", "coulomb.load_atomic_gaussian_params", f"parameters of {el} differ on a later call after the caller edited an earlier result",
                     witness={"element": str(el)},
                     snippet=("import numpy as np\nfrom grid.coulomb import load_atomic_gaussian_params as L\n"
                              f"c, a = L({el!r}); k = c.copy(); c[...] = 0\nassert np.array_equal(L({el!r})[0], k)\n"))

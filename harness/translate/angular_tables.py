"""Translator: grid/angular.py tables + data directory listing -> Gen/AngularTables.lean.

The module is imported and the four size->degree dicts and their inverse dicts
are dumped *in insertion order* (that order is what `list(d.keys())` and hence
`bisect_left` see).  The data directories are listed and each .npz header is
read for the array lengths."""
import importlib
import re
import sys

import numpy as np

from ..common import SRC
from .util import HEADER, lean_nat_pairs, write_if_changed

METHODS = [
    ("lebedev", "LEBEDEV", "lebedev"),
    ("spherical", "SPHERICAL", "spherical_design"),
    ("maxdet", "MAX_DET", "maxdet"),
    ("ahrens_beylkin", "AHRENS_BEYLKIN", "ahrens_beylkin"),
]


def _nat(x):
    if isinstance(x, bool) or not isinstance(x, (int, np.integer)) or x < 0:
        raise ValueError(f"table entry {x!r} is not a natural number")
    return int(x)


def tables():
    ang = importlib.import_module("grid.angular")
    out = {}
    for meth, prefix, d in METHODS:
        npts = getattr(ang, prefix + "_NPOINTS")
        degs = getattr(ang, prefix + "_DEGREES")
        files = []
        for f in sorted((SRC / "data" / d).glob("*.npz")):
            m = re.fullmatch(rf"{meth}_(\d+)_(\d+)\.npz", f.name)
            if not m:
                raise ValueError(f"unexpected data file name {f.name}")
            with np.load(f) as z:
                npnt = z["points"].shape[0]
                pdim = z["points"].shape[1] if z["points"].ndim == 2 else 0
                nw = len(z["weights"])
            files.append((int(m.group(1)), int(m.group(2)), npnt, pdim, nw))
        files.sort()
        out[meth] = dict(
            npoints=[(_nat(k), _nat(v)) for k, v in npts.items()],
            degrees=[(_nat(k), _nat(v)) for k, v in degs.items()],
            files=files,
        )
    return out


def generate():
    t = tables()
    parts = [HEADER.format(name="angular_tables", source="src/grid/angular.py, src/grid/data/{lebedev,spherical_design,maxdet,ahrens_beylkin}/*.npz")]
    parts.append("namespace GridVerif.Gen.Angular\n")
    for meth, _, _ in METHODS:
        nm = {"lebedev": "lebedev", "spherical": "spherical", "maxdet": "maxdet", "ahrens_beylkin": "ahrens"}[meth]
        parts.append(f"/-- `{meth}`: size ↦ degree dict, insertion order. -/")
        parts.append(f"def {nm}NPoints : List (Nat × Nat) := {lean_nat_pairs(t[meth]['npoints'])}\n")
        parts.append(f"/-- `{meth}`: degree ↦ size dict, insertion order. -/")
        parts.append(f"def {nm}Degrees : List (Nat × Nat) := {lean_nat_pairs(t[meth]['degrees'])}\n")
        parts.append(f"/-- `{meth}`: data files `(degree, size)` from the file name. -/")
        parts.append(f"def {nm}Files : List (Nat × Nat) := {lean_nat_pairs([(a, b) for a, b, *_ in t[meth]['files']])}\n")
        parts.append(f"/-- `{meth}`: per data file `(size from the name, number of rows of points)`. -/")
        parts.append(f"def {nm}FilePoints : List (Nat × Nat) := {lean_nat_pairs([(b, c) for a, b, c, d, e in t[meth]['files']])}\n")
        parts.append(f"/-- `{meth}`: per data file `(columns of points, length of weights)`; a weights array of length 1 is broadcast. -/")
        parts.append(f"def {nm}FileShape : List (Nat × Nat) := {lean_nat_pairs([(d, e) for a, b, c, d, e in t[meth]['files']])}\n")
    parts.append("end GridVerif.Gen.Angular\n")
    return write_if_changed("AngularTables.lean", "\n".join(parts))

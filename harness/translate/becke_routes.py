"""Translator: the *plumbing* of grid/becke.py -> Gen/BeckeRoutes.lean, statement by statement.

`BeckeWeights.__init__`, `generate_weights`, `compute_atom_weight`, `compute_weights`, `__call__` are parsed (ast) and
every statement is carried into a `do` block over `Except Err`, written in the primitives of `Model/BeckePy.lean`
(`pyGetItem`, `pyRange`, `npSliceAddInto`, `npColDivRowSum`, `pyDictGetItem`, …), the Python statement beside it as a
comment.  What is generated text (and therefore re-checked by the theorems of `Props/C06/Routes.lean`, `Init.lean`):

* `__init__`: the `isinstance(order, int)` guard, `self._order = order`, the table `get_cov_radii(np.arange(1, 87, 1),
  "bragg")` and the dictionary comprehension `(i + 1, radius)`, the `radii` guards (dictionary, integer keys) in
  their order, `self._radii.update(radii)`;
* the normalisation of `select` / `pt_ind`, `sectors`, the guards, the one-sector branch and the sector loop of
  `generate_weights` (`for i in range(sectors)`: bounds `pt_ind[i] : pt_ind[i + 1]`, atom `select[i]`) and of
  `compute_weights` (`for i in select`: bounds `pt_ind[i] : pt_ind[i + 1]`, atom `i`);
* every call between the routines with its arguments bound against the callee's signature: `compute_weights ->
  compute_atom_weight(points[…], atcoords, atnums, i)` (cutoff omitted: the callee's generated default),
  `__call__ -> generate_weights(points[ibegin : ibegin + chunk_size], atcoords, atnums, pt_ind=(indices - ibegin).clip(min=0))`
  (select omitted: `None`);
* the radius comprehension `self._radii[num] if not np.isnan(self._radii[num]) else np.nan_to_num(self._radii[num - 1]) or
  np.nan_to_num(self._radii[num - 2])` of both copies.

The array pipeline of the two weight routines (`n_p = …` down to `s_ab = np.prod(s_ab, axis=-1)`) is NOT translated
statement by statement: its source text is pinned (any edit is `Untranslatable`, except in the three formulas that
`translate/becke.py` carries into `Gen/Becke.lean`) and it becomes the single primitive `cellTab <route>`.  The
`warnings.warn(<message>, stacklevel=…)` inside it has no effect on the value: its message must be a plain (f-)string, its
keyword literals are carried into the generated comment (a change shows in the regenerated text, no theorem depends on it).
Anything outside this repertoire raises `Untranslatable` (the check treats that as a broken proof obligation).
"""
import ast

from ..common import SRC
from .becke import Untranslatable, _body, _defaults, _float_literal, _method, _src, resolve_call
from .util import HEADER, write_if_changed

# ---------------------------------------------------------------------------------------------------------------
# the pinned array pipeline (normalised by ast.unparse); `{ALPHA}`, `{VPP}`, `{SAB}` are the generated formulas
# ---------------------------------------------------------------------------------------------------------------
PIPELINE = [
    "n_p = np.linalg.norm(atcoords[:, None] - points, axis=-1)",
    "n_n_p = n_p[:, None] - n_p",
    "atomic_dist = np.linalg.norm(atcoords[:, None] - atcoords, axis=-1)",
    "with warnings.catch_warnings():\n    warnings.simplefilter('ignore')\n    mu_p_n_n = n_n_p.transpose([2, 0, 1]) / atomic_dist",
    "del n_n_p",
    "specified_radius = [self._radii[num] for num in atnums]",
    "indices = np.where(np.isnan(specified_radius))[0]",
    "<warn>",
    "<radii>",
    "<alpha>",
    "<v_pp>",
    "del mu_p_n_n",
    "<s_ab>",
    "del v_pp",
    "s_ab[np.isnan(s_ab)] = 1",
    "s_ab = np.prod(s_ab, axis=-1)",
]


def _is_warn(st):
    """if len(indices) != 0: warnings.warn(<text>, <keyword>=<literal> …)  -- no effect on the value; the message must be a
    plain (f-)string without calls, the keywords literals (they are carried into the generated comment)"""
    ok = (
        isinstance(st, ast.If) and not st.orelse and _src(st.test) == "len(indices) != 0" and len(st.body) == 1
        and isinstance(st.body[0], ast.Expr) and isinstance(st.body[0].value, ast.Call) and _src(st.body[0].value.func) == "warnings.warn"
    )
    if not ok:
        return False
    call = st.body[0].value
    if len(call.args) != 1 or not isinstance(call.args[0], (ast.JoinedStr, ast.Constant)):
        return False
    if any(isinstance(n, (ast.Call, ast.NamedExpr, ast.Await, ast.Yield, ast.Lambda)) for n in ast.walk(call.args[0])):
        return False
    return all(k.arg is not None and isinstance(k.value, ast.Constant) for k in call.keywords)


def _warn_text(st):
    call = st.body[0].value
    kws = "".join(f", {k.arg}={_src(k.value)}" for k in call.keywords)
    return f"if {_src(st.test)}: warnings.warn(<message>{kws})"


class Ty:
    INT, NAT, LNAT, LINT, LK, PTS, COORDS, ATNUMS, TAB, SEL, OPTLINT = "Int", "Nat", "List Nat", "List Int", "List K", "pts", "coords", "atnums", "tab", "sel", "optlint"


class Ex:
    """typed expression translation"""

    def __init__(self, env, meth, cls):
        self.env = env      # python name -> (lean term, type)
        self.meth = meth
        self.cls = cls

    def fail(self, e, why=""):
        raise Untranslatable(f"{self.meth}: cannot carry `{_src(e)}` {why}")

    def int(self, e):
        """-> Lean term of type Int"""
        t, ty = self.any(e)
        if ty == Ty.INT:
            return t
        if ty == Ty.NAT:
            return f"({t} : Int)"
        self.fail(e, f"(an integer is needed, this is {ty})")

    def nat(self, e):
        t, ty = self.any(e)
        if ty == Ty.NAT:
            return t
        self.fail(e, f"(an atom index is needed, this is {ty})")

    def typed(self, e, want):
        t, ty = self.any(e)
        if ty != want:
            self.fail(e, f"({want} is needed, this is {ty})")
        return t

    def any(self, e):
        if isinstance(e, ast.Name):
            if e.id in self.env:
                return self.env[e.id]
            self.fail(e, "(unknown name)")
        if isinstance(e, ast.Constant) and isinstance(e.value, int) and not isinstance(e.value, bool):
            return (f"({e.value} : Int)" if e.value >= 0 else f"(-{-e.value} : Int)"), Ty.INT
        if isinstance(e, ast.BinOp) and isinstance(e.op, (ast.Add, ast.Sub, ast.Mult)):
            op = {ast.Add: "+", ast.Sub: "-", ast.Mult: "*"}[type(e.op)]
            # array - scalar (elementwise) : (indices - ibegin)
            lt, lty = self.any(e.left)
            if lty == Ty.LINT and isinstance(e.op, ast.Sub):
                return f"({lt}.map fun x => x - {self.int(e.right)})", Ty.LINT
            return f"({self.int(e.left)} {op} {self.int(e.right)})", Ty.INT
        if isinstance(e, ast.BinOp) and isinstance(e.op, ast.Pow) and isinstance(e.right, ast.Constant) and isinstance(e.right.value, int) and e.right.value >= 0:
            return f"({self.int(e.left)} ^ {e.right.value})", Ty.INT
        if isinstance(e, ast.BinOp) and isinstance(e.op, ast.FloorDiv):
            return f"(← pyFloorDiv {self.int(e.left)} {self.int(e.right)})", Ty.INT
        if isinstance(e, ast.Attribute) and _src(e) in ("points.shape", "atcoords.shape"):
            self.fail(e)
        if isinstance(e, ast.Subscript):
            base = _src(e.value)
            # x.shape[0]
            if isinstance(e.value, ast.Attribute) and e.value.attr == "shape" and _src(e.slice) == "0":
                t, ty = self.any(e.value.value)
                if ty in (Ty.PTS, Ty.COORDS):
                    return f"({t}.length : Int)", Ty.INT
                self.fail(e)
            if isinstance(e.slice, ast.Slice):
                if e.slice.step is not None or e.slice.lower is None or e.slice.upper is None:
                    self.fail(e, "(slice form)")
                t, ty = self.any(e.value)
                lo, hi = self.int(e.slice.lower), self.int(e.slice.upper)
                if ty == Ty.PTS:
                    return f"(pySlice {t} {lo} {hi})", Ty.PTS
                if ty == Ty.TAB:
                    return f"({t}.slice {lo} {hi})", Ty.TAB
                self.fail(e, f"(slice of {ty})")
            t, ty = self.any(e.value)
            if ty == Ty.LNAT:
                return f"(← pyGetItem {t} {self.int(e.slice)})", Ty.NAT
            if ty == Ty.LINT:
                return f"(← pyGetItem {t} {self.int(e.slice)})", Ty.INT
            self.fail(e, f"(subscript of {ty})")
        if isinstance(e, ast.BinOp) and isinstance(e.op, ast.Div):
            # tab[:, k] / np.sum(tab, axis=-1)
            l, r = e.left, e.right
            ok = (
                isinstance(l, ast.Subscript) and isinstance(l.slice, ast.Tuple) and len(l.slice.elts) == 2
                and isinstance(l.slice.elts[0], ast.Slice) and l.slice.elts[0].lower is None and l.slice.elts[0].upper is None and l.slice.elts[0].step is None
                and isinstance(r, ast.Call) and _src(r.func) == "np.sum" and len(r.args) == 1 and [(k.arg, _src(k.value)) for k in r.keywords] == [("axis", "-1")]
                and _src(r.args[0]) == _src(l.value)
            )
            if not ok:
                self.fail(e, "(expected `tab[:, k] / np.sum(tab, axis=-1)`)")
            tab = self.typed(l.value, Ty.TAB)
            return f"(← npColDivRowSum {tab} {self.nat(l.slice.elts[1])})", Ty.LK
        if isinstance(e, ast.Call):
            f = _src(e.func)
            if f == "len" and len(e.args) == 1 and not e.keywords:
                t, ty = self.any(e.args[0])
                if ty in (Ty.LNAT, Ty.LINT, Ty.LK, Ty.PTS, Ty.COORDS, Ty.ATNUMS):
                    return f"({t}.length : Int)", Ty.INT
                self.fail(e)
            if f in ("max", "min") and len(e.args) == 2 and not e.keywords:
                return f"({f} {self.int(e.args[0])} {self.int(e.args[1])})", Ty.INT
            if f == "np.zeros" and len(e.args) == 1 and not e.keywords and isinstance(e.args[0], ast.Call) and _src(e.args[0].func) == "len":
                t, ty = self.any(e.args[0].args[0])
                if ty != Ty.PTS:
                    self.fail(e)
                return f"(npZeros {t}.length)", Ty.LK
            if isinstance(e.func, ast.Attribute) and e.func.attr == "clip" and not e.args and [k.arg for k in e.keywords] == ["min"]:
                t = self.typed(e.func.value, Ty.LINT)
                return f"({t}.map fun x => max x {self.int(e.keywords[0].value)})", Ty.LINT
            if f == "self.compute_atom_weight":
                fn = _method(self.cls, "compute_atom_weight")
                params = [a.arg for a in fn.args.args][1:]
                b = resolve_call(e, params, self.meth)
                for need in ("points", "atcoords", "atnums", "select"):
                    if need not in b:
                        self.fail(e, f"({need} not passed)")
                cut = "cawDefaultCutoff" if "cutoff" not in b else self.fail(e, "(cutoff passed explicitly)")
                return (f"(← compute_atom_weight self {self.typed(b['points'], Ty.PTS)} {self.typed(b['atcoords'], Ty.COORDS)} "
                        f"{self.typed(b['atnums'], Ty.ATNUMS)} {self.nat(b['select'])} {cut})"), Ty.LK
            if f == "self.generate_weights":
                fn = _method(self.cls, "generate_weights")
                params = [a.arg for a in fn.args.args][1:]
                kwonly = [a.arg for a in fn.args.kwonlyargs]
                if len(e.args) > len(params):
                    self.fail(e, "(keyword-only argument passed by position)")
                b = resolve_call(e, params + kwonly, self.meth)
                for need in ("points", "atcoords", "atnums"):
                    if need not in b:
                        self.fail(e, f"({need} not passed)")
                kwd = dict(zip(kwonly, fn.args.kw_defaults))
                for k in ("select", "pt_ind"):
                    if k not in b and not (isinstance(kwd.get(k), ast.Constant) and kwd[k].value is None):
                        self.fail(e, f"(default of {k} is not None)")
                sel = "SelectArg.none" if "select" not in b else self.typed(b["select"], Ty.SEL)
                pti = "none" if "pt_ind" not in b else f"(some {self.typed(b['pt_ind'], Ty.LINT)})"
                return (f"(← generate_weights self {self.typed(b['points'], Ty.PTS)} {self.typed(b['atcoords'], Ty.COORDS)} "
                        f"{self.typed(b['atnums'], Ty.ATNUMS)} {sel} {pti})"), Ty.LK
        self.fail(e)

    def cond(self, e):
        if isinstance(e, ast.Compare) and len(e.ops) == 1:
            op = {ast.Eq: "==", ast.NotEq: "!="}.get(type(e.ops[0]))
            if op:
                return f"{self.int(e.left)} {op} {self.int(e.comparators[0])}"
            op = {ast.Lt: "<", ast.LtE: "≤", ast.Gt: ">", ast.GtE: "≥"}.get(type(e.ops[0]))
            if op:      # (round 6) order comparisons of integers, e.g. the bounds of a sector
                return f"{self.int(e.left)} {op} {self.int(e.comparators[0])}"
        # (round 6) `not np.any(points)` / `np.any(points)`: is some coordinate of some point non-zero?
        neg = isinstance(e, ast.UnaryOp) and isinstance(e.op, ast.Not)
        c = e.operand if neg else e
        if isinstance(c, ast.Call) and _src(c.func) == "np.any" and len(c.args) == 1 and not c.keywords:
            t, ty = self.any(c.args[0])
            if ty == Ty.PTS:
                return f"npAnyPoints {t} = {'false' if neg else 'true'}"
        self.fail(e, "(condition)")


class Block:
    def __init__(self, cls, meth, env, route=None):
        self.cls, self.meth, self.env, self.route = cls, meth, dict(env), route
        self.lines = []

    def ex(self):
        return Ex(self.env, self.meth, self.cls)

    def emit(self, ind, text):
        self.lines.append("  " * ind + text)

    def comment(self, ind, st, only_head=False):
        src = _src(st)
        if only_head:
            src = src.split("\n")[0]
        for ln in src.split("\n"):
            self.emit(ind, "-- " + ln)

    # ---- statements -------------------------------------------------------------------------------------------
    def is_raise(self, st, exc):
        return (isinstance(st, ast.If) and not st.orelse and len(st.body) == 1 and isinstance(st.body[0], ast.Raise)
                and isinstance(st.body[0].exc, ast.Call) and _src(st.body[0].exc.func) == exc)

    def select_norm(self, ind, st):
        """if select is None: select = np.arange(len(atcoords)) / elif isinstance(select, (np.integer, int)): select = [select]"""
        ok = (
            isinstance(st, ast.If) and _src(st.test) == "select is None" and len(st.body) == 1 and isinstance(st.body[0], ast.Assign)
            and _src(st.body[0].targets[0]) == "select" and len(st.orelse) == 1 and isinstance(st.orelse[0], ast.If)
            and not st.orelse[0].orelse and len(st.orelse[0].body) == 1 and isinstance(st.orelse[0].body[0], ast.Assign)
            and _src(st.orelse[0].body[0].targets[0]) == "select"
        )
        if not ok or self.env.get("select", (None, None))[1] != Ty.SEL:
            raise Untranslatable(f"{self.meth}: normalisation of `select`: `{_src(st)}`")
        t2 = st.orelse[0].test
        if _src(t2) not in ("isinstance(select, (np.integer, int))", "isinstance(select, (int, np.integer))"):
            raise Untranslatable(f"{self.meth}: `{_src(t2)}`")
        v1 = st.body[0].value
        if not (isinstance(v1, ast.Call) and _src(v1.func) == "np.arange" and len(v1.args) == 1 and not v1.keywords):
            raise Untranslatable(f"{self.meth}: `{_src(v1)}`")
        n = self.ex().int(v1.args[0])
        v2 = st.orelse[0].body[0].value
        if not (isinstance(v2, ast.List) and len(v2.elts) == 1 and _src(v2.elts[0]) == "select"):
            raise Untranslatable(f"{self.meth}: `{_src(v2)}`")
        self.comment(ind, st)
        self.emit(ind, "let select : List Nat := (match select with")
        self.emit(ind, f"  | .none => npArangeNat {n}")
        self.emit(ind, "  | .int select => [select]")
        self.emit(ind, "  | .seq select => select)")
        self.env["select"] = ("select", Ty.LNAT)

    def ptind_norm(self, ind, st):
        """if pt_ind is None: pt_ind = [] / elif len(pt_ind) == 1: raise ValueError"""
        ok = (
            isinstance(st, ast.If) and _src(st.test) == "pt_ind is None" and len(st.body) == 1 and _src(st.body[0]) == "pt_ind = []"
            and len(st.orelse) == 1 and self.is_raise(st.orelse[0], "ValueError")
        )
        if not ok or self.env.get("pt_ind", (None, None))[1] != Ty.OPTLINT:
            raise Untranslatable(f"{self.meth}: normalisation of `pt_ind`: `{_src(st)}`")
        env2 = dict(self.env)
        env2["pt_ind"] = ("pt_ind", Ty.LINT)
        c = Ex(env2, self.meth, self.cls).cond(st.orelse[0].test)
        self.comment(ind, st)
        self.emit(ind, "let pt_ind : List Int ← (match pt_ind with")
        self.emit(ind, "  | none => pure []")
        self.emit(ind, f"  | some pt_ind => if {c} then throw Err.valueError else pure pt_ind)")
        self.env["pt_ind"] = ("pt_ind", Ty.LINT)

    def assigned(self, stmts):
        out = []
        for st in stmts:
            for n in ast.walk(st):
                if isinstance(n, (ast.Assign, ast.AugAssign)):
                    tg = n.targets[0] if isinstance(n, ast.Assign) else n.target
                    while isinstance(tg, ast.Subscript):
                        tg = tg.value
                    if isinstance(tg, ast.Name) and tg.id not in out:
                        out.append(tg.id)
        return out

    def stmts(self, ind, body):
        i = 0
        while i < len(body):
            st = body[i]
            # the pinned pipeline
            if isinstance(st, ast.Assign) and _src(st.targets[0]) == "n_p":
                i = self.pipeline(ind, body, i)
                continue
            self.stmt(ind, st)
            i += 1

    def pipeline(self, ind, body, i):
        if self.route is None:
            raise Untranslatable(f"{self.meth}: array pipeline in a method without route")
        j = i
        for want in PIPELINE:
            if j >= len(body):
                raise Untranslatable(f"{self.meth}: array pipeline ends early (expected `{want}`)")
            st = body[j]
            if want == "<warn>":
                ok = _is_warn(st)
                if ok:
                    warn = _warn_text(st)
            elif want == "<radii>":
                ok = isinstance(st, ast.Assign) and _src(st.targets[0]) == "radii"
                if ok:
                    self.radii_expr = st.value
            elif want in ("<alpha>", "<v_pp>", "<s_ab>"):
                ok = isinstance(st, ast.Assign) and _src(st.targets[0]) == want[1:-1]   # carried by translate/becke.py
            else:
                ok = _src(st) == want
            if not ok:
                raise Untranslatable(f"{self.meth}: array pipeline: `{_src(st)[:120]}` where `{want}` is expected")
            j += 1
        self.emit(ind, f"-- [array pipeline `{_src(body[i])[:40]}…` to `{_src(body[j - 1])}`: text pinned, entry by entry = `cellTab {self.route}`]")
        self.emit(ind, f"-- [{warn}: no effect on the value]")
        self.emit(ind, f"-- radii = np.array([… for num in atnums])   (`{self.radius_fn}`)")
        self.emit(ind, f"let radii ← atnums.mapM ({self.radius_fn} self.radii)")
        self.emit(ind, f"let s_ab := cellTab {self.route} self.order atcoords radii points")
        self.env["s_ab"] = ("s_ab", Ty.TAB)
        return j

    # ---- (round 6) loop control: `if <cond>: break` / `if <cond>: continue` at the top level of a loop body -------------
    @staticmethod
    def is_control(st):
        return (isinstance(st, ast.If) and not st.orelse and len(st.body) == 1 and isinstance(st.body[0], (ast.Break, ast.Continue)))

    def has_loop_control(self, body):
        if any(isinstance(n, (ast.Break, ast.Continue)) for st in body for n in ast.walk(st)):
            if not all(self.is_control(st) or not any(isinstance(n, (ast.Break, ast.Continue)) for n in ast.walk(st)) for st in body):
                raise Untranslatable(f"{self.meth}: break / continue in a position that is not `if <cond>: break|continue` at the top of the loop body")
            return True
        return False

    def for_with_control(self, ind, st):
        """a loop with `break` / `continue`: Lean's `forIn` (`ForInStep.done` = break, `.yield` = next iteration)"""
        ex = self.ex()
        names = self.assigned(st.body)
        carried = [n for n in names if n in self.env]
        if len(carried) != 1:
            raise Untranslatable(f"{self.meth}: loop assigning {names}")
        v = carried[0]
        it = st.iter
        if isinstance(it, ast.Call) and _src(it.func) == "range" and len(it.args) == 1 and not it.keywords:
            seq, ety = f"(pyRange {ex.int(it.args[0])})", Ty.INT
        else:
            t, ty = ex.any(it)
            if ty != Ty.LNAT:
                raise Untranslatable(f"{self.meth}: loop over `{_src(it)}`")
            seq, ety = t, Ty.NAT
        self.comment(ind, st, only_head=True)
        self.emit(ind, f"let {v} ← forIn {seq} {v} (fun ({st.target.id} : {ety}) {v} => do")
        saved = dict(self.env)
        self.env[st.target.id] = (st.target.id, ety)
        depth = ind + 1
        for b in st.body:
            if self.is_control(b):
                self.comment(depth, b)
                step = "ForInStep.done" if isinstance(b.body[0], ast.Break) else "ForInStep.yield"
                self.emit(depth, f"if {self.ex().cond(b.test)} then pure ({step} {v}) else do")
                depth += 1
            else:
                self.stmts(depth, [b])
        self.emit(depth, f"pure (ForInStep.yield {v}))")
        self.env = saved

    def stmt(self, ind, st):
        ex = self.ex()
        # (round 6) early return: `if <cond>: return <array>`; the rest of the function is the else branch
        if isinstance(st, ast.If) and not st.orelse and len(st.body) == 1 and isinstance(st.body[0], ast.Return) and st.body[0].value is not None:
            self.comment(ind, st)
            self.emit(ind, f"if {ex.cond(st.test)} then")
            self.emit(ind + 1, f"return {ex.typed(st.body[0].value, Ty.LK)}")
            return
        if isinstance(st, ast.If) and _src(st.test) == "select is None":
            return self.select_norm(ind, st)
        if isinstance(st, ast.If) and _src(st.test) == "pt_ind is None":
            return self.ptind_norm(ind, st)
        if self.is_raise(st, "ValueError"):
            self.comment(ind, st, only_head=True)
            self.emit(ind, f"if {ex.cond(st.test)} then")
            self.emit(ind + 1, "throw Err.valueError")
            return
        if isinstance(st, ast.Assign) and len(st.targets) == 1 and isinstance(st.targets[0], ast.Name):
            t, ty = ex.any(st.value)
            name = st.targets[0].id
            self.comment(ind, st)
            lty = {Ty.PTS: "List (V3 K)", Ty.TAB: "CellTab K"}.get(ty, ty)
            self.emit(ind, f"let {name} : {lty} := {t}")
            self.env[name] = (name, ty)
            return
        if isinstance(st, ast.AugAssign) and isinstance(st.op, ast.Add):
            tg = st.target
            if isinstance(tg, ast.Name) and self.env.get(tg.id, (None, None))[1] == Ty.LK:
                self.comment(ind, st)
                self.emit(ind, f"let {tg.id} ← npAddInto {tg.id} {ex.typed(st.value, Ty.LK)}")
                return
            if (isinstance(tg, ast.Subscript) and isinstance(tg.value, ast.Name) and self.env.get(tg.value.id, (None, None))[1] == Ty.LK
                    and isinstance(tg.slice, ast.Slice) and tg.slice.step is None and tg.slice.lower is not None and tg.slice.upper is not None):
                w = tg.value.id
                self.comment(ind, st)
                # Python evaluates the target's slice bounds before the right-hand side
                self.emit(ind, f"let {w} ← npSliceAddInto {w} {ex.int(tg.slice.lower)} {ex.int(tg.slice.upper)} {ex.typed(st.value, Ty.LK)}")
                return
        if isinstance(st, ast.If) and st.orelse:
            names = self.assigned(st.body + st.orelse)
            carried = [n for n in names if n in self.env]
            if len(carried) != 1:
                raise Untranslatable(f"{self.meth}: if/else assigning {names}")
            v = carried[0]
            self.comment(ind, st, only_head=True)
            self.emit(ind, f"let {v} ← (if {ex.cond(st.test)} then do")
            saved = dict(self.env)
            self.stmts(ind + 2, st.body)
            self.emit(ind + 2, f"pure {v}")
            self.env = dict(saved)
            self.emit(ind + 1, "else do")
            self.stmts(ind + 2, st.orelse)
            self.emit(ind + 2, f"pure {v})")
            self.env = saved
            return
        if isinstance(st, ast.For) and not st.orelse and isinstance(st.target, ast.Name) and self.has_loop_control(st.body):
            return self.for_with_control(ind, st)
        if isinstance(st, ast.For) and not st.orelse and isinstance(st.target, ast.Name):
            it = st.iter
            names = self.assigned(st.body)
            carried = [n for n in names if n in self.env]
            if len(carried) != 1:
                raise Untranslatable(f"{self.meth}: loop assigning {names}")
            v = carried[0]
            if isinstance(it, ast.Call) and _src(it.func) == "range" and len(it.args) == 1 and not it.keywords:
                seq, ety = f"(pyRange {ex.int(it.args[0])})", Ty.INT
            else:
                t, ty = ex.any(it)
                if ty != Ty.LNAT:
                    raise Untranslatable(f"{self.meth}: loop over `{_src(it)}`")
                seq, ety = t, Ty.NAT
            self.comment(ind, st, only_head=True)
            self.emit(ind, f"let {v} ← {seq}.foldlM (fun {v} ({st.target.id} : {ety}) => do")
            saved = dict(self.env)
            self.env[st.target.id] = (st.target.id, ety)
            self.stmts(ind + 1, st.body)
            self.emit(ind + 1, f"pure {v}) {v}")
            self.env = saved
            return
        if isinstance(st, ast.Return):
            self.comment(ind, st)
            self.emit(ind, f"return {ex.typed(st.value, Ty.LK)}")
            return
        raise Untranslatable(f"{self.meth}: statement `{_src(st)[:160]}`")


def _radius(cls, meth, expr, name):
    """radii = np.array([<E> for num in atnums]),  E = X if not np.isnan(X) else np.nan_to_num(Y) or np.nan_to_num(Z)"""
    ok = (
        isinstance(expr, ast.Call) and _src(expr.func) == "np.array" and len(expr.args) == 1 and not expr.keywords
        and isinstance(expr.args[0], ast.ListComp) and len(expr.args[0].generators) == 1
    )
    if not ok:
        raise Untranslatable(f"{meth}: radii = `{_src(expr)[:80]}`")
    g = expr.args[0].generators[0]
    if g.ifs or _src(g.target) != "num" or _src(g.iter) != "atnums":
        raise Untranslatable(f"{meth}: radii comprehension `{_src(g.target)} in {_src(g.iter)}`")
    e = expr.args[0].elt

    def item(x):
        """self._radii[<int expr in num>] -> monadic lookup"""
        if not (isinstance(x, ast.Subscript) and _src(x.value) == "self._radii"):
            raise Untranslatable(f"{meth}: `{_src(x)}` is not a lookup in self._radii")
        return f"(← pyDictGetItem self_radii {Ex({'num': ('num', Ty.INT)}, meth, cls).int(x.slice)})"

    def nan_to_num(x):
        if not (isinstance(x, ast.Call) and _src(x.func) == "np.nan_to_num" and len(x.args) == 1 and not x.keywords):
            raise Untranslatable(f"{meth}: `{_src(x)}` is not np.nan_to_num(…)")
        return f"npNanToNum {item(x.args[0])}"

    ok = (
        isinstance(e, ast.IfExp) and isinstance(e.test, ast.UnaryOp) and isinstance(e.test.op, ast.Not)
        and isinstance(e.test.operand, ast.Call) and _src(e.test.operand.func) == "np.isnan" and len(e.test.operand.args) == 1
        and _src(e.test.operand.args[0]) == _src(e.body)
        and isinstance(e.orelse, ast.BoolOp) and isinstance(e.orelse.op, ast.Or) and len(e.orelse.values) == 2
    )
    if not ok:
        raise Untranslatable(f"{meth}: radius expression `{_src(e)}`")
    L = [f"/-- `{meth}`: the radius of one atom, `{_src(e)}`\n(`X if not np.isnan(X) else …` is the `match`: `some v` = not nan). -/"]
    L.append(f"def {name} (self_radii : PyDict (Option K)) (num : Int) : Except Err K := do")
    L.append(f"  match {item(e.body)} with")
    L.append("  | some v => pure v")
    L.append(f"  | none => pyOr ({nan_to_num(e.orelse.values[0])}) (do pure ({nan_to_num(e.orelse.values[1])}))")
    return "\n".join(L) + "\n"


def _init(cls):
    fn = _method(cls, "__init__")
    if [a.arg for a in fn.args.args] != ["self", "radii", "order"]:
        raise Untranslatable("__init__ signature")
    d = _defaults(fn)
    if not (isinstance(d["radii"], ast.Constant) and d["radii"].value is None):
        raise Untranslatable("__init__: default of radii")
    if not (isinstance(d["order"], ast.Constant) and isinstance(d["order"].value, int) and not isinstance(d["order"].value, bool)):
        raise Untranslatable("__init__: default of order")
    b = _body(fn)
    L = []

    def c(ind, st, head=False):
        s = _src(st).split("\n")[0] if head else _src(st)
        for ln in s.split("\n"):
            L.append("  " * ind + "-- " + ln)

    if len(b) != 5:
        raise Untranslatable(f"__init__: {len(b)} statements (expected the order guard, self._order, data, self._radii, the radii block)")
    g, so, da, sr, blk = b
    ok = (isinstance(g, ast.If) and not g.orelse and _src(g.test) == "not isinstance(order, int)" and len(g.body) == 1
          and isinstance(g.body[0], ast.Raise) and _src(g.body[0].exc.func) in ("ValueError", "TypeError"))
    if not ok:
        raise Untranslatable(f"__init__: `{_src(g)[:80]}`")
    exc = {"ValueError": "valueError", "TypeError": "typeError"}
    c(1, g, True)
    L.append("  if !(order.isInt) then")
    L.append(f"    throw Err.{exc[_src(g.body[0].exc.func)]}")
    if _src(so) != "self._order = order":
        raise Untranslatable(f"__init__: `{_src(so)}`")
    c(1, so)
    L.append("  let self_order ← order.asInt")
    # data = get_cov_radii(np.arange(1, 87, 1), "bragg")
    v = da.value if isinstance(da, ast.Assign) and _src(da.targets[0]) == "data" else None
    ok = (isinstance(v, ast.Call) and _src(v.func) == "get_cov_radii" and len(v.args) == 2 and not v.keywords
          and isinstance(v.args[1], ast.Constant) and v.args[1].value == "bragg"
          and isinstance(v.args[0], ast.Call) and _src(v.args[0].func) == "np.arange" and len(v.args[0].args) == 3 and not v.args[0].keywords
          and all(isinstance(a, ast.Constant) and isinstance(a.value, int) and not isinstance(a.value, bool) for a in v.args[0].args))
    if not ok:
        raise Untranslatable(f"__init__: `{_src(da)}`")
    c(1, da)
    a0, a1, a2 = (a.value for a in v.args[0].args)
    L.append(f"  let data ← getCovRadii bragg (npArange3 {a0} {a1} {a2})")
    # self._radii = dict([(i + 1, radius) for i, radius in enumerate(data)])
    v = sr.value if isinstance(sr, ast.Assign) and _src(sr.targets[0]) == "self._radii" else None
    ok = (isinstance(v, ast.Call) and _src(v.func) == "dict" and len(v.args) == 1 and not v.keywords and isinstance(v.args[0], ast.ListComp)
          and len(v.args[0].generators) == 1 and not v.args[0].generators[0].ifs and _src(v.args[0].generators[0].iter) == "enumerate(data)"
          and isinstance(v.args[0].generators[0].target, ast.Tuple) and len(v.args[0].generators[0].target.elts) == 2
          and isinstance(v.args[0].elt, ast.Tuple) and len(v.args[0].elt.elts) == 2)
    if not ok:
        raise Untranslatable(f"__init__: `{_src(sr)}`")
    iv, rv = (_src(x) for x in v.args[0].generators[0].target.elts)
    key = Ex({iv: (iv, Ty.INT)}, "__init__", cls).int(v.args[0].elt.elts[0])
    if _src(v.args[0].elt.elts[1]) != rv:
        raise Untranslatable(f"__init__: dictionary value `{_src(v.args[0].elt.elts[1])}`")
    c(1, sr)
    L.append(f"  let self_radii := pyDictOfPairs ((pyEnumerate data).map fun ({iv}, {rv}) => ({key}, {rv}))")
    # if radii is not None: guards, update
    ok = isinstance(blk, ast.If) and not blk.orelse and _src(blk.test) == "radii is not None" and len(blk.body) == 3
    if not ok:
        raise Untranslatable(f"__init__: `{_src(blk)[:60]}`")
    c(1, blk, True)
    L.append("  match radii with")
    L.append("  | none => return ⟨self_order, self_radii⟩")
    L.append("  | some radii =>")
    g1, g2, up = blk.body
    for gg, test, lean in ((g1, "not isinstance(radii, dict)", "!(radii.isDict)"),
                           (g2, "not np.all([isinstance(k, int) for k in radii.keys()])", "!((← radii.keys).all fun k => k.isInt)")):
        ok = (isinstance(gg, ast.If) and not gg.orelse and _src(gg.test) == test and len(gg.body) == 1 and isinstance(gg.body[0], ast.Raise)
              and _src(gg.body[0].exc.func) in exc)
        if not ok:
            raise Untranslatable(f"__init__: `{_src(gg)[:80]}`")
        c(2, gg, True)
        L.append(f"    if {lean} then")
        L.append(f"      throw Err.{exc[_src(gg.body[0].exc.func)]}")
    if _src(up) != "self._radii.update(radii)":
        raise Untranslatable(f"__init__: `{_src(up)}`")
    c(2, up)
    L.append("    let self_radii ← pyDictUpdate self_radii radii")
    L.append("    return ⟨self_order, self_radii⟩")
    head = ["/-- `BeckeWeights.__init__(self, radii=None, order=" + str(d["order"].value) + ")`; `bragg` = `grid.utils._bragg`",
            "(the table `get_cov_radii` indexes; generic in the type `V` of a radius so that table facts are decidable). -/",
            "def init {V : Type} (bragg : List V) (radii : Option (RadiiArg V)) (order : OrderArg) : Except Err (BW V) := do"]
    dflt = [f"/-- the default of `order` in `__init__`. -/\ndef initDefaultOrder : Int :=\n  {d['order'].value}\n"]
    return "\n".join(dflt + head + L) + "\n"


def _bragg_table():
    """`grid.utils._bragg` as it is (the array `get_cov_radii(…, "bragg")` indexes): nan -> none, a float -> the exact
    rational of its shortest decimal text."""
    import importlib

    import numpy as np

    arr = importlib.import_module("grid.utils")._bragg
    if arr.ndim != 1:
        raise Untranslatable("grid.utils._bragg is not one-dimensional")
    items = []
    for v in arr:
        v = float(v)
        if np.isnan(v):
            items.append("none")
        else:
            if v < 0:
                raise Untranslatable("negative entry in grid.utils._bragg")
            fr = _float_literal(v)
            items.append(f"some ({fr.numerator}, {fr.denominator})")
    lines, cur = [], "  "
    for it in items:
        if len(cur) + len(it) > 96:
            lines.append(cur.rstrip())
            cur = "  "
        cur += it + ", "
    lines.append(cur.rstrip().rstrip(","))
    return ("/-- `grid.utils._bragg` (index = atomic number, entry 0 unused): `none` = nan, `some (p, q)` = p/q. -/\n"
            "def utilsBragg : List (Option (Nat × Nat)) := [\n" + "\n".join(lines) + "]\n")


SIG = "(self : BW (Option K)) (points : List (V3 K)) (atcoords : List (V3 K)) (atnums : List Int)"
BASE_ENV = {"points": ("points", Ty.PTS), "atcoords": ("atcoords", Ty.COORDS), "atnums": ("atnums", Ty.ATNUMS)}


def _check_sig(fn, args, kwonly):
    if [a.arg for a in fn.args.args] != args or [a.arg for a in fn.args.kwonlyargs] != kwonly or fn.args.vararg or fn.args.kwarg:
        raise Untranslatable(f"{fn.name}: signature")


def lean_text():
    tree = ast.parse((SRC / "becke.py").read_text())
    cls = next((n for n in tree.body if isinstance(n, ast.ClassDef) and n.name == "BeckeWeights"), None)
    if cls is None:
        raise Untranslatable("class BeckeWeights not found")
    P = [HEADER.format(name="becke_routes", source="src/grid/becke.py (BeckeWeights.__init__, generate_weights, compute_atom_weight, compute_weights, __call__)")]
    P.append("import GridVerif.Model.BeckePy\n")
    P.append("set_option linter.unusedVariables false\n")
    P.append("namespace GridVerif.Gen.BeckeRoutes")
    P.append("open GridVerif.Becke GridVerif.BeckePy GridVerif.Gen.Becke\n")
    P.append(_init(cls))
    P.append(_bragg_table())
    P.append("section")
    P.append("variable {K : Type} [Add K] [Sub K] [Mul K] [Div K] [Neg K] [NatCast K] [Elem K] [LT K] [DecidableLT K]\n")

    # generate_weights
    fn = _method(cls, "generate_weights")
    _check_sig(fn, ["self", "points", "atcoords", "atnums"], ["select", "pt_ind"])
    if not all(isinstance(d, ast.Constant) and d.value is None for d in fn.args.kw_defaults):
        raise Untranslatable("generate_weights: defaults of select / pt_ind")
    bg = Block(cls, "generate_weights", dict(BASE_ENV, select=("select", Ty.SEL), pt_ind=("pt_ind", Ty.OPTLINT)), route="routeGW")
    bg.radius_fn = "radiusGW"
    bg.stmts(1, _body(fn))
    P.append(_radius(cls, "generate_weights", bg.radii_expr, "radiusGW"))
    P.append("/-- `BeckeWeights.generate_weights(self, points, atcoords, atnums, *, select=None, pt_ind=None)`. -/")
    P.append(f"def generate_weights {SIG}\n    (select : SelectArg) (pt_ind : Option (List Int)) : Except Err (List K) := do")
    P += bg.lines
    P.append("")

    # compute_atom_weight
    fn = _method(cls, "compute_atom_weight")
    _check_sig(fn, ["self", "points", "atcoords", "atnums", "select", "cutoff"], [])
    bc = Block(cls, "compute_atom_weight", dict(BASE_ENV, select=("select", Ty.NAT)), route="(routeCAW cutoff)")
    bc.radius_fn = "radiusCAW"
    bc.stmts(1, _body(fn))
    P.append(_radius(cls, "compute_atom_weight", bc.radii_expr, "radiusCAW"))
    P.append("/-- `BeckeWeights.compute_atom_weight(self, points, atcoords, atnums, select, cutoff)`. -/")
    P.append(f"def compute_atom_weight {SIG}\n    (select : Nat) (cutoff : K) : Except Err (List K) := do")
    P += bc.lines
    P.append("")

    # compute_weights
    fn = _method(cls, "compute_weights")
    _check_sig(fn, ["self", "points", "atcoords", "atnums"], ["select", "pt_ind"])
    if not all(isinstance(d, ast.Constant) and d.value is None for d in fn.args.kw_defaults):
        raise Untranslatable("compute_weights: defaults of select / pt_ind")
    bw = Block(cls, "compute_weights", dict(BASE_ENV, select=("select", Ty.SEL), pt_ind=("pt_ind", Ty.OPTLINT)))
    bw.stmts(1, _body(fn))
    P.append("/-- `BeckeWeights.compute_weights(self, points, atcoords, atnums, *, select=None, pt_ind=None)`. -/")
    P.append(f"def compute_weights {SIG}\n    (select : SelectArg) (pt_ind : Option (List Int)) : Except Err (List K) := do")
    P += bw.lines
    P.append("")

    # __call__
    fn = _method(cls, "__call__")
    _check_sig(fn, ["self", "points", "atcoords", "atnums", "indices"], [])
    b = _body(fn)
    if len(b) != 4:
        raise Untranslatable("__call__: expected npoints, chunk_size, aim_weights, return")
    bk = Block(cls, "__call__", dict(BASE_ENV, indices=("indices", Ty.LINT)))
    bk.stmt(1, b[0])
    bk.stmt(1, b[1])
    v = b[2].value if isinstance(b[2], ast.Assign) and _src(b[2].targets[0]) == "aim_weights" else None
    ok = (isinstance(v, ast.Call) and _src(v.func) == "np.concatenate" and len(v.args) == 1 and not v.keywords
          and isinstance(v.args[0], ast.ListComp) and len(v.args[0].generators) == 1 and not v.args[0].generators[0].ifs
          and isinstance(v.args[0].generators[0].target, ast.Name))
    if not ok:
        raise Untranslatable("__call__: aim_weights is not np.concatenate([… for ibegin in range(…)])")
    g = v.args[0].generators[0]
    r = g.iter
    if not (isinstance(r, ast.Call) and _src(r.func) == "range" and len(r.args) == 3 and not r.keywords):
        raise Untranslatable("__call__: chunk loop is not range(start, stop, step)")
    ex = bk.ex()
    rng = " ".join(ex.int(a) for a in r.args)
    env2 = dict(bk.env)
    env2[g.target.id] = (g.target.id, Ty.INT)
    elt = Ex(env2, "__call__", cls).typed(v.args[0].elt, Ty.LK)
    bk.comment(1, b[2])
    bk.emit(1, f"let aim_weights ← npConcatenate (← (← pyRange3 {rng}).mapM fun ({g.target.id} : Int) => do")
    bk.emit(3, f"pure {elt})")
    bk.env["aim_weights"] = ("aim_weights", Ty.LK)
    bk.stmt(1, b[3])
    P.append("/-- `BeckeWeights.__call__(self, points, atcoords, atnums, indices)`. -/")
    P.append(f"def call {SIG}\n    (indices : List Int) : Except Err (List K) := do")
    P += bk.lines
    P.append("\nend\nend GridVerif.Gen.BeckeRoutes\n")
    text = "\n".join(P)
    if "npAnyPoints" in text:        # (round 6) a guard primitive the pinned source does not need
        text = text.replace("import GridVerif.Model.BeckePy\n", "import GridVerif.Model.BeckePy\nimport GridVerif.Model.BeckeGuards\n", 1)
    return text


def generate():
    return write_if_changed("BeckeRoutes.lean", lean_text())

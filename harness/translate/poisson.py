"""Translator: grid/poisson.py + grid/robust_poisson.py -> Gen/Poisson.lean

What the Poisson solvers *pose* to the ODE layer is carried over from the AST, fragment by
fragment (nothing is executed):

    _solve_poisson_bvp_atomgrid
        boundary = atomgrid.integrate(func_vals) / sph_o_l[0, 0]      -> bvpBoundary integral y00
        include_origin / np.all(points > 0.0) / np.hstack(([0.0], …))  -> originAbsent, originValue
        np.where(rad_points > remove_large_pts) / np.delete            -> isLarge
        ode_params.setdefault(...)                                     -> bvpTol, bvpMaxNodes, bvpNoDerivatives
        for l_deg in range(0, atomgrid.l_max // 2 + 1)                 -> lStart, lStop
        for m_ord in [x for x in range(..)] + [-x for x in range(..)]  -> mOrders
        f_x, coeff_0 (incl. the r == 0 branch), coeffs = [...]         -> bvpRhs, bvpCoeff0, bvpCoeffs
        bd_cond = [...] in `if l_deg == 0 and m_ord == 0`              -> bvpBdCond
        solve_ode_bvp(<args>)                                          -> bvpCall (argument names, in order)
        interpolate: spline(r_pts) / r_pts, r_values[:, |r| < c] = v   -> bvpValue ; einsum string -> bvpEinsum
    _solve_poisson_ivp_atomgrid
        the r_interval guard, r_max, boundary, setdefaults, f_x, coeff_0, coeff_1, coeffs,
        ivp = [...] / [0.0, 0.0], solve_ode_ivp(<args>), interpolate   -> ivp*
    _interpolate_molgrid_helper
        func_vals * molgrid.aim_weights, indices[i] : indices[i + 1], the sum of the atomic
        interpolants                                                   -> molWeighted, molSliceStart/End, molSum
    interpolate_laplacian
        the store guard, func_vals * molgrid.aim_weights, indices[i] : indices[i + 1]    -> lapRequiresStore, lapWeighted, lapSliceStart/End
        cutoff defaults, `if np.any(r_pts < cutoff): r_pts[r_pts < cutoff] = cutoff`     -> lapCutoffDefault, lapCutOffDefault, lapClamp
        spline(r_pts[, k]) lists, the three einsum contractions and their updates         -> lapFirst/Second/Third{Order,Weighted,Einsum}, lapFirst/Second/Third
        degrees = np.hstack([[x*(x+1)]*(2*x+1) for x in np.arange(0, l_max//2+1)])        -> lapDegrees
        return first + second - third, output += interpolate(points, cut_off)             -> lapReturn, lapSumStep
        closure binding of the stored lambda (free loop-assigned names are late-bound)     -> lapSliceOwner, lapGridOwner
    robust_poisson._build_core_density, solve_poisson_robust
        prefactor / rho += …, residual -= core, v_core += coulomb_potential(…normalized=True),
        return v_core + v_bonding + v_residual, the solve_poisson_bvp call
                                                                       -> coreTerm, robustResidual, robustCoreAccum,
                                                                          robustTotal, robustCall

Scalar reading: the array code is elementwise in the radius, so each definition is the
function of one radius.  Numbers are exact decimals of the source text, emitted as quotients
of `((n : Nat) : K)`; `**` with an integer literal is `npow`, otherwise `Elem.rpow`;
`a == b` is emitted as `a ≤ b ∧ b ≤ a` (same truth value on the reals and on IEEE doubles).
Anything outside the expected shapes raises `Unsupported` (a broken proof obligation).
"""
from __future__ import annotations

import ast
from decimal import Decimal
from fractions import Fraction

from ..common import SRC
from .util import HEADER, write_if_changed


class Unsupported(ValueError):
    pass


def _nat(n: int) -> str:
    return f"(({n} : Nat) : K)"


def _lit(text, value) -> str:
    if isinstance(value, bool) or not isinstance(value, (int, float)):
        raise Unsupported(f"constant {value!r}")
    try:
        q = Fraction(Decimal(text)) if text is not None else Fraction(Decimal(repr(value)))
    except Exception:
        q = Fraction(Decimal(repr(value)))
    if q < 0:
        raise Unsupported(f"negative literal {text!r}")
    if q.denominator == 1:
        return _nat(q.numerator)
    return f"({_nat(q.numerator)} / {_nat(q.denominator)})"


def _np_call(f) -> str | None:
    if isinstance(f, ast.Attribute) and isinstance(f.value, ast.Name) and f.value.id == "np":
        return f.attr
    return None


ELEM = {"exp": "Elem.exp", "sqrt": "Elem.sqrt", "abs": "Elem.abs"}


class Ex:
    """Scalar expression translation. `names`: python name -> Lean text; `atom`: callback for
    sub-expressions that stand for an input of the definition (returns Lean text or None)."""

    def __init__(self, src, names, atom=None):
        self.src = src
        self.names = dict(names)
        self.atom = atom or (lambda n: None)

    def e(self, n) -> str:
        a = self.atom(n)
        if a is not None:
            return a
        if isinstance(n, ast.Constant):
            return _lit(ast.get_source_segment(self.src, n), n.value)
        if isinstance(n, ast.Name):
            if n.id in self.names:
                return self.names[n.id]
            raise Unsupported(f"unknown name {n.id}")
        if isinstance(n, ast.Attribute):
            if _np_call(n) == "pi":
                return "Elem.pi"
            raise Unsupported(ast.dump(n))
        if isinstance(n, ast.UnaryOp) and isinstance(n.op, ast.USub):
            return f"(-{self.e(n.operand)})"
        if isinstance(n, ast.BinOp):
            if isinstance(n.op, ast.Pow):
                ex = n.right
                if isinstance(ex, ast.Constant) and isinstance(ex.value, int) and not isinstance(ex.value, bool) and ex.value >= 0:
                    return f"(npow {self.e(n.left)} {ex.value})"
                return f"(Elem.rpow {self.e(n.left)} {self.e(ex)})"
            ops = {ast.Add: "+", ast.Sub: "-", ast.Mult: "*", ast.Div: "/"}
            if type(n.op) not in ops:
                raise Unsupported(ast.dump(n.op))
            return f"({self.e(n.left)} {ops[type(n.op)]} {self.e(n.right)})"
        if isinstance(n, ast.Call):
            f = _np_call(n.func)
            if f in ELEM and len(n.args) == 1 and not n.keywords:
                return f"({ELEM[f]} {self.e(n.args[0])})"
            raise Unsupported("call " + ast.dump(n.func))
        raise Unsupported(ast.dump(n)[:200])

    def cond(self, n) -> str:
        if isinstance(n, ast.Call) and _np_call(n.func) in ("all", "any") and len(n.args) == 1:
            return self.cond(n.args[0])  # one element at a time
        if isinstance(n, ast.BoolOp) and isinstance(n.op, ast.And):
            return " ∧ ".join(f"({self.cond(v)})" for v in n.values)
        if isinstance(n, ast.Compare) and len(n.ops) == 1:
            a, b = self.e(n.left), self.e(n.comparators[0])
            op = type(n.ops[0])
            if op is ast.Lt:
                return f"{a} < {b}"
            if op is ast.LtE:
                return f"{a} ≤ {b}"
            if op is ast.Gt:
                return f"{b} < {a}"
            if op is ast.GtE:
                return f"{b} ≤ {a}"
            if op is ast.Eq:
                return f"{a} ≤ {b} ∧ {b} ≤ {a}"
        raise Unsupported("condition " + ast.dump(n)[:200])


# ----------------------------------------------------------------------------------------------
# AST helpers
# ----------------------------------------------------------------------------------------------
def _fn(tree, name):
    for st in tree.body:
        if isinstance(st, ast.FunctionDef) and st.name == name:
            return st
    raise Unsupported(f"function {name} not found")


def _nested_fn(fn, name):
    found = [n for n in ast.walk(fn) if isinstance(n, ast.FunctionDef) and n.name == name and n is not fn]
    if len(found) != 1:
        raise Unsupported(f"{fn.name}: expected exactly one nested def {name}, found {len(found)}")
    return found[0]


def _strip_doc(stmts):
    return [s for s in stmts if not (isinstance(s, ast.Expr) and isinstance(s.value, ast.Constant) and isinstance(s.value.value, str))]


def _assigns(fn, name, include_nested=False):
    """Assignments `name = …` in fn (not inside nested defs unless asked), in source order."""
    out = []

    def walk(stmts):
        for st in stmts:
            if isinstance(st, ast.FunctionDef):
                if include_nested:
                    walk(st.body)
                continue
            if isinstance(st, ast.Assign) and len(st.targets) == 1 and isinstance(st.targets[0], ast.Name) and st.targets[0].id == name:
                out.append(st)
            for fld in ("body", "orelse", "finalbody"):
                sub = getattr(st, fld, None)
                if isinstance(sub, list):
                    walk(sub)

    walk(fn.body)
    return out


def _one_assign(fn, name, **kw):
    a = _assigns(fn, name, **kw)
    if len(a) != 1:
        raise Unsupported(f"{fn.name}: expected one assignment to {name}, found {len(a)}")
    return a[0]


def _is_name(n, ident):
    return isinstance(n, ast.Name) and n.id == ident


def _calls(fn, fname):
    out = []
    for n in ast.walk(fn):
        if isinstance(n, ast.Call) and (_is_name(n.func, fname) or (isinstance(n.func, ast.Attribute) and n.func.attr == fname)):
            out.append(n)
    return out


def _call_args(c, src) -> list[str]:
    out = [ast.get_source_segment(src, a) for a in c.args]
    for k in c.keywords:
        out.append(("**" + ast.get_source_segment(src, k.value)) if k.arg is None else f"{k.arg}={ast.get_source_segment(src, k.value)}")
    return out


def _strs(xs) -> str:
    import json

    return "[" + ", ".join(json.dumps(x) for x in xs) + "]"


def _setdefaults(fn, src):
    d = {}
    for c in _calls(fn, "setdefault"):
        if len(c.args) == 2 and isinstance(c.args[0], ast.Constant) and isinstance(c.args[0].value, str):
            d[c.args[0].value] = c.args[1]
    return d


# ----------------------------------------------------------------------------------------------
# round 3: strict statement-by-statement walk of the three solver functions and the public wrappers
# ----------------------------------------------------------------------------------------------
def _u(n) -> str:
    """one-line normal form of a node."""
    return " ".join(ast.unparse(n).split()).replace("-/", "- /")


def _pairs(xs) -> str:
    import json

    return "[" + ", ".join(f"({json.dumps(a)}, {json.dumps(b)})" for a, b in xs) + "]"


class _Seq:
    """Strict cursor over the statements of a body: every statement must be claimed, in order."""

    def __init__(self, stmts, where):
        self.stmts = _strip_doc(stmts)
        self.k = 0
        self.where = where

    def next(self, kind=None, text=None, prefix=None):
        if self.k >= len(self.stmts):
            raise Unsupported(f"{self.where}: a statement is missing (after #{self.k})")
        st = self.stmts[self.k]
        self.k += 1
        if kind is not None and not isinstance(st, kind):
            raise Unsupported(f"{self.where}: statement #{self.k} is not {kind.__name__}: {_u(st)[:120]}")
        if text is not None and _u(st) != text:
            raise Unsupported(f"{self.where}: statement #{self.k}: expected `{text}`, found `{_u(st)[:160]}`")
        if prefix is not None and not _u(st).startswith(prefix):
            raise Unsupported(f"{self.where}: statement #{self.k}: expected `{prefix}…`, found `{_u(st)[:160]}`")
        return st

    def done(self):
        if self.k != len(self.stmts):
            raise Unsupported(f"{self.where}: unexpected statement `{_u(self.stmts[self.k])[:160]}`")


def _type_guard(st, where):
    """`if not isinstance(x, <classes>): raise TypeError(...)` -> (x, [class texts])"""
    ok = (isinstance(st, ast.If) and not st.orelse and len(st.body) == 1 and isinstance(st.body[0], ast.Raise) and isinstance(st.body[0].exc, ast.Call)
          and _is_name(st.body[0].exc.func, "TypeError") and isinstance(st.test, ast.UnaryOp) and isinstance(st.test.op, ast.Not)
          and isinstance(st.test.operand, ast.Call) and _is_name(st.test.operand.func, "isinstance") and len(st.test.operand.args) == 2
          and isinstance(st.test.operand.args[0], ast.Name))
    if not ok:
        raise Unsupported(f"{where}: expected `if not isinstance(x, …): raise TypeError`: {_u(st)[:120]}")
    c = st.test.operand.args[1]
    classes = [_u(e) for e in c.elts] if isinstance(c, ast.Tuple) else [_u(c)]
    return st.test.operand.args[0].id, classes


def _wrap_atomgrid(st, src, prefix, P):
    """`if isinstance(molgrid, AtomGrid): molgrid = MolGrid(atnums=…, atgrids=[molgrid], aim_weights=np.array([w] * molgrid.size), store=…)`"""
    ok = isinstance(st, ast.If) and not st.orelse and len(st.body) == 1 and _u(st.test) == "isinstance(molgrid, AtomGrid)"
    wa = st.body[0] if ok else None
    if not (ok and isinstance(wa, ast.Assign) and _is_name(wa.targets[0], "molgrid") and isinstance(wa.value, ast.Call) and _is_name(wa.value.func, "MolGrid") and not wa.value.args):
        raise Unsupported(f"{prefix}: AtomGrid wrap")
    kw = {k.arg: k.value for k in wa.value.keywords}
    if set(kw) != {"atnums", "atgrids", "aim_weights", "store"} or _u(kw["atgrids"]) != "[molgrid]":
        raise Unsupported(f"{prefix}: MolGrid(...) keywords of the AtomGrid wrap")
    w = kw["aim_weights"]
    # np.array([w] * molgrid.size)
    ok = (isinstance(w, ast.Call) and _np_call(w.func) == "array" and len(w.args) == 1 and not w.keywords and isinstance(w.args[0], ast.BinOp)
          and isinstance(w.args[0].op, ast.Mult) and isinstance(w.args[0].left, ast.List) and len(w.args[0].left.elts) == 1
          and _u(w.args[0].right) == "molgrid.size")
    a = kw["atnums"]
    ok = ok and isinstance(a, ast.Call) and _np_call(a.func) == "array" and len(a.args) == 1 and isinstance(a.args[0], ast.List) and len(a.args[0].elts) == 1
    ok = ok and isinstance(kw["store"], ast.Constant) and isinstance(kw["store"].value, bool)
    if not ok:
        raise Unsupported(f"{prefix}: shape of the AtomGrid wrap: {_u(wa)[:200]}")
    ex = Ex(src, {})
    P.append(f"/-- `{_u(st)}`: an `AtomGrid` argument is solved as a one-atom molecule whose atom-in-molecule weight is")
    P.append(f"`{prefix}WrapWeight` at every one of the `molgrid.size` points (list repetition `[w] * size`), atomic number `{prefix}WrapAtnum`, `store={_u(kw['store'])}`. -/")
    P.append(f"def {prefix}WrapWeight : K := {ex.e(w.args[0].left.elts[0])}")
    P.append(f"def {prefix}WrapAtnum : K := {ex.e(a.args[0].elts[0])}")
    P.append(f"def {prefix}WrapStore : Bool := {'true' if kw['store'].value else 'false'}\n")


def _public(tree, src, name, callee_name, lean) -> list[str]:
    """solve_poisson_ivp / solve_poisson_bvp: defaults and how every option reaches the per-atom solver."""
    fn, callee = _fn(tree, name), _fn(tree, callee_name)
    P: list[str] = []
    args = [a.arg for a in fn.args.args]
    cargs = [a.arg for a in callee.args.args]
    if args[:3] != ["molgrid", "func_vals", "transform"] or cargs[:3] != ["atomgrid", "func_vals", "transform"] or args[3:] != cargs[3:]:
        raise Unsupported(f"{name}: parameters {args} vs {cargs}")
    dfl = list(zip(args[-len(fn.args.defaults):], fn.args.defaults))
    cdfl = dict(zip(cargs[-len(callee.args.defaults):], callee.args.defaults))
    body = _Seq(fn.body, name)
    r = body.next(ast.Return)
    body.done()
    c = r.value
    if not (isinstance(c, ast.Call) and _is_name(c.func, "_interpolate_molgrid_helper") and len(c.args) == 3 and not c.keywords
            and _is_name(c.args[0], "molgrid") and _is_name(c.args[1], "func_vals") and isinstance(c.args[2], ast.Lambda)):
        raise Unsupported(f"{name}: return _interpolate_molgrid_helper(molgrid, func_vals, lambda …)")
    lam = c.args[2]
    if [a.arg for a in lam.args.args] != ["atom_grid", "func_vals"] or lam.args.defaults:
        raise Unsupported(f"{name}: lambda parameters")
    ic = lam.body
    if not (isinstance(ic, ast.Call) and _is_name(ic.func, callee_name)) or len(ic.args) > len(cargs):
        raise Unsupported(f"{name}: the lambda does not call {callee_name}")
    bound = {}
    for p_, a in zip(cargs, ic.args):
        bound[p_] = _u(a)
    for k in ic.keywords:
        if k.arg is None or k.arg in bound or k.arg not in cargs:
            raise Unsupported(f"{name}: keyword of the inner call")
        bound[k.arg] = _u(k.value)
    P.append(f"/-- `{name}`: defaults of the public function, in order, and the per-atom call `{_u(ic)}`")
    P.append(f"resolved against the signature of `{callee_name}`: (parameter, what it receives). -/")
    for nm, d in dfl:
        if nm == "r_interval":
            if not (isinstance(d, ast.Tuple) and len(d.elts) == 2):
                raise Unsupported("r_interval default")
            P.append(f"def {lean}PublicIntervalDefault : K × K := ({Ex(src, {}).e(d.elts[0])}, {Ex(src, {}).e(d.elts[1])})")
        elif nm == "include_origin":
            if not (isinstance(d, ast.Constant) and isinstance(d.value, bool)):
                raise Unsupported("include_origin default")
            P.append(f"def {lean}PublicIncludeOriginDefault : Bool := {'true' if d.value else 'false'}")
        elif nm == "remove_large_pts":
            P.append(f"def {lean}PublicRemoveLargeDefault : K := {_lit(ast.get_source_segment(src, d), d.value)}")
        elif not (isinstance(d, ast.Constant) and d.value is None):
            raise Unsupported(f"{name}: default of {nm}")
        if nm in cdfl and _u(cdfl[nm]) != _u(d) and nm in ("boundary", "ode_params"):
            raise Unsupported(f"{name}: default of {nm} differs from {callee_name}")
    P.append(f"def {lean}PublicNoneDefaults : List String := {_strs([nm for nm, d in dfl if isinstance(d, ast.Constant) and d.value is None])}")
    P.append(f"def {lean}Forward : List (String × String) := {_pairs([(p_, bound[p_]) for p_ in cargs if p_ in bound])}\n")
    return P


def _harm_degree(ip, src, lean, P):
    """r_sph_harm = generate_real_spherical_harmonics(atomgrid.l_max // 2, theta, phi)"""
    a = _one_assign(ip, "r_sph_harm")
    c = a.value
    if not (isinstance(c, ast.Call) and _is_name(c.func, "generate_real_spherical_harmonics") and len(c.args) == 3 and not c.keywords
            and _is_name(c.args[1], "theta") and _is_name(c.args[2], "phi")):
        raise Unsupported(f"{lean}: r_sph_harm")
    P.append(f"/-- `{_u(a)}`: the largest degree of the harmonics the radial values are contracted with. -/")
    P.append(f"def {lean}HarmDegree (l_max : Nat) : Int := {_iexpr(c.args[0], {})}\n")


def _y00_angles(fn, src, lean, P):
    sph = _one_assign(fn, "sph_o_l")
    c = sph.value
    out = []
    for a in c.args[1:]:
        if not (isinstance(a, ast.Call) and _np_call(a.func) == "array" and len(a.args) == 1 and isinstance(a.args[0], ast.List) and len(a.args[0].elts) == 1):
            raise Unsupported(f"{lean}: angles of sph_o_l")
        out.append(Ex(src, {}).e(a.args[0].elts[0]))
    P.append(f"/-- `{_u(sph)}`: the (arbitrary) angles at which the constant harmonic `Y_00` is evaluated. -/")
    P.append(f"def {lean}Y00Angles : K × K := ({out[0]}, {out[1]})\n")


def _spline_counter(fn, mloop, lean, P):
    """i_spline = 0 before the loops, i_spline += 1 once per (l, m) after the solve, the defaults `i_spline=i_spline`, `l_deg=l_deg`."""
    init = _one_assign(fn, "i_spline")
    if not (isinstance(init.value, ast.Constant) and isinstance(init.value.value, int) and not isinstance(init.value.value, bool) and init.value.value >= 0):
        raise Unsupported(f"{lean}: i_spline initial value")
    steps = [s for s in mloop.body if isinstance(s, ast.AugAssign) and _is_name(s.target, "i_spline")]
    if len(steps) != 1 or not isinstance(steps[0].op, ast.Add) or not (isinstance(steps[0].value, ast.Constant) and isinstance(steps[0].value.value, int) and steps[0].value.value >= 0):
        raise Unsupported(f"{lean}: i_spline step")
    P.append(f"/-- `{_u(init)}` before the loops; `{_u(steps[0])}` once per `(l_deg, m_ord)`, after the solve: the index of the radial component")
    P.append("of the density (`radial_components[i_spline]`) the right-hand side of a problem reads. -/")
    P.append(f"def {lean}SplineStart : Nat := {init.value.value}")
    P.append(f"def {lean}SplineStep (i_spline : Nat) : Nat := i_spline + {steps[0].value.value}\n")


def _def_defaults(f, want: dict[str, str], where):
    """nested helper `def f(r, x=x)`: the parameters after `r` must be bound by same-name defaults (definition-time binding)."""
    ps = [a.arg for a in f.args.args]
    nd = len(f.args.defaults)
    if ps[:1] != ["r"] or ps[1:] != list(want) or nd != len(want) or any(not _is_name(d, n) for n, d in zip(ps[1:], f.args.defaults)):
        raise Unsupported(f"{where}: parameters of {f.name}: ({_u(f.args)})")


# ----------------------------------------------------------------------------------------------
# fragments shared by the two atomic solvers
# ----------------------------------------------------------------------------------------------
def _boundary_def(fn, src, lean_name, doc):
    """boundary = atomgrid.integrate(func_vals) / sph_o_l[0, 0]   with
    sph_o_l = generate_real_spherical_harmonics(0, <one point>)"""
    sph = _one_assign(fn, "sph_o_l", include_nested=False)
    c = sph.value
    if not (isinstance(c, ast.Call) and _is_name(c.func, "generate_real_spherical_harmonics") and len(c.args) == 3
            and isinstance(c.args[0], ast.Constant) and c.args[0].value == 0):
        raise Unsupported(f"{fn.name}: sph_o_l is not generate_real_spherical_harmonics(0, theta, phi)")
    b = _one_assign(fn, "boundary")

    def atom(n):
        if isinstance(n, ast.Call) and isinstance(n.func, ast.Attribute) and n.func.attr == "integrate" \
                and _is_name(n.func.value, "atomgrid") and len(n.args) == 1 and _is_name(n.args[0], "func_vals"):
            return "integral"
        if isinstance(n, ast.Subscript) and _is_name(n.value, "sph_o_l"):
            idx = n.slice
            if isinstance(idx, ast.Tuple) and [getattr(e, "value", None) for e in idx.elts] == [0, 0]:
                return "y00"
            raise Unsupported("sph_o_l index " + ast.dump(idx))
        return None

    ex = Ex(src, {}, atom)
    return [f"/-- {doc}: `{ast.get_source_segment(src, b)}` (`integral` = `atomgrid.integrate(func_vals)`,",
            "`y00` = the degree-0 real spherical harmonic the code evaluates). -/",
            f"def {lean_name} (integral y00 : K) : K := {ex.e(b.value)}\n"]


def _iexpr(n, names, gridname="atomgrid"):
    """Integer expression (loop bounds, m_ord / degree comprehensions) -> Lean `Int` text."""
    if isinstance(n, ast.Constant) and isinstance(n.value, int) and not isinstance(n.value, bool):
        return f"({n.value} : Int)"
    if isinstance(n, ast.Name) and n.id in names:
        return names[n.id]
    if isinstance(n, ast.Attribute) and n.attr == "l_max" and _is_name(n.value, gridname):
        return "(l_max : Int)"
    if isinstance(n, ast.UnaryOp) and isinstance(n.op, ast.USub):
        return f"(-{_iexpr(n.operand, names, gridname)})"
    if isinstance(n, ast.BinOp):
        ops = {ast.Add: "+", ast.Sub: "-", ast.Mult: "*", ast.FloorDiv: "/"}  # Int `/` floors for a positive divisor
        if type(n.op) in ops:
            if isinstance(n.op, ast.FloorDiv) and not (isinstance(n.right, ast.Constant) and isinstance(n.right.value, int) and n.right.value > 0):
                raise Unsupported("floor division by a non-literal")
            return f"({_iexpr(n.left, names, gridname)} {ops[type(n.op)]} {_iexpr(n.right, names, gridname)})"
    raise Unsupported("integer expression " + ast.dump(n)[:120])


def _loops(fn, src):
    """for l_deg in range(a, atomgrid.l_max // 2 + 1): for m_ord in [comp] + [comp]"""
    loops = [n for n in ast.walk(fn) if isinstance(n, ast.For) and _is_name(n.target, "l_deg")]
    if len(loops) != 1:
        raise Unsupported(f"{fn.name}: l_deg loop")
    lo = loops[0]
    it = lo.iter
    if not (isinstance(it, ast.Call) and _is_name(it.func, "range") and len(it.args) == 2):
        raise Unsupported("l_deg range")

    iexpr = _iexpr

    lstart, lstop = iexpr(it.args[0], {}), iexpr(it.args[1], {})
    inner = [s for s in lo.body if isinstance(s, ast.For)]
    if len(inner) != 1 or not _is_name(inner[0].target, "m_ord"):
        raise Unsupported("m_ord loop")

    def comp(n):
        if isinstance(n, ast.BinOp) and isinstance(n.op, ast.Add):
            return f"{comp(n.left)} ++ {comp(n.right)}"
        if isinstance(n, ast.ListComp) and len(n.generators) == 1 and not n.generators[0].ifs:
            g = n.generators[0]
            if not (isinstance(g.target, ast.Name) and isinstance(g.iter, ast.Call) and _is_name(g.iter.func, "range") and len(g.iter.args) == 2):
                raise Unsupported("comprehension generator")
            v = g.target.id
            names = {"l_deg": "(l_deg : Int)"}
            a, b = iexpr(g.iter.args[0], names), iexpr(g.iter.args[1], names)
            body = iexpr(n.elt, {**names, v: v})
            return f"((intRange {a} {b}).map fun {v} => {body})"
        raise Unsupported("m_ord iterable " + ast.dump(n)[:120])

    return lo, inner[0], lstart, lstop, comp(inner[0].iter)


def _scalar_fn(fn, src, names, atom=None):
    """Body of a nested scalar helper (assignments, masked assignment, `with` blocks, return)."""
    ex = Ex(src, names, atom)
    lines = []

    def run(stmts):
        for st in stmts:
            if isinstance(st, ast.With):
                run(st.body)
                continue
            if isinstance(st, ast.Assign) and len(st.targets) == 1:
                t = st.targets[0]
                if isinstance(t, ast.Name):
                    lines.append(f"  let {t.id} : K := {ex.e(st.value)}")
                    ex.names[t.id] = t.id
                    continue
                if isinstance(t, ast.Subscript) and isinstance(t.value, ast.Name) and t.value.id in ex.names:
                    x = t.value.id
                    lines.append(f"  let {x} : K := if {ex.cond(t.slice)} then {ex.e(st.value)} else {x}")
                    continue
            if isinstance(st, ast.Return):
                lines.append(f"  {ex.e(st.value)}")
                return True
            raise Unsupported(f"{fn.name}: statement " + ast.dump(st)[:160])
        return False

    if not run(_strip_doc(fn.body)):
        raise Unsupported(f"{fn.name}: no return")
    return lines


def _rho_atom(n):
    # radial_components[i_spline](r)
    if isinstance(n, ast.Call) and isinstance(n.func, ast.Subscript) and _is_name(n.func.value, "radial_components") \
            and _is_name(n.func.slice, "i_spline") and len(n.args) == 1 and _is_name(n.args[0], "r"):
        return "rho"
    return None


def _coeff_list(fn, src, target, callables: dict[str, str]):
    a = _one_assign(fn, target, include_nested=False)
    if not isinstance(a.value, ast.List):
        raise Unsupported(f"{target} is not a list")
    out = []
    for e in a.value.elts:
        if isinstance(e, ast.Name) and e.id in callables:
            out.append(callables[e.id])
        elif isinstance(e, ast.Constant):
            out.append(_lit(ast.get_source_segment(src, e), e.value))
        else:
            raise Unsupported(f"{target} entry " + ast.dump(e)[:100])
    return out, ast.get_source_segment(src, a)


def _monopole_if(inner_for, target):
    ifs = [s for s in inner_for.body if isinstance(s, ast.If)]
    ifs = [s for s in ifs if any(isinstance(x, ast.Assign) and _is_name(x.targets[0], target) for x in s.body)]
    if len(ifs) != 1:
        raise Unsupported(f"if-block assigning {target}")
    st = ifs[0]
    if len(st.body) != 1 or len(st.orelse) != 1 or not isinstance(st.orelse[0], ast.Assign) or not _is_name(st.orelse[0].targets[0], target):
        raise Unsupported(f"shape of the {target} if/else")
    return st


def _icond(n) -> str:
    """`l_deg == 0 and m_ord == 0` over integers."""
    if isinstance(n, ast.BoolOp) and isinstance(n.op, ast.And):
        return " ∧ ".join(_icond(v) for v in n.values)
    if isinstance(n, ast.BoolOp) and isinstance(n.op, ast.Or):
        return "(" + " ∨ ".join(_icond(v) for v in n.values) + ")"
    if isinstance(n, ast.Compare) and len(n.ops) == 1 and isinstance(n.left, ast.Name) and n.left.id in ("l_deg", "m_ord") \
            and isinstance(n.comparators[0], ast.Constant) and isinstance(n.comparators[0].value, int):
        op = {ast.Eq: "=", ast.NotEq: "≠", ast.Lt: "<", ast.LtE: "≤", ast.Gt: ">", ast.GtE: "≥"}.get(type(n.ops[0]))
        if op is None:
            raise Unsupported("comparison in monopole test")
        return f"({n.left.id} : Int) {op} {n.comparators[0].value}"
    raise Unsupported("monopole test " + ast.dump(n)[:120])


# ----------------------------------------------------------------------------------------------
# the three parts
# ----------------------------------------------------------------------------------------------
def _bvp(tree, src) -> list[str]:
    fn = _fn(tree, "_solve_poisson_bvp_atomgrid")
    P: list[str] = []
    # default of remove_large_pts / include_origin
    args = [a.arg for a in fn.args.args]
    if args != ["atomgrid", "func_vals", "transform", "boundary", "include_origin", "remove_large_pts", "ode_params"]:
        raise Unsupported(f"bvp parameters {args}")
    dfl = dict(zip(args[-len(fn.args.defaults):], fn.args.defaults))
    if not (isinstance(dfl["boundary"], ast.Constant) and dfl["boundary"].value is None and isinstance(dfl["include_origin"], ast.Constant)
            and isinstance(dfl["include_origin"].value, bool)):
        raise Unsupported("bvp defaults")
    P.append("/-- default of `include_origin`. -/")
    P.append(f"def bvpIncludeOriginDefault : Bool := {'true' if dfl['include_origin'].value else 'false'}\n")
    P.append(f"/-- default of `remove_large_pts` (`{ast.get_source_segment(src, dfl['remove_large_pts'])}`). -/")
    P.append(f"def bvpRemoveLargeDefault : K := {_lit(ast.get_source_segment(src, dfl['remove_large_pts']), dfl['remove_large_pts'].value)}\n")
    P += _boundary_def(fn, src, "bvpBoundary", "default boundary value of `u_00` at the last radial point")
    # the guard on the boundary: only when None
    bnd = _one_assign(fn, "boundary")
    holder = [n for n in ast.walk(fn) if isinstance(n, ast.If) and bnd in n.body]
    if len(holder) != 1 or not (isinstance(holder[0].test, ast.Compare) and _is_name(holder[0].test.left, "boundary")
                                and isinstance(holder[0].test.ops[0], ast.Is) and getattr(holder[0].test.comparators[0], "value", 0) is None):
        raise Unsupported("boundary default is not under `if boundary is None`")
    # origin option
    inc = [n for n in ast.walk(fn) if isinstance(n, ast.If) and _is_name(n.test, "include_origin")]
    if len(inc) != 1 or len(inc[0].body) != 1 or not isinstance(inc[0].body[0], ast.If) or inc[0].orelse:
        raise Unsupported("include_origin block")
    inner = inc[0].body[0]

    def pts_atom(n):
        if isinstance(n, ast.Attribute) and n.attr == "points" and isinstance(n.value, ast.Attribute) and n.value.attr == "rgrid":
            return "p"
        if _is_name(n, "rad_points"):
            return "p"
        if _is_name(n, "remove_large_pts"):
            return "t"
        return None

    ex = Ex(src, {}, pts_atom)
    if not (isinstance(inner.test, ast.Call) and _np_call(inner.test.func) == "all"):
        raise Unsupported("include_origin: the test is not np.all(...)")
    P.append(f"/-- `{ast.get_source_segment(src, inner.test)}`, per radial point `p` (the origin is prepended iff this")
    P.append("holds for *all* points and `include_origin`). -/")
    P.append(f"def originAbsent (p : K) : Prop := {ex.cond(inner.test)}")
    P.append("instance (p : K) : Decidable (originAbsent p) := by unfold originAbsent; infer_instance\n")
    hs = inner.body[0]
    ok = (len(inner.body) == 1 and isinstance(hs, ast.Assign) and _is_name(hs.targets[0], "rad_points") and isinstance(hs.value, ast.Call)
          and _np_call(hs.value.func) == "hstack" and isinstance(hs.value.args[0], ast.Tuple) and len(hs.value.args[0].elts) == 2
          and _is_name(hs.value.args[0].elts[1], "rad_points"))
    if not ok:
        raise Unsupported("include_origin: hstack form")
    first = hs.value.args[0].elts[0]
    if not (isinstance(first, ast.Call) and _np_call(first.func) == "array" and isinstance(first.args[0], ast.List) and len(first.args[0].elts) == 1):
        raise Unsupported("include_origin: prepended array")
    P.append(f"/-- the point prepended by `{ast.get_source_segment(src, hs)}`. -/")
    P.append(f"def originValue : K := {Ex(src, {}).e(first.args[0].elts[0])}\n")
    # large points
    rm = [n for n in ast.walk(fn) if isinstance(n, ast.If) and isinstance(n.test, ast.Compare) and _is_name(n.test.left, "remove_large_pts")]
    if len(rm) != 1 or not isinstance(rm[0].test.ops[0], ast.IsNot) or len(rm[0].body) != 2:
        raise Unsupported("remove_large_pts block")
    w, dl = rm[0].body
    ok = (isinstance(w, ast.Assign) and _is_name(w.targets[0], "indices") and isinstance(w.value, ast.Subscript)
          and isinstance(w.value.value, ast.Call) and _np_call(w.value.value.func) == "where"
          and isinstance(dl, ast.Assign) and _is_name(dl.targets[0], "rad_points") and isinstance(dl.value, ast.Call)
          and _np_call(dl.value.func) == "delete" and _is_name(dl.value.args[0], "rad_points") and _is_name(dl.value.args[1], "indices"))
    if not ok:
        raise Unsupported("remove_large_pts: where/delete form")
    P.append(f"/-- `{ast.get_source_segment(src, w.value.value.args[0])}`: the radial points deleted when `remove_large_pts = t` is not None. -/")
    P.append(f"def isLarge (p t : K) : Prop := {ex.cond(w.value.value.args[0])}")
    P.append("instance (p t : K) : Decidable (isLarge p t) := by unfold isLarge; infer_instance\n")
    # defaults
    sd = _setdefaults(fn, src)
    if set(sd) != {"tol", "max_nodes", "no_derivatives"}:
        raise Unsupported(f"bvp setdefault keys {sorted(sd)}")
    P.append(f"/-- `ode_params.setdefault(\"tol\", {ast.get_source_segment(src, sd['tol'])})`. -/")
    P.append(f"def bvpTol : K := {_lit(ast.get_source_segment(src, sd['tol']), sd['tol'].value)}")
    if not isinstance(sd["max_nodes"].value, int) or not isinstance(sd["no_derivatives"].value, bool):
        raise Unsupported("bvp defaults types")
    P.append(f"def bvpMaxNodes : Nat := {sd['max_nodes'].value}")
    P.append(f"def bvpNoDerivatives : Bool := {'true' if sd['no_derivatives'].value else 'false'}\n")
    # loops
    lo, mloop, lstart, lstop, mexpr = _loops(fn, src)
    P.append(f"/-- `{ast.get_source_segment(src, lo.iter)}`. -/")
    P.append(f"def bvpLStart : Int := {lstart}")
    P.append(f"def bvpLStop (l_max : Nat) : Int := {lstop}")
    P.append(f"/-- `{ast.get_source_segment(src, mloop.iter)}`. -/")
    P.append(f"def bvpMOrders (l_deg : Nat) : List Int := {mexpr}\n")
    # f_x, coeff_0
    fx = _nested_fn(fn, "f_x")
    P.append(f"/-- right-hand side `f_x(r)`: `{ast.get_source_segment(src, _strip_doc(fx.body)[-1])}` (`rho` = `radial_components[i_spline](r)`). -/")
    P.append("def bvpRhs (rho r : K) : K :=")
    P += _scalar_fn(fx, src, {"r": "r"}, _rho_atom)
    P.append("")
    c0 = _nested_fn(fn, "coeff_0")
    P.append("/-- `coeff_0(r)` including the `r == 0` replacement. -/")
    P.append("def bvpCoeff0 (l_deg : Nat) (r : K) : K :=")
    P += _scalar_fn(c0, src, {"r": "r", "l_deg": "((l_deg : Nat) : K)"})
    P.append("")
    cl, ctext = _coeff_list(fn, src, "coeffs", {"coeff_0": "bvpCoeff0 l_deg r"})
    P.append(f"/-- `{ctext}` evaluated at `r` (orders 0, 1, 2). -/")
    P.append(f"def bvpCoeffs (l_deg : Nat) (r : K) : List K := [{', '.join(cl)}]\n")
    # bd_cond
    st = st_bd = _monopole_if(mloop, "bd_cond")

    def bdl(n):
        if not isinstance(n, ast.List):
            raise Unsupported("bd_cond is not a list")
        out = []
        ex2 = Ex(src, {"boundary": "boundary"})
        for t in n.elts:
            if not (isinstance(t, ast.Tuple) and len(t.elts) == 3 and all(isinstance(x, ast.Constant) and isinstance(x.value, int) and x.value >= 0 for x in t.elts[:2])):
                raise Unsupported("bd_cond entry")
            out.append(f"({t.elts[0].value}, {t.elts[1].value}, {ex2.e(t.elts[2])})")
        return "[" + ", ".join(out) + "]"

    P.append(f"/-- boundary conditions `(end, derivative order, value)`: `if {ast.get_source_segment(src, st.test)}` … else …. -/")
    P.append("def bvpBdCond (l_deg : Nat) (m_ord : Int) (boundary : K) : List (Nat × Nat × K) :=")
    P.append(f"  if {_icond(st.test)} then {bdl(st.body[0].value)} else {bdl(st.orelse[0].value)}\n")
    # the call
    cs = _calls(fn, "solve_ode_bvp")
    if len(cs) != 1:
        raise Unsupported("solve_ode_bvp call")
    P.append("/-- arguments of the `solve_ode_bvp` call, in order. -/")
    P.append(f"def bvpCall : List String := {_strs(_call_args(cs[0], src))}\n")
    # interpolate
    ip = _nested_fn(fn, "interpolate")
    rv = _assigns(ip, "r_values")
    if len(rv) != 1 or not (isinstance(rv[0].value, ast.Call) and _np_call(rv[0].value.func) == "array" and isinstance(rv[0].value.args[0], ast.ListComp)):
        raise Unsupported("bvp interpolate: r_values")
    lc = rv[0].value.args[0]

    def sp_atom(n):
        if isinstance(n, ast.Call) and _is_name(n.func, "spline") and len(n.args) == 1 and _is_name(n.args[0], "r_pts"):
            return "u"
        return None

    exi = Ex(src, {"r_pts": "r"}, sp_atom)
    masked = [n for n in ast.walk(ip) if isinstance(n, ast.Assign) and isinstance(n.targets[0], ast.Subscript) and _is_name(n.targets[0].value, "r_values")]
    P.append(f"/-- value of one radial component at radius `r` from the spline value `u = spline(r)`: `{ast.get_source_segment(src, lc.elt)}`")
    P.append("followed by the masked assignment(s) of `interpolate`. -/")
    P.append("def bvpValue (u r : K) : K :=")
    P.append(f"  let r_values : K := {exi.e(lc.elt)}")
    for m in masked:
        sl = m.targets[0].slice
        if not (isinstance(sl, ast.Tuple) and len(sl.elts) == 2 and isinstance(sl.elts[0], ast.Slice)):
            raise Unsupported("bvp interpolate: mask form")
        P.append(f"  let r_values : K := if {exi.cond(sl.elts[1])} then {exi.e(m.value)} else r_values")
    P.append("  r_values\n")
    es = [c for c in _calls(ip, "einsum")]
    if len(es) != 1 or not isinstance(es[0].args[0], ast.Constant):
        raise Unsupported("bvp interpolate: einsum")
    P.append("/-- contraction of radial values with the spherical harmonics. -/")
    P.append(f"def bvpEinsum : List String := {_strs(_call_args(es[0], src))}\n")
    # ---- round 3: every statement of the function, in order -------------------------------------
    import json

    S = _Seq(fn.body, "_solve_poisson_bvp_atomgrid")
    guards = [_type_guard(S.next(ast.If), "_solve_poisson_bvp_atomgrid") for _ in range(3)]
    P.append("/-- the three `if not isinstance(<option>, <classes>): raise TypeError(...)` guards, in order: (option, accepted classes). -/")
    P.append("def bvpTypeGuards : List (String × List String) := [" + ", ".join(f"({json.dumps(n)}, {_strs(c)})" for n, c in guards) + "]\n")
    st = S.next(ast.If)
    if st is not holder[0] or st.orelse or len(st.body) != 2 or st.body[1] is not bnd or not (isinstance(st.body[0], ast.Assign) and _is_name(st.body[0].targets[0], "sph_o_l")):
        raise Unsupported("bvp: body of `if boundary is None`")
    _y00_angles(fn, src, "bvp", P)
    S.next(text="domain = transform.domain")
    g = S.next(ast.If)
    if g.orelse or len(g.body) != 1 or not (isinstance(g.body[0], ast.Raise) and isinstance(g.body[0].exc, ast.Call) and _is_name(g.body[0].exc.func, "ValueError")):
        raise Unsupported("bvp: domain guard")
    dom_idx = []

    def dom_atom(n):
        if isinstance(n, ast.Subscript) and _is_name(n.value, "domain") and isinstance(n.slice, ast.Constant) and isinstance(n.slice.value, int) and not isinstance(n.slice.value, bool) and n.slice.value >= 0:
            dom_idx.append(n.slice.value)
            return "d"
        return None

    dom_txt = Ex(src, {}, dom_atom).cond(g.test)
    if len(set(dom_idx)) != 1:
        raise Unsupported("bvp: domain guard inspects more than one end")
    P.append(f"/-- `domain = transform.domain`; `if {_u(g.test)}: raise ValueError(...)`: `d` = `domain[bvpDomainIndex]`, the lower end of the transform's domain. -/")
    P.append(f"def bvpDomainIndex : Nat := {dom_idx[0]}")
    P.append(f"def bvpDomainRejects (d : K) : Prop := {dom_txt}")
    P.append("instance (d : K) : Decidable (bvpDomainRejects d) := by unfold bvpDomainRejects; infer_instance\n")
    S.next(text="radial_components = atomgrid.radial_component_splines(func_vals)")
    S.next(text="rad_points = atomgrid.rgrid.points.copy()")
    if S.next(ast.If) is not inc[0] or S.next(ast.If) is not rm[0]:
        raise Unsupported("bvp: order of the origin / large-point blocks")
    wi = w.value.slice
    if not (isinstance(wi, ast.Constant) and isinstance(wi.value, int) and not isinstance(wi.value, bool) and wi.value >= 0):
        raise Unsupported("bvp: index of np.where(...)")
    P.append(f"/-- `{_u(w)}`: `np.where` of a one-dimensional mask returns a 1-tuple; entry `bvpWhereIndex` holds the positions to delete. -/")
    P.append(f"def bvpWhereIndex : Nat := {wi.value}\n")
    S.next(text="ode_params = dict({}) if ode_params is None else dict(ode_params)")
    for key in ("tol", "max_nodes", "no_derivatives"):
        S.next(ast.Expr, prefix=f"ode_params.setdefault('{key}', ")
    S.next(text="splines = []")
    S.next(ast.Assign, prefix="i_spline = ")
    if S.next(ast.For) is not lo or len(lo.body) != 1 or lo.orelse or mloop.orelse:
        raise Unsupported("bvp: the l_deg loop holds more than the m_ord loop")
    if S.next(ast.FunctionDef) is not ip or [a.arg for a in ip.args.args] != ["points"] or ip.args.defaults:
        raise Unsupported("bvp: def interpolate(points)")
    S.next(text="return interpolate")
    S.done()
    M = _Seq(mloop.body, "_solve_poisson_bvp_atomgrid (l, m) loop")
    if M.next(ast.FunctionDef) is not fx or M.next(ast.FunctionDef) is not c0:
        raise Unsupported("bvp: nested helpers f_x, coeff_0")
    _def_defaults(fx, {"i_spline": "i_spline"}, "bvp")
    _def_defaults(c0, {"l_deg": "l_deg"}, "bvp")
    M.next(ast.Assign, prefix="coeffs = ")
    if M.next(ast.If) is not st_bd:
        raise Unsupported("bvp: bd_cond block")
    if M.next(ast.Assign, prefix="u_lm = solve_ode_bvp(").value is not cs[0]:
        raise Unsupported("bvp: u_lm = solve_ode_bvp(...)")
    M.next(ast.AugAssign, prefix="i_spline += ")
    M.next(text="splines.append(u_lm)")
    M.done()
    _spline_counter(fn, mloop, "bvp", P)
    I = _Seq(ip.body, "_solve_poisson_bvp_atomgrid interpolate")
    I.next(text="r_pts, theta, phi = atomgrid.convert_cartesian_to_spherical(points).T")
    wb = I.next(ast.With)
    if len(wb.body) != 1 + len(masked) or wb.body[0] is not rv[0] or any(a is not b for a, b in zip(wb.body[1:], masked)):
        raise Unsupported("bvp interpolate: body of the errstate block")
    I.next(ast.Assign, prefix="r_sph_harm = ")
    if I.next(ast.Return).value is not es[0]:
        raise Unsupported("bvp interpolate: return np.einsum(...)")
    I.done()
    _harm_degree(ip, src, "bvp", P)
    return P


def _ivp(tree, src) -> list[str]:
    fn = _fn(tree, "_solve_poisson_ivp_atomgrid")
    P: list[str] = []
    args = [a.arg for a in fn.args.args]
    if args != ["atomgrid", "func_vals", "transform", "r_interval", "ode_params"]:
        raise Unsupported(f"ivp parameters {args}")
    dfl = dict(zip(args[-len(fn.args.defaults):], fn.args.defaults))
    ri = dfl["r_interval"]
    if not (isinstance(ri, ast.Tuple) and len(ri.elts) == 2):
        raise Unsupported("r_interval default")
    P.append(f"/-- default `r_interval = {ast.get_source_segment(src, ri)}`. -/")
    P.append(f"def ivpIntervalDefault : K × K := ({Ex(src, {}).e(ri.elts[0])}, {Ex(src, {}).e(ri.elts[1])})\n")
    # guard
    g = _strip_doc(fn.body)[0]
    if not (isinstance(g, ast.If) and len(g.body) == 1 and isinstance(g.body[0], ast.Raise) and isinstance(g.body[0].exc, ast.Call)
            and _is_name(g.body[0].exc.func, "ValueError")):
        raise Unsupported("ivp: interval guard")

    def ri_atom(n):
        if isinstance(n, ast.Subscript) and _is_name(n.value, "r_interval") and isinstance(n.slice, ast.Constant) and n.slice.value in (0, 1):
            return ["r0", "r1"][n.slice.value]
        return None

    exg = Ex(src, {}, ri_atom)
    P.append(f"/-- `if {ast.get_source_segment(src, g.test)}: raise ValueError` (message: `{_u(g.body[0].exc)[:220]}`). -/")
    P.append(f"def ivpRejects (r0 r1 : K) : Prop := {exg.cond(g.test)}")
    P.append("instance (r0 r1 : K) : Decidable (ivpRejects r0 r1) := by unfold ivpRejects; infer_instance\n")
    rm = _one_assign(fn, "r_max")
    P.append(f"/-- `{ast.get_source_segment(src, rm)}`. -/")
    P.append(f"def ivpRMax (r0 r1 : K) : K := {exg.e(rm.value)}\n")
    P += _boundary_def(fn, src, "ivpBoundary", "monopole strength used for the initial data")
    sd = _setdefaults(fn, src)
    if set(sd) != {"method", "rtol", "atol"} or not isinstance(sd["method"].value, str):
        raise Unsupported(f"ivp setdefault keys {sorted(sd)}")
    import json

    P.append("/-- `ode_params.setdefault(...)` of the initial-value solver. -/")
    P.append(f"def ivpMethod : String := {json.dumps(sd['method'].value)}")
    P.append(f"def ivpRtol : K := {_lit(ast.get_source_segment(src, sd['rtol']), sd['rtol'].value)}")
    P.append(f"def ivpAtol : K := {_lit(ast.get_source_segment(src, sd['atol']), sd['atol'].value)}\n")
    lo, mloop, lstart, lstop, mexpr = _loops(fn, src)
    P.append(f"/-- `{ast.get_source_segment(src, lo.iter)}`. -/")
    P.append(f"def ivpLStart : Int := {lstart}")
    P.append(f"def ivpLStop (l_max : Nat) : Int := {lstop}")
    P.append(f"/-- `{ast.get_source_segment(src, mloop.iter)}`. -/")
    P.append(f"def ivpMOrders (l_deg : Nat) : List Int := {mexpr}\n")
    fx = _nested_fn(fn, "f_x")
    P.append(f"/-- right-hand side `f_x(r)`: `{ast.get_source_segment(src, _strip_doc(fx.body)[-1])}`. -/")
    P.append("def ivpRhs (rho r : K) : K :=")
    P += _scalar_fn(fx, src, {"r": "r"}, _rho_atom)
    P.append("")
    c0 = _nested_fn(fn, "coeff_0")
    P.append("/-- `coeff_0(r)`. -/")
    P.append("def ivpCoeff0 (l_deg : Nat) (r : K) : K :=")
    P += _scalar_fn(c0, src, {"r": "r", "l_deg": "((l_deg : Nat) : K)"})
    P.append("")
    c1 = _nested_fn(fn, "coeff_1")
    P.append("/-- `coeff_1(r)`. -/")
    P.append("def ivpCoeff1 (r : K) : K :=")
    P += _scalar_fn(c1, src, {"r": "r"})
    P.append("")
    cl, ctext = _coeff_list(fn, src, "coeffs", {"coeff_0": "ivpCoeff0 l_deg r", "coeff_1": "ivpCoeff1 r"})
    P.append(f"/-- `{ctext}` evaluated at `r` (orders 0, 1, 2). -/")
    P.append(f"def ivpCoeffs (l_deg : Nat) (r : K) : List K := [{', '.join(cl)}]\n")
    st = _monopole_if(mloop, "ivp")
    ex2 = Ex(src, {"boundary": "boundary", "r_max": "r_max"})

    def lst(n):
        if not isinstance(n, ast.List):
            raise Unsupported("ivp is not a list")
        return "[" + ", ".join(ex2.e(e) for e in n.elts) + "]"

    P.append(f"/-- initial data `[V(r_max), V'(r_max)]`: `if {ast.get_source_segment(src, st.test)}`: `{ast.get_source_segment(src, st.body[0])}` else `{ast.get_source_segment(src, st.orelse[0])}`. -/")
    P.append("def ivpInit (l_deg : Nat) (m_ord : Int) (boundary r_max : K) : List K :=")
    P.append(f"  if {_icond(st.test)} then {lst(st.body[0].value)} else {lst(st.orelse[0].value)}\n")
    cs = _calls(fn, "solve_ode_ivp")
    if len(cs) != 1:
        raise Unsupported("solve_ode_ivp call")
    P.append("/-- arguments of the `solve_ode_ivp` call, in order. -/")
    P.append(f"def ivpCall : List String := {_strs(_call_args(cs[0], src))}\n")
    ip = _nested_fn(fn, "interpolate")
    rv = _assigns(ip, "r_values")
    if len(rv) != 1 or not (isinstance(rv[0].value, ast.Call) and _np_call(rv[0].value.func) == "array" and isinstance(rv[0].value.args[0], ast.ListComp)):
        raise Unsupported("ivp interpolate: r_values")

    def sp_atom(n):
        if isinstance(n, ast.Call) and _is_name(n.func, "spline") and len(n.args) == 1 and _is_name(n.args[0], "r_pts"):
            return "u"
        return None

    exi = Ex(src, {"r_pts": "r"}, sp_atom)
    P.append("/-- value of one radial component at radius `r` from the spline value `u = spline(r)`. -/")
    P.append(f"def ivpValue (u r : K) : K := {exi.e(rv[0].value.args[0].elt)}\n")
    es = _calls(ip, "einsum")
    if len(es) != 1:
        raise Unsupported("ivp interpolate: einsum")
    P.append(f"def ivpEinsum : List String := {_strs(_call_args(es[0], src))}\n")
    # ---- round 3: every statement of the function, in order -------------------------------------
    S = _Seq(fn.body, "_solve_poisson_ivp_atomgrid")
    if S.next(ast.If) is not g or g.orelse:
        raise Unsupported("ivp: interval guard")
    S.next(text="radial_components = atomgrid.radial_component_splines(func_vals)")
    S.next(ast.Assign, prefix="sph_o_l = ")
    if S.next(ast.Assign) is not rm or S.next(ast.Assign, prefix="boundary = ") is None:
        raise Unsupported("ivp: r_max / boundary")
    _y00_angles(fn, src, "ivp", P)
    S.next(text="ode_params = dict({}) if ode_params is None else dict(ode_params)")
    for key in ("method", "rtol", "atol"):
        S.next(ast.Expr, prefix=f"ode_params.setdefault('{key}', ")
    S.next(text="splines = []")
    S.next(ast.Assign, prefix="i_spline = ")
    if S.next(ast.For) is not lo or len(lo.body) != 1 or lo.orelse or mloop.orelse:
        raise Unsupported("ivp: the l_deg loop holds more than the m_ord loop")
    if S.next(ast.FunctionDef) is not ip or [a.arg for a in ip.args.args] != ["points"] or ip.args.defaults:
        raise Unsupported("ivp: def interpolate(points)")
    S.next(text="return interpolate")
    S.done()
    M = _Seq(mloop.body, "_solve_poisson_ivp_atomgrid (l, m) loop")
    if M.next(ast.FunctionDef) is not fx or M.next(ast.FunctionDef) is not c0 or M.next(ast.FunctionDef) is not c1:
        raise Unsupported("ivp: nested helpers f_x, coeff_0, coeff_1")
    _def_defaults(fx, {"i_spline": "i_spline"}, "ivp")
    _def_defaults(c0, {"l_deg": "l_deg"}, "ivp")
    _def_defaults(c1, {}, "ivp")
    M.next(ast.Assign, prefix="coeffs = ")
    if M.next(ast.If) is not st:
        raise Unsupported("ivp: initial-data block")
    if M.next(ast.Assign, prefix="u_lm = solve_ode_ivp(").value is not cs[0]:
        raise Unsupported("ivp: u_lm = solve_ode_ivp(...)")
    M.next(ast.AugAssign, prefix="i_spline += ")
    M.next(text="splines.append(u_lm)")
    M.done()
    _spline_counter(fn, mloop, "ivp", P)
    I = _Seq(ip.body, "_solve_poisson_ivp_atomgrid interpolate")
    I.next(text="r_pts, theta, phi = atomgrid.convert_cartesian_to_spherical(points).T")
    if I.next(ast.Assign) is not rv[0]:
        raise Unsupported("ivp interpolate: r_values")
    I.next(ast.Assign, prefix="r_sph_harm = ")
    if I.next(ast.Return).value is not es[0]:
        raise Unsupported("ivp interpolate: return np.einsum(...)")
    I.done()
    _harm_degree(ip, src, "ivp", P)
    return P


def _mol(tree, src) -> list[str]:
    fn = _fn(tree, "_interpolate_molgrid_helper")
    P: list[str] = []
    a = _one_assign(fn, "func_vals_atom")

    def atom(n):
        if _is_name(n, "func_vals"):
            return "f"
        if isinstance(n, ast.Attribute) and n.attr == "aim_weights" and _is_name(n.value, "molgrid"):
            return "w"
        return None

    P.append(f"/-- `{ast.get_source_segment(src, a)}`, per grid point. -/")
    P.append(f"def molWeighted (f w : K) : K := {Ex(src, {}, atom).e(a.value)}\n")
    loop = [n for n in ast.walk(fn) if isinstance(n, ast.For) and _is_name(n.target, "i")]
    if len(loop) != 1:
        raise Unsupported("molgrid helper: atom loop")

    def idx(name):
        s = _one_assign(fn, name)
        v = s.value
        if not (isinstance(v, ast.Subscript) and isinstance(v.value, ast.Attribute) and v.value.attr == "indices"):
            raise Unsupported(f"{name} is not molgrid.indices[...]")
        n = v.slice
        if _is_name(n, "i"):
            return "i"
        if isinstance(n, ast.BinOp) and isinstance(n.op, ast.Add) and _is_name(n.left, "i") and isinstance(n.right, ast.Constant) and isinstance(n.right.value, int):
            return f"i + {n.right.value}"
        raise Unsupported(f"{name} index")

    P.append("/-- positions in `molgrid.indices` delimiting the slice of atom `i`. -/")
    P.append(f"def molSliceStart (i : Nat) : Nat := {idx('start_index')}")
    P.append(f"def molSliceEnd (i : Nat) : Nat := {idx('final_index')}\n")
    cs = _calls(loop[0], "interpolate_callable")
    if len(cs) != 1:
        raise Unsupported("interpolate_callable call")
    P.append(f"def molCall : List String := {_strs(_call_args(cs[0], src))}\n")
    sm = _nested_fn(fn, "sum_of_interpolation_functions")
    b = _strip_doc(sm.body)
    ok = (len(b) == 3 and isinstance(b[0], ast.Assign) and _is_name(b[0].targets[0], "output")
          and ast.get_source_segment(src, b[0].value) == "interpolate_funcs[0](points)"
          and isinstance(b[1], ast.For) and ast.get_source_segment(src, b[1].iter) == "interpolate_funcs[1:]"
          and len(b[1].body) == 1 and isinstance(b[1].body[0], ast.AugAssign) and isinstance(b[1].body[0].op, ast.Add)
          and _is_name(b[1].body[0].target, "output") and isinstance(b[2], ast.Return) and _is_name(b[2].value, "output"))
    if not ok:
        raise Unsupported("sum_of_interpolation_functions shape")
    step = b[1].body[0]

    def atom2(n):
        if isinstance(n, ast.Call) and _is_name(n.func, "interpolate") and len(n.args) == 1:
            return "v"
        return None

    P.append("/-- `output = interpolate_funcs[0](points)`; `for …[1:]: output += interpolate(points)`: one step of the sum. -/")
    P.append(f"def molSumStep (output v : K) : K := (output + {Ex(src, {}, atom2).e(step.value)})\n")
    # ---- round 3: every statement of the function, in order -------------------------------------
    if [x.arg for x in fn.args.args] != ["molgrid", "func_vals", "interpolate_callable"] or fn.args.defaults:
        raise Unsupported("_interpolate_molgrid_helper parameters")
    S = _Seq(fn.body, "_interpolate_molgrid_helper")
    _wrap_atomgrid(S.next(ast.If), src, "mol", P)
    gd = S.next(ast.If)
    if gd.orelse or _u(gd.test) != "molgrid.atgrids is None" or len(gd.body) != 1 or not (isinstance(gd.body[0], ast.Raise) and isinstance(gd.body[0].exc, ast.Call)
                                                                                      and _is_name(gd.body[0].exc.func, "ValueError")):
        raise Unsupported("_interpolate_molgrid_helper: `if molgrid.atgrids is None: raise ValueError` guard")
    P.append("/-- `if molgrid.atgrids is None: raise ValueError(...)`: a molecular grid built with `store=False` is rejected. -/")
    P.append("def molRequiresStore : Bool := true\n")
    if S.next(ast.Assign) is not a:
        raise Unsupported("_interpolate_molgrid_helper: func_vals_atom")
    S.next(text="interpolate_funcs = []")
    if S.next(ast.For) is not loop[0] or loop[0].orelse or _u(loop[0].iter) != "range(len(molgrid.atcoords))":
        raise Unsupported("_interpolate_molgrid_helper: atom loop")
    Lb = _Seq(loop[0].body, "_interpolate_molgrid_helper atom loop")
    Lb.next(ast.Assign, prefix="start_index = molgrid.indices[")
    Lb.next(ast.Assign, prefix="final_index = molgrid.indices[")
    Lb.next(text="atom_grid = molgrid[i]")
    ap = Lb.next(ast.Expr)
    if not (isinstance(ap.value, ast.Call) and _u(ap.value.func) == "interpolate_funcs.append" and len(ap.value.args) == 1 and ap.value.args[0] is cs[0]):
        raise Unsupported("_interpolate_molgrid_helper: interpolate_funcs.append(interpolate_callable(...))")
    Lb.done()
    if S.next(ast.FunctionDef) is not sm or [x.arg for x in sm.args.args] != ["points"] or sm.args.defaults:
        raise Unsupported("_interpolate_molgrid_helper: def sum_of_interpolation_functions(points)")
    S.next(text="return sum_of_interpolation_functions")
    S.done()
    P.append("/-- `for i in range(len(molgrid.atcoords)):` … `atom_grid = molgrid[i]`: the term of atom `i` is built from the grid `molgrid[i]` and the slice")
    P.append("`func_vals_atom[start_index:final_index]`, inside the loop iteration (no closure: `interpolate_callable` is *called* here). -/")
    P.append("def molAtomGrid : String := \"molgrid[i]\"\n")
    return P


def _robust(tree, src) -> list[str]:
    P: list[str] = []
    cd = _fn(tree, "_build_core_density")
    loop = [n for n in _strip_doc(cd.body) if isinstance(n, ast.For)]
    if len(loop) != 1 or len(loop[0].body) != 2:
        raise Unsupported("_build_core_density loop")
    pre, acc = loop[0].body
    if not (isinstance(pre, ast.Assign) and _is_name(pre.targets[0], "prefactor") and isinstance(acc, ast.AugAssign)
            and isinstance(acc.op, ast.Add) and _is_name(acc.target, "rho")):
        raise Unsupported("_build_core_density loop body")
    ex = Ex(src, {"c": "c", "alpha": "alpha", "r_sq": "r_sq"})
    P.append(f"/-- one term of `_build_core_density`: `{ast.get_source_segment(src, pre)}`; `{ast.get_source_segment(src, acc)}`. -/")
    P.append("def coreTerm (c alpha r_sq : K) : K :=")
    P.append(f"  let prefactor : K := {ex.e(pre.value)}")
    ex.names["prefactor"] = "prefactor"
    P.append(f"  {ex.e(acc.value)}\n")
    fn = _fn(tree, "solve_poisson_robust")
    subs = [n for n in ast.walk(fn) if isinstance(n, ast.AugAssign) and _is_name(n.target, "residual")]
    if len(subs) != 1 or not isinstance(subs[0].op, (ast.Sub, ast.Add)):
        raise Unsupported("residual update")

    def core_atom(n):
        if isinstance(n, ast.Call) and _is_name(n.func, "_build_core_density"):
            return "core"
        return None

    op = "-" if isinstance(subs[0].op, ast.Sub) else "+"
    P.append(f"/-- Split 1, per atom: `{ast.get_source_segment(src, subs[0])}`. -/")
    P.append(f"def robustResidual (residual core : K) : K := (residual {op} {Ex(src, {}, core_atom).e(subs[0].value)})\n")
    tp = _nested_fn(fn, "total_potential")
    accs = [n for n in ast.walk(tp) if isinstance(n, ast.AugAssign) and _is_name(n.target, "v_core")]
    if len(accs) != 1 or not isinstance(accs[0].op, ast.Add):
        raise Unsupported("v_core accumulation")
    kwseen = {}

    def pot_atom(n):
        if isinstance(n, ast.Call) and _is_name(n.func, "coulomb_potential"):
            kwseen.update({k.arg: ast.get_source_segment(src, k.value) for k in n.keywords})
            return "pot"
        return None

    body = Ex(src, {}, pot_atom).e(accs[0].value)
    P.append(f"/-- per atom: `v_core += coulomb_potential(points, …)`. -/")
    P.append(f"def robustCoreAccum (v_core pot : K) : K := (v_core + {body})")
    P.append("/-- keyword arguments of that `coulomb_potential` call. -/")
    P.append(f"def robustCoreKw : List (String × String) := [{', '.join('(' + _strs([k])[1:-1] + ', ' + _strs([v])[1:-1] + ')' for k, v in sorted(kwseen.items()))}]\n")
    rets = [n for n in _strip_doc(tp.body) if isinstance(n, ast.Return)]
    if len(rets) != 1:
        raise Unsupported("total_potential return")
    exr = Ex(src, {"v_core": "v_core", "v_bonding": "v_bonding", "v_residual": "v_residual"})
    P.append(f"/-- `{ast.get_source_segment(src, rets[0])}`. -/")
    P.append(f"def robustTotal (v_core v_bonding v_residual : K) : K := {exr.e(rets[0].value)}\n")
    cs = _calls(fn, "solve_poisson_bvp")
    if len(cs) != 1:
        raise Unsupported("solve_poisson_bvp call in solve_poisson_robust")
    P.append("/-- the numerical solve of the residual. -/")
    P.append(f"def robustCall : List String := {_strs(_call_args(cs[0], src))}")
    s2 = [a.arg for a in fn.args.args]
    d = dict(zip(s2[-len(fn.args.defaults):], fn.args.defaults))
    if "split2" not in d or not isinstance(d["split2"].value, bool):
        raise Unsupported("split2 default")
    P.append(f"def robustSplit2Default : Bool := {'true' if d['split2'].value else 'false'}\n")
    return P


# ----------------------------------------------------------------------------------------------
# interpolate_laplacian
# ----------------------------------------------------------------------------------------------
def _norm_einsum(text: str) -> str:
    return "".join(text.split())


def _free_names(node, bound: set[str]) -> set[str]:
    return {n.id for n in ast.walk(node) if isinstance(n, ast.Name) and isinstance(n.ctx, ast.Load) and n.id not in bound}


def _lap(tree, src) -> list[str]:
    """interpolate_laplacian: molecular fan-out, clamp, derivative orders, three components, degrees, return."""
    fn = _fn(tree, "interpolate_laplacian")
    P: list[str] = []
    if [a.arg for a in fn.args.args] != ["molgrid", "func_vals"] or fn.args.defaults:
        raise Unsupported("interpolate_laplacian parameters")
    body = _strip_doc(fn.body)
    # -- store guard -------------------------------------------------------------------------
    guards = [st for st in body if isinstance(st, ast.If) and ast.get_source_segment(src, st.test) == "molgrid.atgrids is None"]
    if len(guards) != 1 or len(guards[0].body) != 1 or not (isinstance(guards[0].body[0], ast.Raise) and isinstance(guards[0].body[0].exc, ast.Call)
                                                          and _is_name(guards[0].body[0].exc.func, "ValueError")) or guards[0].orelse:
        raise Unsupported("interpolate_laplacian: `if molgrid.atgrids is None: raise ValueError` guard")
    P.append("/-- `if molgrid.atgrids is None: raise ValueError(...)`: a molecular grid built with `store=False` is rejected. -/")
    P.append("def lapRequiresStore : Bool := true\n")
    # -- the AtomGrid -> one-atom MolGrid wrap ---------------------------------------------------
    wraps = [st for st in body if isinstance(st, ast.If) and ast.get_source_segment(src, st.test) == "isinstance(molgrid, AtomGrid)"]
    if len(wraps) != 1 or len(wraps[0].body) != 1 or wraps[0].orelse:
        raise Unsupported("interpolate_laplacian: AtomGrid wrap")
    wa = wraps[0].body[0]
    if not (isinstance(wa, ast.Assign) and _is_name(wa.targets[0], "molgrid") and isinstance(wa.value, ast.Call) and _is_name(wa.value.func, "MolGrid")):
        raise Unsupported("interpolate_laplacian: AtomGrid wrap is not molgrid = MolGrid(...)")
    wkw = {k.arg: ast.get_source_segment(src, k.value) for k in wa.value.keywords}
    if wa.value.args or set(wkw) != {"atnums", "atgrids", "aim_weights", "store"}:
        raise Unsupported("interpolate_laplacian: MolGrid(...) keywords of the AtomGrid wrap")
    P.append("/-- an `AtomGrid` argument is wrapped as `MolGrid(" + ", ".join(f"{k}={v}" for k, v in sorted(wkw.items())) + ")`. -/")
    P.append(f"def lapAtomWrap : List (String × String) := [{', '.join('(' + _strs([k])[1:-1] + ', ' + _strs([v])[1:-1] + ')' for k, v in sorted(wkw.items()))}]\n")
    # -- w_A * f ---------------------------------------------------------------------------------
    a = _one_assign(fn, "func_vals_atom")

    def watom(n):
        if _is_name(n, "func_vals"):
            return "f"
        if isinstance(n, ast.Attribute) and n.attr == "aim_weights" and _is_name(n.value, "molgrid"):
            return "w"
        return None

    P.append(f"/-- `{ast.get_source_segment(src, a)}`, per grid point. -/")
    P.append(f"def lapWeighted (f w : K) : K := {Ex(src, {}, watom).e(a.value)}\n")
    loops = [st for st in body if isinstance(st, ast.For) and _is_name(st.target, "i")]
    if len(loops) != 1 or ast.get_source_segment(src, loops[0].iter) != "range(len(molgrid.atcoords))":
        raise Unsupported("interpolate_laplacian: atom loop")
    loop = loops[0]

    def idx(name):
        cands = [st for st in loop.body if isinstance(st, ast.Assign) and _is_name(st.targets[0], name)]
        if len(cands) != 1:
            raise Unsupported(f"interpolate_laplacian: {name}")
        v = cands[0].value
        if not (isinstance(v, ast.Subscript) and isinstance(v.value, ast.Attribute) and v.value.attr == "indices" and _is_name(v.value.value, "molgrid")):
            raise Unsupported(f"{name} is not molgrid.indices[...]")
        n = v.slice
        if _is_name(n, "i"):
            return "i"
        if isinstance(n, ast.BinOp) and isinstance(n.op, ast.Add) and _is_name(n.left, "i") and isinstance(n.right, ast.Constant) and isinstance(n.right.value, int):
            return f"i + {n.right.value}"
        raise Unsupported(f"{name} index")

    P.append("/-- positions in `molgrid.indices` delimiting the slice of atom `i` (`start_index`, `final_index`). -/")
    P.append(f"def lapSliceStart (i : Nat) : Nat := {idx('start_index')}")
    P.append(f"def lapSliceEnd (i : Nat) : Nat := {idx('final_index')}\n")
    ag = [st for st in loop.body if isinstance(st, ast.Assign) and _is_name(st.targets[0], "atom_grid")]
    if len(ag) != 1 or ast.get_source_segment(src, ag[0].value) != "molgrid[i]":
        raise Unsupported("interpolate_laplacian: atom_grid = molgrid[i]")
    # -- the per-atom function -------------------------------------------------------------------
    defs = [st for st in loop.body if isinstance(st, ast.FunctionDef)]
    if len(defs) != 1 or defs[0].name != "interpolate_laplacian_atom_grid":
        raise Unsupported("interpolate_laplacian: nested def")
    af = defs[0]
    params = [x.arg for x in af.args.args]
    if params != ["points", "atom_grid", "cutoff", "start_index", "final_index"] or len(af.args.defaults) != 3:
        raise Unsupported(f"interpolate_laplacian_atom_grid parameters {params}")
    dcut, dstart, dfinal = af.args.defaults
    if not (isinstance(dcut, ast.Constant) and isinstance(dcut.value, float)):
        raise Unsupported("cutoff default")
    P.append(f"/-- default `cutoff = {ast.get_source_segment(src, dcut)}` of `interpolate_laplacian_atom_grid`. -/")
    P.append(f"def lapCutoffDefault : K := {_lit(ast.get_source_segment(src, dcut), dcut.value)}\n")
    stmts = _strip_doc(af.body)
    kinds: dict[str, tuple] = {}      # local name -> what it holds
    comp_ops: dict[str, list[str]] = {}
    comp_src: dict[str, list[str]] = {}
    order_of: dict[str, int] = {}
    einsum_of: dict[str, list[str]] = {}
    weighted: dict[str, bool] = {}
    ret = None
    clamp_seen = False

    def handle(st):
        nonlocal ret, clamp_seen
        if isinstance(st, ast.With):
            for x in st.body:
                handle(x)
            return
        seg = ast.get_source_segment(src, st)
        if isinstance(st, ast.Assign) and len(st.targets) == 1:
            t, v = st.targets[0], st.value
            if _is_name(t, "radial_comps_f"):
                if "".join(seg.split()) != "radial_comps_f=atom_grid.radial_component_splines(func_vals_atom[start_index:final_index])":
                    raise Unsupported("radial_comps_f: " + seg)
                kinds["radial_comps_f"] = ("splines",)
                return
            if isinstance(t, ast.Tuple) and [getattr(e, "id", None) for e in t.elts] == ["r_pts", "theta", "phi"]:
                if ast.get_source_segment(src, v) != "atom_grid.convert_cartesian_to_spherical(points).T":
                    raise Unsupported("spherical coordinates: " + seg)
                kinds.update({"r_pts": ("r",), "theta": ("theta",), "phi": ("phi",)})
                return
            if isinstance(t, ast.Name) and isinstance(v, ast.Call) and _np_call(v.func) == "array" and len(v.args) == 1 and isinstance(v.args[0], ast.ListComp):
                lc = v.args[0]
                g = lc.generators[0]
                if len(lc.generators) != 1 or g.ifs or not _is_name(g.target, "spline") or not _is_name(g.iter, "radial_comps_f") or "radial_comps_f" not in kinds:
                    raise Unsupported("spline evaluation: " + seg)
                c = lc.elt
                if not (isinstance(c, ast.Call) and _is_name(c.func, "spline") and not c.keywords and 1 <= len(c.args) <= 2 and _is_name(c.args[0], "r_pts")):
                    raise Unsupported("spline evaluation: " + seg)
                if "r_pts" not in kinds or not clamp_seen:
                    raise Unsupported("spline evaluated before the clamp of r_pts")
                k = 0
                if len(c.args) == 2:
                    if not (isinstance(c.args[1], ast.Constant) and isinstance(c.args[1].value, int) and not isinstance(c.args[1].value, bool) and c.args[1].value >= 0):
                        raise Unsupported("derivative order: " + seg)
                    k = c.args[1].value
                kinds[t.id] = ("values", k)
                return
            if _is_name(t, "r_sph_harm"):
                if "".join(ast.get_source_segment(src, v).split()) != "generate_real_spherical_harmonics(atom_grid.l_max//2,theta,phi)":
                    raise Unsupported("r_sph_harm: " + seg)
                kinds["r_sph_harm"] = ("harm",)
                return
            if _is_name(t, "degrees"):
                if not (isinstance(v, ast.Call) and _np_call(v.func) == "hstack" and len(v.args) == 1 and isinstance(v.args[0], ast.ListComp)):
                    raise Unsupported("degrees: " + seg)
                lc = v.args[0]
                g = lc.generators[0]
                if len(lc.generators) != 1 or g.ifs or not isinstance(g.target, ast.Name) or not (isinstance(g.iter, ast.Call) and _np_call(g.iter.func) == "arange" and len(g.iter.args) == 2):
                    raise Unsupported("degrees comprehension: " + seg)
                x = g.target.id
                e = lc.elt       # [value] * count
                if not (isinstance(e, ast.BinOp) and isinstance(e.op, ast.Mult) and isinstance(e.left, ast.List) and len(e.left.elts) == 1):
                    raise Unsupported("degrees element: " + seg)
                lo_, hi_ = _iexpr(g.iter.args[0], {}, "atom_grid"), _iexpr(g.iter.args[1], {}, "atom_grid")
                val = _iexpr(e.left.elts[0], {x: x}, "atom_grid")
                cnt = _iexpr(e.right, {x: x}, "atom_grid")
                kinds["degrees"] = ("degrees", lo_, hi_, x, val, cnt, seg)
                return
            if isinstance(t, ast.Name) and isinstance(v, ast.Call) and _np_call(v.func) == "einsum":
                if v.keywords or not isinstance(v.args[0], ast.Constant) or not isinstance(v.args[0].value, str):
                    raise Unsupported("einsum: " + seg)
                spec = _norm_einsum(v.args[0].value)
                ops_ = v.args[1:]
                if not all(isinstance(o, ast.Name) and o.id in kinds for o in ops_):
                    raise Unsupported("einsum operands: " + seg)
                ks = [kinds[o.id][0] for o in ops_]
                if spec == "ln,ln->n" and ks == ["values", "harm"]:
                    weighted[t.id] = False
                elif spec == "ln,l,ln->n" and ks == ["values", "degrees", "harm"]:
                    weighted[t.id] = True
                else:
                    raise Unsupported(f"einsum {spec} over {ks}: " + seg)
                order_of[t.id] = kinds[ops_[0].id][1]
                einsum_of[t.id] = _call_args(v, src)
                kinds[t.id] = ("component",)
                comp_ops[t.id] = []
                comp_src[t.id] = [seg]
                return
            if isinstance(t, ast.Subscript):
                raise Unsupported("masked assignment outside the clamp: " + seg)
        if isinstance(st, ast.If):
            # if np.any(r_pts < cutoff): r_pts[r_pts < cutoff] = cutoff
            if clamp_seen or st.orelse or len(st.body) != 1 or "r_pts" not in kinds:
                raise Unsupported("clamp: " + seg)
            tst, asg = st.test, st.body[0]
            if not (isinstance(tst, ast.Call) and _np_call(tst.func) == "any" and len(tst.args) == 1 and isinstance(asg, ast.Assign)
                    and isinstance(asg.targets[0], ast.Subscript) and _is_name(asg.targets[0].value, "r_pts")):
                raise Unsupported("clamp: " + seg)
            if ast.dump(tst.args[0]) != ast.dump(asg.targets[0].slice):
                raise Unsupported("clamp: the np.any test and the mask differ: " + seg)
            ex = Ex(src, {"r_pts": "r_pts", "cutoff": "cutoff"})
            P.append(f"/-- `{' '.join(seg.split())}`, per point. -/")
            P.append(f"def lapClamp (r_pts cutoff : K) : K := if {ex.cond(asg.targets[0].slice)} then {ex.e(asg.value)} else r_pts\n")
            clamp_seen = True
            return
        if isinstance(st, ast.AugAssign) and isinstance(st.target, ast.Name) and kinds.get(st.target.id, ("",))[0] == "component":
            op = {ast.Mult: "*", ast.Div: "/", ast.Add: "+", ast.Sub: "-"}.get(type(st.op))
            if op is None:
                raise Unsupported("component update: " + seg)
            ex = Ex(src, {"r_pts": "r_pts"})
            comp_ops[st.target.id].append(f"(c {op} {ex.e(st.value)})")
            comp_src[st.target.id].append(seg)
            return
        if isinstance(st, ast.Return):
            ret = st
            return
        raise Unsupported("interpolate_laplacian_atom_grid: statement " + ast.dump(st)[:160])

    for st in stmts:
        if ret is not None:
            raise Unsupported("statement after return")
        handle(st)
    if ret is None or not clamp_seen:
        raise Unsupported("interpolate_laplacian_atom_grid: no return / no clamp")
    comps = sorted(comp_ops, key=lambda k: list(kinds).index(k))
    if comps != ["first_component", "second_component", "third_component"] or "degrees" not in kinds:
        raise Unsupported(f"components {comps}")
    lean_name = {"first_component": "lapFirst", "second_component": "lapSecond", "third_component": "lapThird"}
    for cname in comps:
        L = lean_name[cname]
        P.append(f"/-- `{'`; `'.join(' '.join(x.split()) for x in comp_src[cname])}`:")
        P.append(f"derivative order the contracted spline values ask for, whether `degrees` enters the contraction, the contraction as written,")
        P.append(f"and what is done to the contracted value `c` afterwards (`r_pts` = the clamped radius of the point). -/")
        P.append(f"def {L}Order : Nat := {order_of[cname]}")
        P.append(f"def {L}Weighted : Bool := {'true' if weighted[cname] else 'false'}")
        P.append(f"def {L}Einsum : List String := {_strs(einsum_of[cname])}")
        P.append(f"def {L} (c r_pts : K) : K :=")
        for o in comp_ops[cname]:
            P.append(f"  let c : K := {o}")
        P.append("  c\n")
    _, lo_, hi_, x, val, cnt, seg = kinds["degrees"]
    P.append(f"/-- `{' '.join(seg.split())}`. -/")
    P.append(f"def lapDegrees (l_max : Nat) : List Int := (intRange {lo_} {hi_}).flatMap fun {x} => List.replicate ({cnt}).toNat {val}\n")
    exr = Ex(src, {c: c for c in comps})
    P.append(f"/-- `{ast.get_source_segment(src, ret)}`. -/")
    P.append(f"def lapReturn (first_component second_component third_component : K) : K := {exr.e(ret.value)}\n")
    # -- the list of per-atom callables and Python's closure rules --------------------------------
    apps = [st for st in loop.body if isinstance(st, ast.Expr) and isinstance(st.value, ast.Call) and isinstance(st.value.func, ast.Attribute)
            and st.value.func.attr == "append" and _is_name(st.value.func.value, "interpolate_funcs")]
    if len(apps) != 1 or len(apps[0].value.args) != 1 or not isinstance(apps[0].value.args[0], ast.Lambda):
        raise Unsupported("interpolate_funcs.append(lambda ...)")
    lam = apps[0].value.args[0]
    lparams = [x.arg for x in lam.args.args]
    ndef = len(lam.args.defaults)
    positional, defaulted = lparams[:len(lparams) - ndef], lparams[len(lparams) - ndef:]
    fn_alias = None        # a default argument that binds the per-atom function at definition time (`fn=interpolate_laplacian_atom_grid`)
    for nm, d in zip(defaulted, lam.args.defaults):
        if _is_name(d, nm):
            continue
        if _is_name(d, "interpolate_laplacian_atom_grid") and fn_alias is None:
            fn_alias = nm
            continue
        raise Unsupported(f"lambda default {nm}=...")
    c = lam.body
    if not (isinstance(c, ast.Call) and (_is_name(c.func, "interpolate_laplacian_atom_grid") or (fn_alias is not None and _is_name(c.func, fn_alias)))
            and not c.keywords and len(c.args) == 3 and len(positional) == 2
            and _is_name(c.args[0], positional[0]) and _is_name(c.args[1], "atom_grid") and _is_name(c.args[2], positional[1])):
        raise Unsupported("lambda body: " + ast.get_source_segment(src, lam))
    if fn_alias is not None and _is_name(c.func, "interpolate_laplacian_atom_grid"):
        fn_alias = None    # the alias exists but the call still goes through the free name
    loop_assigned = {"i", af.name} | {st.targets[0].id for st in loop.body if isinstance(st, ast.Assign) and isinstance(st.targets[0], ast.Name)}
    lam_late = _free_names(lam.body, set(lparams)) & loop_assigned            # looked up when the lambda is *called*: last iteration
    def_bound = set(params)
    def_late = _free_names(ast.Module(body=af.body, type_ignores=[]), def_bound) & loop_assigned
    for nm, d in zip(params[-3:], af.args.defaults):
        if nm in ("start_index", "final_index") and not _is_name(d, nm):
            raise Unsupported(f"default of {nm}")
    fn_late = af.name in lam_late
    slice_late = fn_late or bool({"start_index", "final_index"} & def_late)
    grid_late = "atom_grid" in lam_late
    P.append(f"/-- `{' '.join(ast.get_source_segment(src, apps[0]).split())}`.")
    P.append("Python looks a free name of a lambda / nested def up when it is *called*; the names bound at definition time are the")
    P.append(f"default arguments. Free loop-assigned names of the lambda: {sorted(lam_late)}; of the nested def: {sorted(def_late)}.")
    P.append("`lapSliceOwner i n`: the loop iteration whose `start_index:final_index` the term of atom `i` uses when the returned")
    P.append("callable is evaluated after a loop over `n` atoms; `lapGridOwner i n`: the iteration whose `atom_grid` it uses. -/")
    P.append(f"def lapSliceOwner (i n : Nat) : Nat := {'n - 1' if slice_late else 'i'}")
    P.append(f"def lapGridOwner (i n : Nat) : Nat := {'n - 1' if grid_late else 'i'}\n")
    # -- the sum -------------------------------------------------------------------------------------
    sm = _nested_fn(fn, "sum_of_interpolation_funcs")
    sp = [x.arg for x in sm.args.args]
    if sp != ["points", "cut_off"] or len(sm.args.defaults) != 1 or not isinstance(sm.args.defaults[0], ast.Constant) or not isinstance(sm.args.defaults[0].value, float):
        raise Unsupported("sum_of_interpolation_funcs parameters")
    d = sm.args.defaults[0]
    P.append(f"/-- default `cut_off = {ast.get_source_segment(src, d)}` of the returned callable. -/")
    P.append(f"def lapCutOffDefault : K := {_lit(ast.get_source_segment(src, d), d.value)}\n")
    b = _strip_doc(sm.body)
    ok = (len(b) == 3 and isinstance(b[0], ast.Assign) and _is_name(b[0].targets[0], "output")
          and ast.get_source_segment(src, b[0].value) == "interpolate_funcs[0](points, cut_off)"
          and isinstance(b[1], ast.For) and _is_name(b[1].target, "interpolate") and ast.get_source_segment(src, b[1].iter) == "interpolate_funcs[1:]"
          and len(b[1].body) == 1 and isinstance(b[1].body[0], ast.AugAssign) and isinstance(b[1].body[0].op, ast.Add)
          and _is_name(b[1].body[0].target, "output") and not b[1].orelse and isinstance(b[2], ast.Return) and _is_name(b[2].value, "output"))
    if not ok:
        raise Unsupported("sum_of_interpolation_funcs shape")
    step = b[1].body[0]

    def atom2(n):
        if isinstance(n, ast.Call) and _is_name(n.func, "interpolate") and [ast.get_source_segment(src, x) for x in n.args] == ["points", "cut_off"] and not n.keywords:
            return "v"
        return None

    P.append("/-- `output = interpolate_funcs[0](points, cut_off)`; `for …[1:]: output += interpolate(points, cut_off)`: one step of the sum. -/")
    P.append(f"def lapSumStep (output v : K) : K := (output + {Ex(src, {}, atom2).e(step.value)})\n")
    rets = [st for st in body if isinstance(st, ast.Return)]
    if len(rets) != 1 or not _is_name(rets[0].value, "sum_of_interpolation_funcs"):
        raise Unsupported("interpolate_laplacian return")
    return P


def translate(poisson_src: str, robust_src: str) -> str:
    t1, t2 = ast.parse(poisson_src), ast.parse(robust_src)
    parts = ["/-! ### `_solve_poisson_bvp_atomgrid` -/\n"] + _bvp(t1, poisson_src)
    parts += ["/-! ### `_solve_poisson_ivp_atomgrid` -/\n"] + _ivp(t1, poisson_src)
    parts += ["/-! ### `_interpolate_molgrid_helper` -/\n"] + _mol(t1, poisson_src)
    parts += ["/-! ### `solve_poisson_ivp`, `solve_poisson_bvp` (public wrappers) -/\n"]
    parts += _public(t1, poisson_src, "solve_poisson_ivp", "_solve_poisson_ivp_atomgrid", "ivp")
    parts += _public(t1, poisson_src, "solve_poisson_bvp", "_solve_poisson_bvp_atomgrid", "bvp")
    parts += ["/-! ### `interpolate_laplacian` -/\n"] + _lap(t1, poisson_src)
    parts += ["/-! ### `robust_poisson` -/\n"] + _robust(t2, robust_src)
    return "\n".join(parts)


def text() -> str:
    body = translate((SRC / "poisson.py").read_text(), (SRC / "robust_poisson.py").read_text())
    return (
        HEADER.format(name="poisson", source="src/grid/poisson.py, src/grid/robust_poisson.py (the radial problems handed to grid.ode, options, robust split)")
        + "import GridVerif.Model.Elem\n\nset_option linter.unusedVariables false\n\nnamespace GridVerif.Gen.Poisson\n\n"
        + "variable {K : Type} [Add K] [Sub K] [Mul K] [Div K] [Neg K] [NatCast K] [Elem K]\n"
        + "  [LT K] [LE K] [DecidableLT K] [DecidableLE K]\n\n"
        + "/-- `range(a, b)` over the integers. -/\n"
        + "def intRange (a b : Int) : List Int := (List.range (b - a).toNat).map fun (k : Nat) => a + (k : Int)\n\n"
        + body
        + "\nend GridVerif.Gen.Poisson\n"
    )


def generate():
    return write_if_changed("Poisson.lean", text())


if __name__ == "__main__":
    changed, diff = generate()
    print("changed" if changed else "unchanged")
    print(diff)

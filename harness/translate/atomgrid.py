"""Translator: grid/atomgrid.py (guards and array code of AtomGrid) -> Gen/AtomGrid.lean.

AST based, statement by statement.  Translated (each into one Lean `do` block in `Except Err`):

* `AtomGrid._find_degrees_for_radial_points`  -> `find_degrees_for_radial_points`
* `AtomGrid._generate_degree_from_radius`      -> `generate_degree_from_radius`
* `AtomGrid._input_type_check`                 -> `input_type_check`
* `AtomGrid.__init__` up to and including the call of `_generate_atomic_grid`
  (centre default, rotate guards, `sizes` taking precedence and going through
  `convert_angular_sizes_to_degrees`, the two `isinstance` guards, the `len(degrees) == 1`
  broadcast)                                   -> `init`
* `AtomGrid.from_pruned`                       -> `from_pruned`

Round 3 (statement by statement as well):

* `AtomGrid.get_shell_grid`                    -> `get_shell_grid` (index guard, `AngularGrid(degree=…)`, the
  rotation block with its seed expression and `pts.dot(rot_mt)`, the two scalings, the `r_sq` block, the two setters)
* `AtomGrid._generate_atomic_grid`             -> `generate_atomic_grid_loop` (the body of
  `for i, deg_i in enumerate(degrees)` as a function of the loop-carried variables `all_points`, `all_weights`,
  `indices`, `actual_degrees`) and `generate_atomic_grid` (length guard, initialisations, `pyForEnumerate` over that
  body, `np.vstack` / `np.hstack`, the returned tuple)
* `AtomGrid.from_preset`                       -> `from_preset` (default radial grid from
  `_DEFAULT_POWER_RTRANSFORM_PARAMS` with the angstrom -> bohr arithmetic, centre default, `_input_type_check`, the
  table reads `data[f"{atnum}_rad"]` / `data[f"{atnum}_npt"]`, the `if / elif / else` chain on `preset` / `atnum`
  with the shell-count comprehension or the sector lookup, and the constructor calls)
* the default value of every parameter of the translated functions -> `<function>_default_<parameter>`
* `warnings.warn(<message>, RuntimeWarning, stacklevel=2)` is the only accepted shape of a warning (it is dropped)

Typing context (Python has none; this is what the translator assumes and the correspondence
exercises): see `SIGS` — radial arrays are 1-D float arrays, degree/size sequences are lists or
arrays of non-negative integers (`SeqArg` also knows `None` and "anything else"), `rotate` is a
`RotArg` (int / NumPy integer / bool / other), `method` is one of the four lower-case method names
and is carried as the per-method environment `env` (a `method=method` or `method.lower()` argument
is `env`).  Given components (hand model, C12 / assembly loop): `convert_angular_sizes_to_degrees`,
`_get_degree_and_size(...)[0]`, `_generate_atomic_grid` + attribute assignments (inside `__init__`; the static method
itself is translated separately and proved equal to that component), `AngularGrid(degree=d, method=m)` (`angularGrid`),
`Rotation.random(random_state=s).as_matrix()` (`rRandomMatrix`), and for `from_preset` the `PresetWorld`: the module
constant `_DEFAULT_POWER_RTRANSFORM_PARAMS`, `scipy.constants.angstrom`, `scipy.constants.value("atomic unit of
length")`, `PowerRTransform(rmin, rmax).transform_1d_grid(UniformInteger(npt))`; the `.npz` tables are those of
`Gen/Presets.lean`.

The vocabulary is deliberately small (see `Tr.ex`, `Tr.stmt`); everything else raises
`Untranslatable`, which the check treats like a proof obligation that no longer holds.
`warnings.warn(...)` statements and exception messages carry no semantics and are dropped.
"""
import ast

from ..common import SRC
from .util import HEADER, write_if_changed


class Untranslatable(Exception):
    pass


def _fail(node, why):
    raise Untranslatable(f"atomgrid.py line {getattr(node, 'lineno', '?')}: {why}: {ast.unparse(node)[:160]}")


LEAN_TYPE = {
    "K": "K", "VecK": "List K", "VecNat": "List Nat", "OptVecNat": "Option (List Nat)", "OptVecK": "Option (List K)",
    "SeqArg": "SeqArg", "RotArg": "RotArg", "RGrid": "RGrid K", "Nat": "Nat", "Int": "Int", "Bool": "Bool",
    "NpArrNat": "NpArr Nat", "Grid": "Grid K", "Unit": "Unit",
    # round 3
    "Pts": "List (V3 K)", "M3": "M3 K", "AngGrid": "AngGrid K", "RNode": "K × K", "ListRNode": "List (K × K)",
    "SelfGrid": "Grid K", "ListPts": "List (List (V3 K))", "ListVecK": "List (List K)", "Preset": "Preset",
    "OptRGrid": "Option (RGrid K)", "PruneFile": "List Entry", "RadArr": "RadArr K", "Triple": "K × K × Nat",
    "UniformInteger": "UniformIntegerGrid", "String": "String",
}


def lean_type(t):
    if t.startswith("Tup:"):
        return " × ".join(lean_type(x) for x in t[4:].split(","))
    return LEAN_TYPE[t]


# python name -> (lean name, kind, [(param, type)], return type, uses env)
SIGS = {
    "_find_degrees_for_radial_points": ("find_degrees_for_radial_points", "staticmethod",
                                        [("radial_points", "VecK"), ("r_sectors", "VecK"), ("d_sectors", "VecNat")], "VecNat"),
    "_generate_degree_from_radius": ("generate_degree_from_radius", "staticmethod",
                                     [("rgrid", "RGrid"), ("radius", "K"), ("r_sectors", "VecK"), ("d_sectors", "OptVecNat"),
                                      ("method", "Method")], "VecNat"),
    "_input_type_check": ("input_type_check", "staticmethod", [("rgrid", "RGrid"), ("center", "VecK")], "Unit"),
    "__init__": ("init", "method",
                 [("rgrid", "RGrid"), ("degrees", "SeqArg"), ("*", None), ("sizes", "SeqArg"), ("center", "OptVecK"),
                  ("rotate", "RotArg"), ("method", "Method")], "Grid"),
    "from_pruned": ("from_pruned", "classmethod",
                    [("rgrid", "RGrid"), ("radius", "K"), ("r_sectors", "VecK"), ("d_sectors", "OptVecNat"), ("*", None),
                     ("s_sectors", "OptVecNat"), ("center", "OptVecK"), ("rotate", "RotArg"), ("method", "Method")], "Grid"),
    # round 3
    "get_shell_grid": ("get_shell_grid", "method", [("index", "Int"), ("r_sq", "Bool")], "AngGrid"),
    "_generate_atomic_grid": ("generate_atomic_grid", "staticmethod",
                              [("rgrid", "RGrid"), ("degrees", "VecNat"), ("rotate", "RotArg"), ("method", "Method")],
                              "Tup:Pts,VecK,VecNat,VecNat"),
    "from_preset": ("from_preset", "classmethod",
                    [("atnum", "Nat"), ("preset", "Preset"), ("rgrid", "OptRGrid"), ("center", "OptVecK"), ("rotate", "RotArg"),
                     ("method", "Method")], "Grid"),
}
ORDER = ["_find_degrees_for_radial_points", "_generate_degree_from_radius", "_input_type_check", "__init__", "from_pruned",
         "get_shell_grid", "_generate_atomic_grid", "from_preset"]
# element types of the lists a function starts empty (Python has no annotation for them)
LOCALS = {"_generate_atomic_grid": {"all_points": "ListPts", "all_weights": "ListVecK", "actual_degrees": "VecNat"}}
# functions that read the world of `from_preset` (module constants, SciPy constants, the default radial transform)
USES_WORLD = {"from_preset"}
# properties of AtomGrid read through `self.<name>` -> (attribute they must return, field of the model's Grid, type)
SELF_PROPS = {"degrees": ("self._degs", "degrees", "VecNat"), "rotate": ("self._rot", "rotate", "Nat"),
              "rgrid": ("self._rgrid", "rgrid", "ListRNode"), "method": ("self._method", None, "Method")}
ELEM = {"ListPts": "Pts", "ListVecK": "VecK", "VecNat": "Nat"}
ERRS = {"ValueError": "Err.valueError", "TypeError": "Err.typeError", "IndexError": "Err.indexError"}
# attribute assignments of __init__ after the call of _generate_atomic_grid (part of the hand-model component)
INIT_TAIL = {"self._size = self._weights.size", "self._basis = None", "self._kdtree = None", "self._method = method.lower()"}
CMP = {ast.Gt: ">", ast.GtE: "≥", ast.Lt: "<", ast.LtE: "≤", ast.Eq: "=", ast.NotEq: "≠"}


def _unparse1(node):
    s = ast.unparse(node).splitlines()[0]
    if not s.isascii():
        s = s.encode("ascii", "replace").decode()
    return s.replace("-/", "- /")


class Tr:
    """Translation of one function body."""

    def __init__(self, pyname, fn, defaults, props=frozenset()):
        self.pyname, self.fn = pyname, fn
        self.lean, self.kind, self.params, self.ret = SIGS[pyname]
        self.env = {n: (n, t) for n, t in self.params if t is not None}
        self.has_self = self.kind == "method" and pyname != "__init__"
        if self.has_self:
            self.env["self"] = ("self", "SelfGrid")
        self.uses_env = any(t == "Method" for _, t in self.params if t) or self.has_self
        self.uses_world = pyname in USES_WORLD
        self.defaults = defaults  # all functions: pyname -> {param: ast default}
        self.props = props        # properties of AtomGrid whose body is `return self._<attr>` as SELF_PROPS expects
        self.locals = LOCALS.get(pyname, {})
        self.mut = set()
        self.mut_declared = set()
        self.scopes = [set()]     # names bound by `let` in the open scopes (innermost last)
        self.aux = []             # auxiliary definitions (loop bodies), emitted before the function
        self.body_stmts = fn.body
        self.done = False

    # ---- helpers -------------------------------------------------------------
    def coerce(self, term, t, want, node):
        if t == want:
            return term
        if t == "IntLit":
            if want == "Nat":
                return term
            if want == "Int":
                return f"({term} : Int)"
            if want == "K":
                return f"(({term} : Nat) : K)"
        if t == "Nat" and want == "Int":
            return f"({term} : Int)"
        if t == "VecNat" and want == "SeqArg":
            return f"(SeqArg.seq {term})"
        if t == "VecNat" and want == "OptVecNat":
            return f"(some {term})"
        if t == "VecK" and want == "OptVecK":
            return f"(some {term})"
        if t == "SeqArg" and want == "VecNat":
            return f"(← {term}.asList)"
        if t == "OptVecNat" and want == "VecNat":
            return f"(← pyNotNone {term})"
        if t == "OptRGrid" and want == "RGrid":
            return f"(← pyNotNone {term})"
        if t == "RGrid" and want == "OptRGrid":
            return f"(some {_atom(term)})"
        if t == "RadArr" and want == "VecK":
            return f"{_atom(term)}.values"
        if t == "Nat" and want == "K":
            return f"(({term} : Nat) : K)"
        _fail(node, f"type {t} where {want} is expected")

    def is_method_arg(self, e):
        """`method` or `method.lower()`: the per-method environment."""
        if isinstance(e, ast.Name) and e.id == "method":
            return True
        if self.has_self and ast.unparse(e) == "self.method" and "method" in self.props:
            return True
        return (isinstance(e, ast.Call) and isinstance(e.func, ast.Attribute) and e.func.attr == "lower" and not e.args
                and not e.keywords and isinstance(e.func.value, ast.Name) and e.func.value.id == "method")

    def need_env(self, node):
        if not self.uses_env:
            _fail(node, "needs the angular method but the function has no `method` parameter")

    def need_world(self, node):
        if not self.uses_world:
            _fail(node, "reads a module / SciPy constant but the function is not declared to use the preset world")

    def as_int(self, term, t, node):
        """operand of integer arithmetic / a seed: RotArg counts with its integer value"""
        if t == "RotArg":
            return f"{_atom(term)}.val"
        return self.coerce(term, t, "Int", node)

    # ---- expressions -> (lean term, type) ---------------------------------------
    def ex(self, e):
        if isinstance(e, ast.Name):
            if e.id in self.env:
                term, t = self.env[e.id]
                if t == "Method":
                    _fail(e, "`method` used other than as a pass-through argument")
                return term, t
            _fail(e, "unknown name")
        if isinstance(e, ast.Constant):
            v = e.value
            if isinstance(v, bool) or v is None:
                _fail(e, "constant outside a supported test")
            if isinstance(v, int) and v >= 0:
                return str(v), "IntLit"
            if isinstance(v, float) and v == int(v) and v >= 0:
                return f"(({int(v)} : Nat) : K)", "K"
            _fail(e, "unsupported constant")
        if isinstance(e, ast.Attribute):
            src = ast.unparse(e)
            if src in self.env:  # self._rgrid, self._rot, self._center after their assignment
                return self.env[src]
            if src == "scipy.constants.angstrom":
                self.need_world(e)
                return "world.angstrom", "K"
            base, t = self.ex(e.value)
            if t == "SelfGrid" and e.attr in SELF_PROPS and e.attr in self.props and SELF_PROPS[e.attr][1] is not None:
                return f"self.{SELF_PROPS[e.attr][1]}", SELF_PROPS[e.attr][2]
            if t == "AngGrid" and e.attr in ("points", "weights", "degree"):
                return f"{_atom(base)}.{e.attr}", {"points": "Pts", "weights": "VecK", "degree": "Nat"}[e.attr]
            if t == "RNode" and e.attr in ("points", "weights"):  # a one-point OneDGrid: its single node / weight
                return f"{_atom(base)}.{1 if e.attr == 'points' else 2}", "K"
            if t == "OptRGrid":
                base, t = self.coerce(base, t, "RGrid", e), "RGrid"
            if t == "RGrid":
                if e.attr in ("points", "weights"):
                    return f"{_atom(base)}.{e.attr}", "VecK"
                if e.attr == "size":
                    return f"{_atom(base)}.size", "Nat"
                if e.attr == "domain":
                    return f"{_atom(base)}.domain", "OptPairK"
            if t == "VecK" and e.attr == "shape":
                return base, "ShapeOfVecK"
            _fail(e, "unsupported attribute")
        if isinstance(e, ast.Subscript):
            return self.subscript(e)
        if isinstance(e, ast.BinOp):
            return self.binop(e)
        if isinstance(e, ast.Compare):
            return self.compare(e)
        if isinstance(e, ast.BoolOp):
            return self.boolop(e)
        if isinstance(e, ast.UnaryOp) and isinstance(e.op, ast.Not):
            t, ty = self.ex(e.operand)
            if ty != "Bool":
                _fail(e, "`not` of a non-boolean")
            return f"!({t})", "Bool"
        if isinstance(e, ast.IfExp):
            return self.ifexp(e)
        if isinstance(e, ast.ListComp):
            return self.listcomp(e)
        if isinstance(e, ast.Tuple):
            parts = [self.ex(x) for x in e.elts]
            if any(t == "IntLit" for _, t in parts):
                _fail(e, "literal inside a tuple")
            return "(" + ", ".join(t for t, _ in parts) + ")", "Tup:" + ",".join(t for _, t in parts)
        if isinstance(e, ast.Call):
            act = self.action(e)
            if act is not None:
                term, t = act
                return f"(← {term})", t
            return self.pure_call(e)
        _fail(e, "unsupported expression")

    def pure(self, e):
        term, t = self.ex(e)
        if "←" in term:
            _fail(e, "expression with an effect where a pure one is required")
        return term, t

    def subscript(self, e):
        # AngularGrid._get_degree_and_size(...)[0]
        if isinstance(e.value, ast.Call) and ast.unparse(e.value.func) == "AngularGrid._get_degree_and_size":
            act = self.action(e)
            return f"(← {act[0]})", act[1]
        # _DEFAULT_POWER_RTRANSFORM_PARAMS[int(atnum)]
        if isinstance(e.value, ast.Name) and e.value.id == "_DEFAULT_POWER_RTRANSFORM_PARAMS" and e.value.id not in self.env:
            self.need_world(e)
            k, tk = self.pure(e.slice)
            return f"(← pyDictGet world.defaultParams {_atom(self.coerce(k, tk, 'Nat', e))})", "Triple"
        base, t = self.ex(e.value)
        if t == "PruneFile":  # data[f"{atnum}_rad"], data[f"{atnum}_npt"]
            sl = e.slice
            if not (isinstance(sl, ast.JoinedStr) and len(sl.values) == 2 and isinstance(sl.values[0], ast.FormattedValue)
                    and sl.values[0].conversion == -1 and sl.values[0].format_spec is None and isinstance(sl.values[1], ast.Constant)
                    and sl.values[1].value in ("_rad", "_npt")):
                _fail(e, 'key of the table file other than f"{atnum}_rad" / f"{atnum}_npt"')
            k, tk = self.pure(sl.values[0].value)
            k = _atom(self.coerce(k, tk, "Nat", e))
            if sl.values[1].value == "_rad":
                self.need_world(e)
                return f"(← pruneRad world.toK {_atom(base)} {k})", "RadArr"
            return f"(← pruneNpt {_atom(base)} {k})", "VecNat"
        if t == "VecNat":
            idx, ti = self.ex(e.slice)
            if ti == "VecNat":
                return f"(← npTake {base} {idx})", "VecNat"
            if ti in ("Nat", "IntLit"):
                return f"(← npGetItem {_atom(base)} {_atom(idx)})", "Nat"
            if ti == "Int":
                return f"(← pyItem {_atom(base)} {_atom(idx)})", "Nat"
            _fail(e, "integer array indexed by something else than an integer or an integer array")
        if t in ("ListRNode", "RGrid", "OptRGrid"):  # rgrid[i]: the one-point grid (node, weight)
            idx, ti = self.ex(e.slice)
            if ti not in ("Nat", "Int"):
                _fail(e, "radial grid indexed by something else than an integer")
            if t != "ListRNode":
                base = f"{_atom(self.coerce(base, t, 'RGrid', e))}.nodes"
            return f"(← pyItem {_atom(base)} {_atom(self.coerce(idx, ti, 'Int', e))})", "RNode"
        if t == "PairK" and isinstance(e.slice, ast.Constant) and e.slice.value in (0, 1):
            return f"{base}.{e.slice.value + 1}", "K"
        _fail(e, "unsupported subscript")

    def binop(self, e):
        sym = {ast.Add: "+", ast.Sub: "-", ast.Mult: "*", ast.Pow: "^", ast.Div: "/", ast.MatMult: "@"}.get(type(e.op))
        if sym is None:
            _fail(e, "unsupported operator")
        if sym == "@":
            l, tl = self.ex(e.left)
            r, tr = self.ex(e.right)
            if (tl, tr) == ("Pts", "M3"):
                return f"npMatMul {_atom(l)} {_atom(r)}", "Pts"
            _fail(e, f"matrix product of {tl} and {tr}")
        # np.ones(n, dtype=int) * xs
        if sym == "*" and isinstance(e.left, ast.Call) and ast.unparse(e.left.func) == "np.ones":
            c = e.left
            if len(c.args) != 1 or [(k.arg, ast.unparse(k.value)) for k in c.keywords] != [("dtype", "int")]:
                _fail(e, "np.ones call")
            n, tn = self.ex(c.args[0])
            xs, tx = self.ex(e.right)
            return f"(← npOnesMul {self.coerce(n, tn, 'Nat', e)} {self.coerce(xs, tx, 'VecNat', e)})", "VecNat"
        l, tl = self.ex(e.left)
        r, tr = self.ex(e.right)
        if tl == "VecK" and tr == "K" and sym == "*":
            return f"npMulScalar {_atom(l)} {_atom(r)}", "VecK"
        if tl == "Pts" and tr == "K" and sym == "*":
            return f"npMulRows {_atom(l)} {_atom(r)}", "Pts"
        if tl == "K" and tr == "IntLit" and sym == "^":
            return f"npow {_atom(l)} {r}", "K"
        ints = ("IntLit", "Nat", "Int")
        if "RotArg" in (tl, tr) and {tl, tr} <= set(ints) | {"RotArg"} and sym in "+-*":
            return f"{self.as_int(l, tl, e)} {sym} {self.as_int(r, tr, e)}", "Int"
        if tl in ("IntLit", "Nat") and tr in ("IntLit", "Nat") and "Nat" in (tl, tr) and sym in "+*":
            return f"{l} {sym} {r}", "Nat"
        if tl in ints and tr in ints:
            if sym == "/":
                _fail(e, "true division of integers")
            if sym == "^":
                if tr != "IntLit":
                    _fail(e, "non-literal exponent")
                return f"{self.coerce(l, tl, 'Int', e)} ^ {r}", "Int"
            return f"{self.coerce(l, tl, 'Int', e)} {sym} {self.coerce(r, tr, 'Int', e)}", "Int"
        if tl in ("K", "IntLit") and tr in ("K", "IntLit") and "K" in (tl, tr) and sym != "^":
            return f"{_atom(self.coerce(l, tl, 'K', e))} {sym} {_atom(self.coerce(r, tr, 'K', e))}", "K"
        _fail(e, f"operator on {tl} and {tr}")

    def compare(self, e):
        ops, terms = e.ops, [e.left] + e.comparators
        # identity tests
        if len(ops) == 1 and isinstance(ops[0], (ast.Is, ast.IsNot)):
            neg = isinstance(ops[0], ast.IsNot)
            c = terms[1]
            x, t = self.pure(terms[0])
            if isinstance(c, ast.Constant) and c.value is None:
                if t in ("OptVecNat", "OptVecK", "OptPairK"):
                    return f"{x}.isSome" if neg else f"{x}.isNone", "Bool"
                if t == "SeqArg":
                    return f"{x}.isNotNone" if neg else f"!({x}.isNotNone)", "Bool"
            if isinstance(c, ast.Constant) and c.value is False and t == "RotArg":
                return f"{x}.isNotFalse" if neg else f"!({x}.isNotFalse)", "Bool"
            if isinstance(c, ast.Constant) and c.value is None and t == "OptRGrid":
                return f"{x}.isSome" if neg else f"{x}.isNone", "Bool"
            if isinstance(c, ast.Constant) and c.value is True and t == "Bool":
                return f"!({x})" if neg else x, "Bool"
            _fail(e, "unsupported identity test")
        # membership tests
        if len(ops) == 1 and isinstance(ops[0], (ast.In, ast.NotIn)):
            neg = isinstance(ops[0], ast.NotIn)
            x, t = self.pure(terms[0])
            c = terms[1]
            if isinstance(c, ast.Name) and c.id == "_DEFAULT_POWER_RTRANSFORM_PARAMS" and c.id not in self.env and t == "Nat":
                self.need_world(e)
                r = f"pyDictContains world.defaultParams {_atom(x)}"
            elif t == "Preset" and isinstance(c, (ast.List, ast.Tuple)) and c.elts and all(
                    isinstance(v, ast.Constant) and isinstance(v.value, str) for v in c.elts):
                r = "[" + ", ".join(_preset(v) for v in c.elts) + f"].contains {x}"
            else:
                _fail(e, "unsupported membership test")
            return (f"!({r})" if neg else r), "Bool"
        if len(ops) == 1 and isinstance(ops[0], (ast.Eq, ast.NotEq)):
            c = terms[1]
            if isinstance(c, ast.Constant) and isinstance(c.value, str):
                x, t = self.pure(terms[0])
                if t != "Preset":
                    _fail(e, "comparison with a string of something else than the preset name")
                r = f"({x} == {_preset(c)})"
                return (f"!{r}" if isinstance(ops[0], ast.NotEq) else r), "Bool"
        if any(type(o) not in CMP for o in ops):
            _fail(e, "unsupported comparison")
        # center.shape != (3,)
        if len(ops) == 1:
            x, t = self.ex(terms[0])
            if t == "ShapeOfVecK":
                c = terms[1]
                if not (isinstance(c, ast.Tuple) and len(c.elts) == 1 and isinstance(c.elts[0], ast.Constant)
                        and isinstance(c.elts[0].value, int) and isinstance(ops[0], (ast.Eq, ast.NotEq))):
                    _fail(e, "shape comparison")
                return f"decide ({x}.length {CMP[type(ops[0])]} {c.elts[0].value})", "Bool"
        vals = [self.ex(t) for t in terms]
        tys = {t for _, t in vals}
        if "RotArg" in tys:
            vals = [(f"{v}.val", "Int") if t == "RotArg" else (v, t) for v, t in vals]
            tys = {t for _, t in vals}
        if tys <= {"IntLit", "Nat", "Int"}:
            want = "Nat" if tys <= {"IntLit", "Nat"} else "Int"
        elif tys <= {"IntLit", "K"}:
            want = "K"
        else:
            _fail(e, f"comparison of {sorted(tys)}")
        cv = [self.coerce(v, t, want, e) for v, t in vals]
        if want == "Nat" and all(t == "IntLit" for _, t in vals):
            _fail(e, "comparison of literals")
        if want == "Nat":
            cv = [f"({v} : Nat)" if t == "IntLit" else v for v, (_, t) in zip(cv, vals)]
        parts = [f"{cv[i]} {CMP[type(op)]} {cv[i + 1]}" for i, op in enumerate(ops)]
        return "decide (" + " ∧ ".join(parts) + ")", "Bool"

    def boolop(self, e):
        sym = " && " if isinstance(e.op, ast.And) else " || "
        first = e.values[0]
        # `X is not None and <test reading X>`: the second operand sees the unwrapped value
        if (isinstance(e.op, ast.And) and len(e.values) == 2 and isinstance(first, ast.Compare) and len(first.ops) == 1
                and isinstance(first.ops[0], ast.IsNot) and isinstance(first.comparators[0], ast.Constant)
                and first.comparators[0].value is None):
            x, t = self.pure(first.left)
            if t == "OptPairK":
                key = ast.unparse(first.left)
                saved = self.env.get(key)
                self.env[key] = ("v", "PairK")
                try:
                    rest, tr = self.pure(e.values[1])
                finally:
                    if saved is None:
                        del self.env[key]
                    else:
                        self.env[key] = saved
                if tr != "Bool":
                    _fail(e, "non-boolean operand")
                return f"(match {x} with | some v => {rest} | none => false)", "Bool"
        out = []
        for k, v in enumerate(e.values):
            t, ty = (self.ex(v) if k == 0 else self.pure(v))  # later operands are short-circuited: must be pure
            if ty != "Bool":
                _fail(v, "non-boolean operand")
            out.append(_atom(t))
        return sym.join(out), "Bool"

    def ifexp(self, e):
        # `A if x is None else f(x)` with x Option-typed
        t = e.test
        if not (isinstance(t, ast.Compare) and len(t.ops) == 1 and isinstance(t.ops[0], (ast.Is, ast.IsNot))
                and isinstance(t.comparators[0], ast.Constant) and t.comparators[0].value is None and isinstance(t.left, ast.Name)):
            _fail(e, "conditional expression other than `A if x is None else B`")
        name = t.left.id
        x, tx = self.pure(t.left)
        inner = {"OptVecK": "VecK", "OptVecNat": "VecNat"}.get(tx)
        if inner is None:
            _fail(e, "conditional expression on a non-optional")
        none_e, some_e = (e.body, e.orelse) if isinstance(t.ops[0], ast.Is) else (e.orelse, e.body)
        a, ta = self.pure(none_e)
        saved = self.env[name]
        self.env[name] = ("v", inner)
        try:
            b, tb = self.pure(some_e)
        finally:
            self.env[name] = saved
        if ta != tb:
            _fail(e, f"branches of types {ta} and {tb}")
        return f"(match {x} with | none => {a} | some v => {b})", ta

    def pure_call(self, e):
        f = ast.unparse(e.func)
        kw = {k.arg: k.value for k in e.keywords}
        if f == "isinstance" and len(e.args) == 2 and not kw:
            x, t = self.pure(e.args[0])
            c = e.args[1]
            names = sorted(ast.unparse(v) for v in c.elts) if isinstance(c, ast.Tuple) else [ast.unparse(c)]
            if t == "RGrid" and names == ["OneDGrid"]:
                return f"{x}.isOneDGrid", "Bool"
            if t == "SeqArg" and names == ["list", "np.ndarray"]:
                return f"{x}.isSeq", "Bool"
            if t == "RotArg" and names == ["int", "np.integer"]:
                return f"{x}.isIntOrNpInteger", "Bool"
            if t == "RotArg" and names == ["int"]:
                return f"{x}.isInt", "Bool"
            _fail(e, "unsupported isinstance test")
        if f == "len" and len(e.args) == 1 and not kw:
            x, t = self.ex(e.args[0])
            if t in ("VecK", "VecNat", "Pts"):
                return f"{_atom(x)}.length", "Nat"
            if t == "RadArr":
                return f"{_atom(x)}.len", "Nat"
            if t == "NpArrNat":
                return f"(← {x}.len)", "Nat"
            if t == "SeqArg":
                return f"(← {x}.asList).length", "Nat"
            _fail(e, "len of an unsupported value")
        if f == "np.array" and len(e.args) == 1 and not kw:
            if isinstance(e.args[0], ast.ListComp):
                return self.listcomp(e.args[0])
            x, t = self.ex(e.args[0])
            if t == "VecK":
                return x, "VecK"
            if t == "OptVecNat":
                return f"npArrayOpt {_atom(x)}", "NpArrNat"
            _fail(e, "np.array of an unsupported value")
        if f == "np.asarray" and len(e.args) == 1 and {k: ast.unparse(v) for k, v in kw.items()} == {"dtype": "float"}:
            x, t = self.ex(e.args[0])
            if t == "VecK":
                return x, "VecK"
            _fail(e, "np.asarray of an unsupported value")
        if f == "np.zeros" and len(e.args) == 1 and {k: ast.unparse(v) for k, v in kw.items()} == {"dtype": "float"}:
            n, t = self.ex(e.args[0])
            return f"npZeros {self.coerce(n, t, 'Nat', e)}", "VecK"
        if f == "np.zeros" and len(e.args) == 1 and {k: ast.unparse(v) for k, v in kw.items()} == {"dtype": "int"}:
            n, t = self.ex(e.args[0])
            return f"npZerosInt {_atom(self.coerce(n, t, 'Nat', e))}", "VecNat"
        if f in ("np.vstack", "np.hstack") and len(e.args) == 1 and not kw:
            x, t = self.pure(e.args[0])
            if (f, t) == ("np.vstack", "ListPts"):
                return f"(← npVstack {_atom(x)})", "Pts"
            if (f, t) == ("np.hstack", "ListVecK"):
                return f"(← npHstack {_atom(x)})", "VecK"
            _fail(e, f"{f} of an unsupported value")
        if f == "int" and len(e.args) == 1 and not kw:
            x, t = self.ex(e.args[0])
            if t == "Nat":
                return x, "Nat"
            _fail(e, "int() of something else than a natural number")
        if isinstance(e.func, ast.Attribute) and e.func.attr == "copy" and not e.args and not kw:
            x, t = self.ex(e.func.value)
            if t in ("Pts", "VecK"):  # a fresh array with the same entries
                return x, t
            _fail(e, ".copy() of an unsupported value")
        if isinstance(e.func, ast.Attribute) and e.func.attr == "dot" and len(e.args) == 1 and not kw:
            x, t = self.ex(e.func.value)
            m, tm = self.ex(e.args[0])
            if (t, tm) == ("Pts", "M3"):
                return f"npMatMul {_atom(x)} {_atom(m)}", "Pts"
            _fail(e, ".dot of unsupported values")
        # R.random(random_state=<seed>).as_matrix()
        if (isinstance(e.func, ast.Attribute) and e.func.attr == "as_matrix" and not e.args and not kw
                and isinstance(e.func.value, ast.Call) and ast.unparse(e.func.value.func) == "R.random"):
            c = e.func.value
            if c.args or [k.arg for k in c.keywords] != ["random_state"]:
                _fail(e, "`R.random(random_state=…).as_matrix()` expected")
            self.need_env(e)
            sd, ts = self.pure(c.keywords[0].value)
            return f"(← rRandomMatrix env {_atom(self.as_int(sd, ts, e))})", "M3"
        if f == "AngularGrid":
            if e.args or set(kw) != {"degree", "method"} or not self.is_method_arg(kw["method"]):
                _fail(e, "`AngularGrid(degree=…, method=<the method>)` expected")
            self.need_env(e)
            d, td = self.pure(kw["degree"])
            return f"(← angularGrid env {_atom(self.coerce(d, td, 'Nat', e))})", "AngGrid"
        if f == "scipy.constants.value" and len(e.args) == 1 and not kw:
            if not (isinstance(e.args[0], ast.Constant) and e.args[0].value == "atomic unit of length"):
                _fail(e, "SciPy constant other than 'atomic unit of length'")
            self.need_world(e)
            return "world.atomicUnitOfLength", "K"
        if f == "UniformInteger" and len(e.args) == 1 and not kw:
            n, t = self.pure(e.args[0])
            return f"UniformIntegerGrid.mk {_atom(self.coerce(n, t, 'Nat', e))}", "UniformInteger"
        # PowerRTransform(rmin, rmax).transform_1d_grid(onedgrid)
        if (isinstance(e.func, ast.Attribute) and e.func.attr == "transform_1d_grid" and len(e.args) == 1 and not kw
                and isinstance(e.func.value, ast.Call) and ast.unparse(e.func.value.func) == "PowerRTransform"):
            c = e.func.value
            if len(c.args) != 2 or c.keywords:
                _fail(e, "`PowerRTransform(rmin, rmax)` expected")
            self.need_world(e)
            a, ta = self.pure(c.args[0])
            b, tb = self.pure(c.args[1])
            g, tg = self.pure(e.args[0])
            if (ta, tb, tg) != ("K", "K", "UniformInteger"):
                _fail(e, "argument types of the default radial grid")
            return f"world.powerTransformGrid {_atom(a)} {_atom(b)} {_atom(g)}", "RGrid"
        # np.load(files("grid.data.prune_grid").joinpath(f"prune_grid_{preset}.npz"))
        if f == "np.load" and len(e.args) == 1 and not kw:
            a = e.args[0]
            ok = (isinstance(a, ast.Call) and isinstance(a.func, ast.Attribute) and a.func.attr == "joinpath" and len(a.args) == 1
                  and not a.keywords and ast.unparse(a.func.value) == "files('grid.data.prune_grid')"
                  and isinstance(a.args[0], ast.JoinedStr) and len(a.args[0].values) == 3
                  and isinstance(a.args[0].values[0], ast.Constant) and a.args[0].values[0].value == "prune_grid_"
                  and isinstance(a.args[0].values[1], ast.FormattedValue) and a.args[0].values[1].conversion == -1
                  and a.args[0].values[1].format_spec is None
                  and isinstance(a.args[0].values[2], ast.Constant) and a.args[0].values[2].value == ".npz")
            if not ok:
                _fail(e, "np.load of something else than the table file of the preset")
            x, t = self.pure(a.args[0].values[1].value)
            if t != "Preset":
                _fail(e, "table file of something else than the preset")
            return f"npLoadPruneGrid {_atom(x)}", "PruneFile"
        if f == "np.min" and len(e.args) == 1 and not kw:
            x, t = self.ex(e.args[0])
            if t == "VecK":
                return f"(← npMin {_atom(x)})", "K"
            _fail(e, "np.min of an unsupported value")
        if f == "np.sum" and len(e.args) == 1 and {k: ast.unparse(v) for k, v in kw.items()} == {"axis": "1"}:
            c = e.args[0]
            if (isinstance(c, ast.Compare) and len(c.ops) == 1 and type(c.ops[0]) in (ast.Gt, ast.GtE, ast.Lt, ast.LtE)
                    and isinstance(c.left, ast.Subscript) and isinstance(c.comparators[0], ast.Subscript)):
                a, ta = self.pure(c.left.value)
                b, tb = self.pure(c.comparators[0].value)
                if ast.unparse(c.left.slice) == "(:, None)" or ast.unparse(c.left) == ast.unparse(c.left.value) + "[:, None]":
                    if ast.unparse(c.comparators[0]) == ast.unparse(c.comparators[0].value) + "[None, :]" and ta == tb == "VecK":
                        return f"npCountAxis1 (fun x y => decide (x {CMP[type(c.ops[0])]} y)) {_atom(a)} {_atom(b)}", "VecNat"
            _fail(e, "np.sum of something else than `a[:, None] <cmp> b[None, :]` along axis 1")
        _fail(e, "unsupported call")

    def listcomp2(self, lc):
        """`[z[i] for i in range(len(x)) for _ in range(y[i])]`"""
        g1, g2 = lc.generators
        if any(g.ifs or g.is_async or not isinstance(g.target, ast.Name) for g in (g1, g2)):
            _fail(lc, "unsupported comprehension")
        i, j = g1.target.id, g2.target.id
        if i in self.env or j in self.env or i == j:
            _fail(lc, "comprehension variable shadows a name")
        it1 = g1.iter
        if not (isinstance(it1, ast.Call) and ast.unparse(it1.func) == "range" and len(it1.args) == 1 and not it1.keywords):
            _fail(lc, "outer iteration is not range(n)")
        n, tn = self.pure(it1.args[0])
        it2 = g2.iter
        if not (isinstance(it2, ast.Call) and ast.unparse(it2.func) == "range" and len(it2.args) == 1 and not it2.keywords
                and isinstance(it2.args[0], ast.Subscript) and isinstance(it2.args[0].slice, ast.Name) and it2.args[0].slice.id == i):
            _fail(lc, "inner iteration is not range(y[i])")
        y, ty = self.pure(it2.args[0].value)
        if ty != "RadArr":
            _fail(lc, "inner iteration count is not an entry of the table's `rad`")
        el = lc.elt
        if not (isinstance(el, ast.Subscript) and isinstance(el.slice, ast.Name) and el.slice.id == i):
            _fail(lc, "comprehension element is not z[i]")
        z, tz = self.pure(el.value)
        if tz != "VecNat":
            _fail(lc, "comprehension element is not an entry of an integer array")
        return (f"(← pyFlatMapM (List.range {_atom(self.coerce(n, tn, 'Nat', lc))}) (fun {i} => pyRangeOfItem {_atom(y)} {i}) "
                f"(fun {i} _ => npGetItem {_atom(z)} {i}))"), "VecNat"

    def listcomp(self, lc):
        if len(lc.generators) == 2:
            return self.listcomp2(lc)
        if len(lc.generators) != 1 or lc.generators[0].ifs or lc.generators[0].is_async or not isinstance(lc.generators[0].target, ast.Name):
            _fail(lc, "unsupported comprehension")
        g = lc.generators[0]
        xs, t = self.ex(g.iter)
        if t == "NpArrNat":
            xs = f"(← {xs}.iter)"
        elif t != "VecNat":
            _fail(lc, "comprehension over an unsupported value")
        var = g.target.id
        saved = self.env.get(var)
        self.env[var] = (var, "Nat")
        try:
            act = self.action(lc.elt)
        finally:
            if saved is None:
                del self.env[var]
            else:
                self.env[var] = saved
        if act is None or act[1] != "Nat" or "←" in act[0]:
            _fail(lc, "comprehension element is not a supported call returning an integer")
        return f"(← {xs}.mapM fun {var} => {act[0]})", "VecNat"

    # ---- calls with an effect -> (Except-valued lean term, result type) or None ----------
    def action(self, e):
        sub0 = False
        if isinstance(e, ast.Subscript):
            if not (isinstance(e.slice, ast.Constant) and e.slice.value == 0):
                _fail(e, "only `[0]` (the degree) of `_get_degree_and_size` is supported")
            e, sub0 = e.value, True
        if not isinstance(e, ast.Call):
            return None
        f = ast.unparse(e.func)
        kw = {k.arg: k.value for k in e.keywords}
        if None in kw or any(isinstance(a, ast.Starred) for a in e.args):
            _fail(e, "star arguments")
        if f == "AngularGrid._get_degree_and_size":
            if not sub0 or e.args or set(kw) != {"degree", "size", "method"} or not self.is_method_arg(kw["method"]):
                _fail(e, "`AngularGrid._get_degree_and_size(degree=…, size=…, method=method)[0]` expected")
            self.need_env(e)
            opts = []
            for k in ("degree", "size"):
                v = kw[k]
                if isinstance(v, ast.Constant) and v.value is None:
                    opts.append("none")
                else:
                    t, ty = self.pure(v)
                    opts.append(f"(some {self.coerce(t, ty, 'Nat', v)})")
            return f"getDegreeAndSize0 env {opts[0]} {opts[1]}", "Nat"
        if sub0:
            _fail(e, "subscript of a call")
        if f == "AngularGrid.convert_angular_sizes_to_degrees":
            args = list(e.args)
            m = kw.get("method", args[1] if len(args) == 2 else None)
            if len(args) not in (1, 2) or (len(args) == 2 and kw) or (len(args) == 1 and set(kw) != {"method"}) \
                    or m is None or not self.is_method_arg(m):
                _fail(e, "`convert_angular_sizes_to_degrees(sizes, method)` expected")
            self.need_env(e)
            x, t = self.ex(args[0])
            return f"convertAngularSizesToDegrees env {_atom(self.coerce(x, t, 'VecNat', e))}", "VecNat"
        # sibling methods / the constructor
        target = None
        if f in ("cls", "AtomGrid"):
            target = "__init__"
        elif isinstance(e.func, ast.Attribute) and isinstance(e.func.value, ast.Name) and e.func.value.id in ("cls", "self", "AtomGrid"):
            if e.func.attr == "_generate_atomic_grid" and self.pyname == "__init__":
                # together with the attribute assignments that follow: the hand-model component `generateAtomicGrid`
                return self.generate_call(e, kw)
            if e.func.attr in SIGS and e.func.attr != "__init__":
                target = e.func.attr
        if target is None:
            return None
        lean, _, params, ret = SIGS[target]
        names = [n for n, t in params if t is not None]
        star = [n for n, _ in params].index("*") if ("*", None) in params else len(params)
        positional = [n for n, _ in params[:star]]
        if len(e.args) > len(positional):
            _fail(e, "too many positional arguments")
        bound = dict(zip(positional, e.args))
        for k, v in kw.items():
            if k not in names or k in bound:
                _fail(e, f"unexpected / duplicate argument {k}")
            bound[k] = v
        out = []
        uses_env = any(t == "Method" for _, t in params if t)
        for n, t in params:
            if t is None:
                continue
            v = bound.get(n, self.defaults[target].get(n))
            if v is None:
                _fail(e, f"argument {n} missing and without default")
            if t == "Method":
                if n not in bound or not self.is_method_arg(v):
                    _fail(e, "the angular method is not passed through as `method`")
                self.need_env(e)
                continue
            out.append(self.arg(v, t))
        return f"{lean} " + ("env " if uses_env else "") + " ".join(out), ret

    def arg(self, v, want):
        """argument expression (or default value) for a parameter of type `want`"""
        if isinstance(v, ast.Constant) and v.value is None:
            if want == "SeqArg":
                return "SeqArg.none"
            if want in ("OptVecNat", "OptVecK", "OptRGrid"):
                return "none"
            _fail(v, f"None for a parameter of type {want}")
        if isinstance(v, ast.Constant) and isinstance(v.value, bool) and want == "Bool":
            return "true" if v.value else "false"
        if isinstance(v, ast.Constant) and isinstance(v.value, str) and want == "Method":
            return '"' + v.value.replace('"', "") + '"'
        if isinstance(v, ast.List) and want == "SeqArg" and all(isinstance(x, ast.Constant) and isinstance(x.value, int)
                                                                 and not isinstance(x.value, bool) and x.value >= 0 for x in v.elts):
            return "(SeqArg.seq [" + ", ".join(str(x.value) for x in v.elts) + "])"
        if isinstance(v, ast.Constant) and isinstance(v.value, int) and not isinstance(v.value, bool) and want == "RotArg":
            return f"(RotArg.int {v.value})"
        t, ty = self.ex(v)
        return _atom(self.coerce(t, ty, want, v))

    def generate_call(self, e, kw):
        """`self._generate_atomic_grid(self._rgrid, degrees, rotate=self._rot, method=method.lower())`"""
        if len(e.args) != 2 or set(kw) != {"rotate", "method"} or not self.is_method_arg(kw["method"]):
            _fail(e, "`_generate_atomic_grid(rgrid, degrees, rotate=…, method=…)` expected")
        self.need_env(e)
        rg, t1 = self.pure(e.args[0])
        dg, t2 = self.ex(e.args[1])
        rot, t3 = self.pure(kw["rotate"])
        if t1 != "RGrid" or t3 != "RotArg":
            _fail(e, "argument types of _generate_atomic_grid")
        if "self._center" not in self.env or self.env["self._center"][1] != "VecK":
            _fail(e, "self._center is not assigned before the grid is generated")
        return f"generateAtomicGrid env {rg} {_atom(self.coerce(dg, t2, 'VecNat', e))} {rot} {self.env['self._center'][0]}", "Grid"

    # ---- statements ---------------------------------------------------------------
    def block(self, stmts, ind, top=False, tail=False):
        """`top`: the function's own statement list; `tail`: a branch in tail position (it must end the function)"""
        out = []
        for k, s in enumerate(stmts):
            if self.done:
                if not (top and self.pyname == "__init__" and ast.unparse(s) in INIT_TAIL):
                    _fail(s, "statement after the result was produced")
                continue
            last = k == len(stmts) - 1
            out += self.stmt(s, ind, top, tail=(top or tail) and last and self.ret != "Unit")
        if tail and not self.done:
            _fail(stmts[-1], "a branch in tail position does not end in return / raise")
        return out

    def scoped(self, stmts, ind, tail=False):
        """a branch: names first bound inside it are local to it"""
        self.scopes.append(set())
        try:
            return self.block(stmts, ind, tail=tail)
        finally:
            for n in self.scopes.pop():
                self.env.pop(n, None)

    def assign_name(self, name, t, ty, s, pad, ann=None):
        """`name = <t : ty>` -> the Lean statement"""
        colon = f" : {lean_type(ann)}" if ann else ""
        if name in self.env and name in self.mut and name in self.mut_declared:
            return f"{pad}{name} := {self.coerce(t, ty, self.env[name][1], s)}"
        if name in self.env and name not in self.scopes[-1] and len(self.scopes) > 1:
            _fail(s, "assignment inside a branch to a name that was not declared mutable")
        if ty == "IntLit":
            _fail(s, "a bare literal is assigned")
        self.env[name] = (name, ty)
        self.scopes[-1].add(name)
        if name in self.mut:
            self.mut_declared.add(name)
            return f"{pad}let mut {name}{colon} := {t}"
        return f"{pad}let {name}{colon} := {t}"

    def stmt(self, s, ind, top, tail=False):
        pad = "  " * ind
        com = f"{pad}-- {_unparse1(s)}"
        if isinstance(s, ast.Expr):
            if isinstance(s.value, ast.Constant) and isinstance(s.value.value, str):
                return []
            if isinstance(s.value, ast.Call) and ast.unparse(s.value.func) == "warnings.warn":
                c = s.value
                if not (len(c.args) == 2 and isinstance(c.args[0], (ast.Constant, ast.JoinedStr)) and ast.unparse(c.args[1]) == "RuntimeWarning"
                        and [(k.arg, ast.unparse(k.value)) for k in c.keywords] == [("stacklevel", "2")]):
                    _fail(s, "warning other than `warnings.warn(<message>, RuntimeWarning, stacklevel=2)`")
                return [f"{pad}-- warnings.warn(...)"]
            # xs.append(e)
            c = s.value
            if (isinstance(c, ast.Call) and isinstance(c.func, ast.Attribute) and c.func.attr == "append" and isinstance(c.func.value, ast.Name)
                    and len(c.args) == 1 and not c.keywords and c.func.value.id in self.env):
                name = c.func.value.id
                cur = self.env[name][1]
                if cur not in ELEM:
                    _fail(s, "append to something else than a list")
                v, tv = self.ex(c.args[0])
                return [com, self.assign_name(name, f"{name} ++ [{self.coerce(v, tv, ELEM[cur], s)}]", cur, s, pad)]
            act = self.action(s.value) if isinstance(s.value, ast.Call) else None
            if act is None or act[1] != "Unit":
                _fail(s, "unsupported expression statement")
            return [com, f"{pad}{act[0]}"]
        if isinstance(s, ast.Raise):
            if not (isinstance(s.exc, ast.Call) and isinstance(s.exc.func, ast.Name) and s.exc.func.id in ERRS and s.cause is None):
                _fail(s, "unsupported raise")
            if tail:
                self.done = True
            return [f"{pad}throw {ERRS[s.exc.func.id]}"]
        if isinstance(s, ast.Return):
            if not tail or s.value is None:
                _fail(s, "return that is not the last statement of the function / of a final branch, or without a value")
            self.done = True
            if isinstance(s.value, ast.Call):
                act = self.action(s.value)
                if act is not None:
                    if act[1] != self.ret:
                        _fail(s, f"returns {act[1]}, expected {self.ret}")
                    return [com, f"{pad}{act[0]}"]
            t, ty = self.ex(s.value)
            return [com, f"{pad}return {self.coerce(t, ty, self.ret, s)}"]
        if isinstance(s, ast.Assign):
            if len(s.targets) != 1:
                _fail(s, "chained assignment")
            tg = s.targets[0]
            if isinstance(tg, ast.Tuple):
                if top and self.pyname == "__init__" and ast.unparse(tg) == "(self._points, self._weights, self._indices, self._degs)":
                    act = self.action(s.value)
                    if act is None or act[1] != "Grid":
                        _fail(s, "the attributes are not assigned from _generate_atomic_grid")
                    self.done = True
                    return [com, f"{pad}{act[0]}"]
                if not all(isinstance(x, ast.Name) for x in tg.elts):
                    _fail(s, "unsupported tuple assignment")
                names = [x.id for x in tg.elts]
                if isinstance(s.value, ast.Tuple) and len(s.value.elts) == len(names):
                    # a, b = e1, e2: one after the other, provided no e_j reads a target assigned before it
                    for j, v in enumerate(s.value.elts):
                        used = {n.id for n in ast.walk(v) if isinstance(n, ast.Name)}
                        if used & set(names[:j]):
                            _fail(s, "tuple assignment whose right-hand side reads an earlier target")
                    out = [com]
                    for n, v in zip(names, s.value.elts):
                        out.append(self.assign_value(n, v, s, pad))
                    return out
                t, ty = self.ex(s.value)
                if ty == "Triple" and len(names) == 3:
                    out = [com, f"{pad}let t' := {t}"]
                    for n, (proj, pt) in zip(names, ((".1", "K"), (".2.1", "K"), (".2.2", "Nat"))):
                        out.append(self.assign_name(n, f"t'{proj}", pt, s, pad))
                    return out
                _fail(s, "unsupported tuple assignment")
            if isinstance(tg, ast.Attribute):
                key = ast.unparse(tg)
                if isinstance(tg.value, ast.Name) and tg.value.id in self.env and self.env[tg.value.id][1] == "AngGrid" \
                        and tg.attr in ("points", "weights"):
                    # the setter of a local angular grid: the object with that array replaced
                    v, tv = self.ex(s.value)
                    want = {"points": "Pts", "weights": "VecK"}[tg.attr]
                    obj = tg.value.id
                    return [com, self.assign_name(obj, f"{{ {obj} with {tg.attr} := {self.coerce(v, tv, want, s)} }}", "AngGrid", s, pad)]
                if not (isinstance(tg.value, ast.Name) and tg.value.id == "self" and top and self.pyname == "__init__"):
                    _fail(s, "unsupported attribute assignment")
                if not isinstance(s.value, ast.Name):
                    _fail(s, "attribute assigned from something else than a local name")
                self.env[key] = self.ex(s.value)
                return [com]
            if isinstance(tg, ast.Subscript):
                # a[i] = v on a local integer array
                if not (isinstance(tg.value, ast.Name) and tg.value.id in self.env and self.env[tg.value.id][1] == "VecNat"):
                    _fail(s, "unsupported item assignment")
                name = tg.value.id
                i, ti = self.ex(tg.slice)
                v, tv = self.ex(s.value)
                return [com, self.assign_name(name, f"(← npSetItem {name} {_atom(self.coerce(i, ti, 'Nat', s))} {_atom(self.coerce(v, tv, 'Nat', s))})",
                                              "VecNat", s, pad)]
            if not isinstance(tg, ast.Name):
                _fail(s, "unsupported assignment target")
            name = tg.id
            if isinstance(s.value, ast.Constant) and s.value.value is None and name not in self.env:
                return [com + "   (unused)"]  # `degree = None`
            return [com, self.assign_value(name, s.value, s, pad)]
        if isinstance(s, ast.If):
            t, ty = self.ex(s.test)
            if ty != "Bool":
                _fail(s.test, "non-boolean test")
            out = [f"{pad}-- if {_unparse1(s.test)}:", f"{pad}if {t} then"]
            if tail:
                if not s.orelse:
                    _fail(s, "final `if` without `else`")
                out += self.scoped(s.body, ind + 1, tail=True)
                self.done = False
                out.append(f"{pad}else do")
                out += self.scoped(s.orelse, ind + 1, tail=True)
                return out
            body = self.scoped(s.body, ind + 1)
            out += body if any(not ln.strip().startswith("--") for ln in body) else body + [f"{pad}  pure ()"]
            if s.orelse:
                out.append(f"{pad}else do")
                out += self.scoped(s.orelse, ind + 1)
            return out
        if isinstance(s, ast.For):
            if not top:
                _fail(s, "loop inside a branch")
            return self.for_loop(s, ind)
        _fail(s, "unsupported statement")

    def assign_value(self, name, v, s, pad):
        if isinstance(v, ast.List) and not v.elts:
            if name not in self.locals:
                _fail(s, "empty list whose element type is not declared (LOCALS)")
            return self.assign_name(name, "[]", self.locals[name], s, pad, ann=self.locals[name])
        t, ty = self.ex(v)
        return self.assign_name(name, t, ty, s, pad)

    # ---- `for i, x in enumerate(xs):` -> a body function over the loop-carried variables + pyForEnumerate ------
    def for_loop(self, s, ind):
        pad = "  " * ind
        if s.orelse or not (isinstance(s.iter, ast.Call) and ast.unparse(s.iter.func) == "enumerate" and len(s.iter.args) == 1
                            and not s.iter.keywords and isinstance(s.target, ast.Tuple) and len(s.target.elts) == 2
                            and all(isinstance(x, ast.Name) for x in s.target.elts)):
            _fail(s, "loop other than `for i, x in enumerate(xs):`")
        xs, tx = self.pure(s.iter.args[0])
        if tx != "VecNat":
            _fail(s, "loop over something else than an integer array")
        ivar, xvar = (x.id for x in s.target.elts)
        if ivar in self.env or xvar in self.env:
            _fail(s, "loop variable shadows a name")
        # loop-carried variables: bound before the loop and assigned / appended to / item-assigned inside it
        assigned = []
        for n in ast.walk(ast.Module(body=s.body, type_ignores=[])):
            names = []
            if isinstance(n, ast.Assign):
                for tg in n.targets:
                    for x in (tg.elts if isinstance(tg, ast.Tuple) else [tg]):
                        if isinstance(x, ast.Name):
                            names.append(x.id)
                        elif isinstance(x, (ast.Subscript, ast.Attribute)) and isinstance(x.value, ast.Name):
                            names.append(x.value.id)
            elif isinstance(n, ast.AugAssign):
                _fail(n, "augmented assignment")
            elif isinstance(n, ast.Call) and isinstance(n.func, ast.Attribute) and n.func.attr == "append" and isinstance(n.func.value, ast.Name):
                names.append(n.func.value.id)
            elif isinstance(n, (ast.For, ast.While, ast.Break, ast.Continue, ast.Return)):
                _fail(n, "nested loop / break / continue / return inside the loop")
            assigned += [x for x in names if x not in assigned]
        state = [n for n in self.env if n in assigned]
        if not state:
            _fail(s, "loop without loop-carried variables")
        used = {n.id for n in ast.walk(ast.Module(body=s.body, type_ignores=[])) if isinstance(n, ast.Name)}
        if any(isinstance(n, ast.Attribute) and ast.unparse(n).startswith("self.") for n in ast.walk(ast.Module(body=s.body, type_ignores=[]))):
            used.add("self")
        free = [n for n in self.env if n in used and n not in state and self.env[n][1] != "Method" and "." not in n]
        # the body as a function
        sub = Tr.__new__(Tr)
        sub.__dict__.update(self.__dict__)
        sub.env = {n: self.env[n] for n in free + state}
        sub.env.update({k: v for k, v in self.env.items() if v[1] == "Method"})
        sub.env[ivar] = (ivar, "Nat")
        sub.env[xvar] = (xvar, "Nat")
        sub.ret = "Tup:" + ",".join(self.env[n][1] for n in state) if len(state) > 1 else self.env[state[0]][1]
        sub.mut, sub.mut_declared, sub.scopes, sub.aux, sub.done = set(), set(), [set()], [], False
        sub.body_stmts = s.body
        sub.find_mutable(s.body)
        lines = []
        for n in sorted(sub.mut):
            if n in sub.env:
                lines.append(f"  let mut {n} := {n}")
                sub.mut_declared.add(n)
        sub_body = []
        for st in s.body:
            sub_body += sub.stmt(st, 1, False)
        ret = ", ".join(state)
        lines += sub_body + [f"  return ({ret})" if len(state) > 1 else f"  return {ret}"]
        bname = f"{self.lean}_loop"
        ps = (["(env : Env K)"] if self.uses_env else []) + (["(world : PresetWorld K)"] if self.uses_world else [])
        ps += [f"({n} : {lean_type(self.env[n][1])})" for n in free + state] + [f"({ivar} : Nat)", f"({xvar} : Nat)"]
        doc = (f"/-- the body of the loop `{_unparse1(s)}` of `AtomGrid.{self.pyname}` (atomgrid.py line {s.lineno}) as a function of the "
               f"loop-carried variables `{ret}` -/")
        self.aux += [doc, f"def {bname} " + " ".join(ps) + f" : Except Err ({lean_type(sub.ret)}) := do"] + lines + [""]
        # the loop itself
        call = bname + (" env" if self.uses_env else "") + (" world" if self.uses_world else "") + "".join(f" {n}" for n in free)
        if len(state) == 1:
            proj = ["st"]
        else:
            proj = [f"st.{'2.' * k}1" for k in range(len(state) - 1)] + [f"st.{'2.' * (len(state) - 2)}2"]
        out = [f"{pad}-- {_unparse1(s)}",
               f"{pad}let st' := (← pyForEnumerate {_atom(xs)} ({ret}) (fun st {ivar} {xvar} => {call} {' '.join(proj)} {ivar} {xvar}))"]
        for n, pr in zip(state, proj):
            out.append(self.assign_name(n, pr.replace("st", "st'", 1), self.env[n][1], s, pad))
        return out

    # ---- the whole function ---------------------------------------------------------
    def find_mutable(self, stmts):
        """names bound in an enclosing scope (parameters included) that are assigned inside a branch: `let mut`"""
        def targets(st):
            out = []
            if isinstance(st, ast.Assign):
                for tg in st.targets:
                    for x in (tg.elts if isinstance(tg, ast.Tuple) else [tg]):
                        if isinstance(x, ast.Name):
                            if not (isinstance(st.value, ast.Constant) and st.value.value is None):
                                out.append(x.id)
                        elif isinstance(x, (ast.Subscript, ast.Attribute)) and isinstance(x.value, ast.Name) and x.value.id != "self":
                            out.append(x.value.id)
            elif isinstance(st, ast.Expr) and isinstance(st.value, ast.Call) and isinstance(st.value.func, ast.Attribute) \
                    and st.value.func.attr == "append" and isinstance(st.value.func.value, ast.Name):
                out.append(st.value.func.value.id)
            return out

        def walk(stmts, outer, nested):
            here = set()
            for st in stmts:
                for n in targets(st):
                    if nested and n in outer and n not in here:
                        self.mut.add(n)
                    else:
                        here.add(n)
                if isinstance(st, ast.If):
                    walk(st.body, outer | here, True)
                    walk(st.orelse, outer | here, True)
        walk(stmts, set(self.env), False)

    def translate(self):
        self.find_mutable(self.fn.body)
        ps = (["(env : Env K)"] if self.uses_env else []) + (["(world : PresetWorld K)"] if self.uses_world else [])
        ps += ["(self : Grid K)"] if self.has_self else []
        ps += [f"({n} : {lean_type(t)})" for n, t in self.params if t not in (None, "Method")]
        head = f"def {self.lean} " + " ".join(ps) + f" : Except Err ({lean_type(self.ret)}) := do"
        lines = []
        for n in sorted(self.mut):
            if n in self.env:
                lines.append(f"  let mut {n} := {n}")
                self.mut_declared.add(n)
        lines += self.block(self.fn.body, 1, top=True)
        if not self.done:
            if self.ret != "Unit":
                raise Untranslatable(f"AtomGrid.{self.pyname}: no result produced")
        doc = f"/-- `AtomGrid.{self.pyname}` (atomgrid.py line {self.fn.lineno}) -/"
        return self.aux + [doc, head] + lines

    def default_defs(self):
        """the default value of every parameter as a definition"""
        out = []
        for n, t in self.params:
            d = self.defaults[self.pyname].get(n)
            if t is None or d is None:
                continue
            ty = "String" if t == "Method" else lean_type(t)
            kparam = " (K : Type)" if "K" in ty.replace("(", " ").replace(")", " ").split() else ""
            out += [f"/-- default of `{n}` in `AtomGrid.{self.pyname}`: `{_unparse1(d)}` -/",
                    f"def {self.lean}_default_{n}{kparam} : {ty} := {self.arg(d, t)}", ""]
        return out


def _preset(c):
    """a preset name as the constructor of `Gen.Presets.Preset` (that translator enumerates every name the source mentions)"""
    v = c.value
    if not (isinstance(v, str) and v.isidentifier() and v.isascii()):
        _fail(c, "preset name that is not an identifier")
    return f"Preset.{v}"


def _atom(t):
    t = t.strip()
    if t.startswith("(") and _balanced(t) or all(c.isalnum() or c in "._'" for c in t):
        return t
    return f"({t})"


def _balanced(t):
    depth = 0
    for k, c in enumerate(t):
        depth += c == "("
        depth -= c == ")"
        if depth == 0 and k < len(t) - 1:
            return False
    return depth == 0


def _check_signature(pyname, fn):
    lean, kind, params, ret = SIGS[pyname]
    decos = [ast.unparse(d) for d in fn.decorator_list]
    if kind in ("staticmethod", "classmethod") and decos != [kind] or kind == "method" and decos:
        raise Untranslatable(f"AtomGrid.{pyname}: decorators {decos}, expected {kind}")
    a = fn.args
    if a.vararg or a.kwarg or a.posonlyargs:
        raise Untranslatable(f"AtomGrid.{pyname}: star parameters")
    pos = [x.arg for x in a.args]
    if kind in ("method", "classmethod"):
        if pos[:1] != [{"method": "self", "classmethod": "cls"}[kind]]:
            raise Untranslatable(f"AtomGrid.{pyname}: first parameter")
        pos = pos[1:]
    got = [(n,) for n in pos] + ([("*",)] if a.kwonlyargs else []) + [(x.arg,) for x in a.kwonlyargs]
    want = [(n,) for n, _ in params]
    if got != want:
        raise Untranslatable(f"AtomGrid.{pyname}: parameters {[g[0] for g in got]}, expected {[w[0] for w in want]}")
    defaults = {}
    nd = len(a.defaults)
    for x, d in zip(a.args[len(a.args) - nd:], a.defaults):
        defaults[x.arg] = d
    for x, d in zip(a.kwonlyargs, a.kw_defaults):
        if d is not None:
            defaults[x.arg] = d
    return defaults


def translate():
    tree = ast.parse((SRC / "atomgrid.py").read_text())
    cls = next((n for n in tree.body if isinstance(n, ast.ClassDef) and n.name == "AtomGrid"), None)
    if cls is None:
        raise Untranslatable("class AtomGrid not found")
    fns, defaults = {}, {}
    for name in ORDER:
        found = [n for n in cls.body if isinstance(n, ast.FunctionDef) and n.name == name]
        if len(found) != 1:
            raise Untranslatable(f"AtomGrid.{name}: found {len(found)} definitions")
        fns[name] = found[0]
        defaults[name] = _check_signature(name, found[0])
    # the properties read through `self.<name>` must be the plain accessors the typing context takes them for
    props = set()
    for name, (attr, _, _) in SELF_PROPS.items():
        found = [n for n in cls.body if isinstance(n, ast.FunctionDef) and n.name == name
                 and [ast.unparse(d) for d in n.decorator_list] == ["property"]]
        body = [x for x in found[0].body if not (isinstance(x, ast.Expr) and isinstance(x.value, ast.Constant))] if len(found) == 1 else []
        if len(body) == 1 and isinstance(body[0], ast.Return) and body[0].value is not None and ast.unparse(body[0].value) == attr:
            props.add(name)
    parts, dflt = [], []
    for name in ORDER:
        tr = Tr(name, fns[name], defaults, frozenset(props))
        parts += tr.translate() + [""]
        dflt += tr.default_defs()
    return "\n".join(parts + ["/-! ### default values of the parameters -/", ""] + dflt)


def generate():
    text = HEADER.format(name="atomgrid", source="src/grid/atomgrid.py (AtomGrid.__init__, from_pruned, _input_type_check, "
                                                 "_generate_degree_from_radius, _find_degrees_for_radial_points, get_shell_grid, "
                                                 "_generate_atomic_grid, from_preset)")
    text += ("import GridVerif.Model.AtomGrid\n\nset_option linter.unusedVariables false\n\n"
             "namespace GridVerif.Gen.AtomGrid\nopen GridVerif.AtomGrid GridVerif.Gen.Presets\n\nsection\n"
             "variable {K : Type} [Add K] [Sub K] [Mul K] [Div K] [NatCast K] [LT K] [LE K] [DecidableLT K] [DecidableLE K]\n\n")
    text += translate()
    text += "\nend\nend GridVerif.Gen.AtomGrid\n"
    return write_if_changed("AtomGrid.lean", text)


if __name__ == "__main__":
    print(translate())

"""Translator: grid/atomgrid.py (guards and array code of AtomGrid) -> Gen/AtomGrid.lean.

AST based, statement by statement.  Translated (each into one Lean `do` block in `Except Err`):

* `AtomGrid._find_degrees_for_radial_points`  -> `find_degrees_for_radial_points`
* `AtomGrid._generate_degree_from_radius`      -> `generate_degree_from_radius`
* `AtomGrid._input_type_check`                 -> `input_type_check`
* `AtomGrid.__init__` up to and including the call of `_generate_atomic_grid`
  (centre default, rotate guards, `sizes` taking precedence and going through
  `convert_angular_sizes_to_degrees`, the two `isinstance` guards, the `len(degrees) == 1`
  broadcast)                                   -> `init`
* `AtomGrid.from_pruned`                       -> `from_pruned`

Typing context (Python has none; this is what the translator assumes and the correspondence
exercises): see `SIGS` — radial arrays are 1-D float arrays, degree/size sequences are lists or
arrays of non-negative integers (`SeqArg` also knows `None` and "anything else"), `rotate` is a
`RotArg` (int / NumPy integer / bool / other), `method` is one of the four lower-case method names
and is carried as the per-method environment `env` (a `method=method` or `method.lower()` argument
is `env`).  Given components (hand model, C12 / assembly loop): `convert_angular_sizes_to_degrees`,
`_get_degree_and_size(...)[0]`, `_generate_atomic_grid` + attribute assignments.

The vocabulary is deliberately small (see `Tr.ex`, `Tr.stmt`); everything else raises
`Untranslatable`, which the check treats like a proof obligation that no longer holds.
`warnings.warn(...)` statements and exception messages carry no semantics and are dropped.
"""
import ast

from ..common import SRC
from .util import HEADER, write_if_changed


class Untranslatable(Exception):
    pass


def _fail(node, why):
    raise Untranslatable(f"atomgrid.py line {getattr(node, 'lineno', '?')}: {why}: {ast.unparse(node)[:160]}")


LEAN_TYPE = {
    "K": "K", "VecK": "List K", "VecNat": "List Nat", "OptVecNat": "Option (List Nat)", "OptVecK": "Option (List K)",
    "SeqArg": "SeqArg", "RotArg": "RotArg", "RGrid": "RGrid K", "Nat": "Nat", "Int": "Int", "Bool": "Bool",
    "NpArrNat": "NpArr Nat", "Grid": "Grid K", "Unit": "Unit",
}

# python name -> (lean name, kind, [(param, type)], return type, uses env)
SIGS = {
    "_find_degrees_for_radial_points": ("find_degrees_for_radial_points", "staticmethod",
                                        [("radial_points", "VecK"), ("r_sectors", "VecK"), ("d_sectors", "VecNat")], "VecNat"),
    "_generate_degree_from_radius": ("generate_degree_from_radius", "staticmethod",
                                     [("rgrid", "RGrid"), ("radius", "K"), ("r_sectors", "VecK"), ("d_sectors", "OptVecNat"),
                                      ("method", "Method")], "VecNat"),
    "_input_type_check": ("input_type_check", "staticmethod", [("rgrid", "RGrid"), ("center", "VecK")], "Unit"),
    "__init__": ("init", "method",
                 [("rgrid", "RGrid"), ("degrees", "SeqArg"), ("*", None), ("sizes", "SeqArg"), ("center", "OptVecK"),
                  ("rotate", "RotArg"), ("method", "Method")], "Grid"),
    "from_pruned": ("from_pruned", "classmethod",
                    [("rgrid", "RGrid"), ("radius", "K"), ("r_sectors", "VecK"), ("d_sectors", "OptVecNat"), ("*", None),
                     ("s_sectors", "OptVecNat"), ("center", "OptVecK"), ("rotate", "RotArg"), ("method", "Method")], "Grid"),
}
ORDER = ["_find_degrees_for_radial_points", "_generate_degree_from_radius", "_input_type_check", "__init__", "from_pruned"]
ERRS = {"ValueError": "Err.valueError", "TypeError": "Err.typeError", "IndexError": "Err.indexError"}
# attribute assignments of __init__ after the call of _generate_atomic_grid (part of the hand-model component)
INIT_TAIL = {"self._size = self._weights.size", "self._basis = None", "self._kdtree = None", "self._method = method.lower()"}
CMP = {ast.Gt: ">", ast.GtE: "≥", ast.Lt: "<", ast.LtE: "≤", ast.Eq: "=", ast.NotEq: "≠"}


def _unparse1(node):
    s = ast.unparse(node).splitlines()[0]
    if not s.isascii():
        s = s.encode("ascii", "replace").decode()
    return s.replace("-/", "- /")


class Tr:
    """Translation of one function body."""

    def __init__(self, pyname, fn, defaults):
        self.pyname, self.fn = pyname, fn
        self.lean, self.kind, self.params, self.ret = SIGS[pyname]
        self.env = {n: (n, t) for n, t in self.params if t is not None}
        self.uses_env = any(t == "Method" for _, t in self.params if t)
        self.defaults = defaults  # all functions: pyname -> {param: ast default}
        self.mut = set()
        self.done = False

    # ---- helpers -------------------------------------------------------------
    def coerce(self, term, t, want, node):
        if t == want:
            return term
        if t == "IntLit":
            if want == "Nat":
                return term
            if want == "Int":
                return f"({term} : Int)"
            if want == "K":
                return f"(({term} : Nat) : K)"
        if t == "Nat" and want == "Int":
            return f"({term} : Int)"
        if t == "VecNat" and want == "SeqArg":
            return f"(SeqArg.seq {term})"
        if t == "VecNat" and want == "OptVecNat":
            return f"(some {term})"
        if t == "VecK" and want == "OptVecK":
            return f"(some {term})"
        if t == "SeqArg" and want == "VecNat":
            return f"(← {term}.asList)"
        if t == "OptVecNat" and want == "VecNat":
            return f"(← pyNotNone {term})"
        _fail(node, f"type {t} where {want} is expected")

    def is_method_arg(self, e):
        """`method` or `method.lower()`: the per-method environment."""
        if isinstance(e, ast.Name) and e.id == "method":
            return True
        return (isinstance(e, ast.Call) and isinstance(e.func, ast.Attribute) and e.func.attr == "lower" and not e.args
                and not e.keywords and isinstance(e.func.value, ast.Name) and e.func.value.id == "method")

    def need_env(self, node):
        if not self.uses_env:
            _fail(node, "needs the angular method but the function has no `method` parameter")

    # ---- expressions -> (lean term, type) ---------------------------------------
    def ex(self, e):
        if isinstance(e, ast.Name):
            if e.id in self.env:
                term, t = self.env[e.id]
                if t == "Method":
                    _fail(e, "`method` used other than as a pass-through argument")
                return term, t
            _fail(e, "unknown name")
        if isinstance(e, ast.Constant):
            v = e.value
            if isinstance(v, bool) or v is None:
                _fail(e, "constant outside a supported test")
            if isinstance(v, int) and v >= 0:
                return str(v), "IntLit"
            if isinstance(v, float) and v == int(v) and v >= 0:
                return f"(({int(v)} : Nat) : K)", "K"
            _fail(e, "unsupported constant")
        if isinstance(e, ast.Attribute):
            src = ast.unparse(e)
            if src in self.env:  # self._rgrid, self._rot, self._center after their assignment
                return self.env[src]
            base, t = self.ex(e.value)
            if t == "RGrid":
                if e.attr in ("points", "weights"):
                    return f"{base}.{e.attr}", "VecK"
                if e.attr == "size":
                    return f"{base}.size", "Nat"
                if e.attr == "domain":
                    return f"{base}.domain", "OptPairK"
            if t == "VecK" and e.attr == "shape":
                return base, "ShapeOfVecK"
            _fail(e, "unsupported attribute")
        if isinstance(e, ast.Subscript):
            return self.subscript(e)
        if isinstance(e, ast.BinOp):
            return self.binop(e)
        if isinstance(e, ast.Compare):
            return self.compare(e)
        if isinstance(e, ast.BoolOp):
            return self.boolop(e)
        if isinstance(e, ast.UnaryOp) and isinstance(e.op, ast.Not):
            t, ty = self.ex(e.operand)
            if ty != "Bool":
                _fail(e, "`not` of a non-boolean")
            return f"!({t})", "Bool"
        if isinstance(e, ast.IfExp):
            return self.ifexp(e)
        if isinstance(e, ast.Call):
            act = self.action(e)
            if act is not None:
                term, t = act
                return f"(← {term})", t
            return self.pure_call(e)
        _fail(e, "unsupported expression")

    def pure(self, e):
        term, t = self.ex(e)
        if "←" in term:
            _fail(e, "expression with an effect where a pure one is required")
        return term, t

    def subscript(self, e):
        # AngularGrid._get_degree_and_size(...)[0]
        if isinstance(e.value, ast.Call) and ast.unparse(e.value.func) == "AngularGrid._get_degree_and_size":
            act = self.action(e)
            return f"(← {act[0]})", act[1]
        base, t = self.ex(e.value)
        if t == "VecNat":
            idx, ti = self.ex(e.slice)
            if ti == "VecNat":
                return f"(← npTake {base} {idx})", "VecNat"
            _fail(e, "integer array indexed by something else than an integer array")
        if t == "PairK" and isinstance(e.slice, ast.Constant) and e.slice.value in (0, 1):
            return f"{base}.{e.slice.value + 1}", "K"
        _fail(e, "unsupported subscript")

    def binop(self, e):
        sym = {ast.Add: "+", ast.Sub: "-", ast.Mult: "*", ast.Pow: "^", ast.Div: "/"}.get(type(e.op))
        if sym is None:
            _fail(e, "unsupported operator")
        # np.ones(n, dtype=int) * xs
        if sym == "*" and isinstance(e.left, ast.Call) and ast.unparse(e.left.func) == "np.ones":
            c = e.left
            if len(c.args) != 1 or [(k.arg, ast.unparse(k.value)) for k in c.keywords] != [("dtype", "int")]:
                _fail(e, "np.ones call")
            n, tn = self.ex(c.args[0])
            xs, tx = self.ex(e.right)
            return f"(← npOnesMul {self.coerce(n, tn, 'Nat', e)} {self.coerce(xs, tx, 'VecNat', e)})", "VecNat"
        l, tl = self.ex(e.left)
        r, tr = self.ex(e.right)
        if tl == "VecK" and tr == "K" and sym == "*":
            return f"npMulScalar {_atom(l)} {_atom(r)}", "VecK"
        ints = ("IntLit", "Nat", "Int")
        if tl in ints and tr in ints:
            if sym == "/":
                _fail(e, "true division of integers")
            if sym == "^":
                if tr != "IntLit":
                    _fail(e, "non-literal exponent")
                return f"{self.coerce(l, tl, 'Int', e)} ^ {r}", "Int"
            return f"{self.coerce(l, tl, 'Int', e)} {sym} {self.coerce(r, tr, 'Int', e)}", "Int"
        if tl in ("K", "IntLit") and tr in ("K", "IntLit") and "K" in (tl, tr) and sym != "^":
            return f"{_atom(self.coerce(l, tl, 'K', e))} {sym} {_atom(self.coerce(r, tr, 'K', e))}", "K"
        _fail(e, f"operator on {tl} and {tr}")

    def compare(self, e):
        ops, terms = e.ops, [e.left] + e.comparators
        # identity tests
        if len(ops) == 1 and isinstance(ops[0], (ast.Is, ast.IsNot)):
            neg = isinstance(ops[0], ast.IsNot)
            c = terms[1]
            x, t = self.pure(terms[0])
            if isinstance(c, ast.Constant) and c.value is None:
                if t in ("OptVecNat", "OptVecK", "OptPairK"):
                    return f"{x}.isSome" if neg else f"{x}.isNone", "Bool"
                if t == "SeqArg":
                    return f"{x}.isNotNone" if neg else f"!({x}.isNotNone)", "Bool"
            if isinstance(c, ast.Constant) and c.value is False and t == "RotArg":
                return f"{x}.isNotFalse" if neg else f"!({x}.isNotFalse)", "Bool"
            _fail(e, "unsupported identity test")
        if any(type(o) not in CMP for o in ops):
            _fail(e, "unsupported comparison")
        # center.shape != (3,)
        if len(ops) == 1:
            x, t = self.ex(terms[0])
            if t == "ShapeOfVecK":
                c = terms[1]
                if not (isinstance(c, ast.Tuple) and len(c.elts) == 1 and isinstance(c.elts[0], ast.Constant)
                        and isinstance(c.elts[0].value, int) and isinstance(ops[0], (ast.Eq, ast.NotEq))):
                    _fail(e, "shape comparison")
                return f"decide ({x}.length {CMP[type(ops[0])]} {c.elts[0].value})", "Bool"
        vals = [self.ex(t) for t in terms]
        tys = {t for _, t in vals}
        if "RotArg" in tys:
            vals = [(f"{v}.val", "Int") if t == "RotArg" else (v, t) for v, t in vals]
            tys = {t for _, t in vals}
        if tys <= {"IntLit", "Nat", "Int"}:
            want = "Nat" if tys <= {"IntLit", "Nat"} else "Int"
        elif tys <= {"IntLit", "K"}:
            want = "K"
        else:
            _fail(e, f"comparison of {sorted(tys)}")
        cv = [self.coerce(v, t, want, e) for v, t in vals]
        if want == "Nat" and all(t == "IntLit" for _, t in vals):
            _fail(e, "comparison of literals")
        if want == "Nat":
            cv = [f"({v} : Nat)" if t == "IntLit" else v for v, (_, t) in zip(cv, vals)]
        parts = [f"{cv[i]} {CMP[type(op)]} {cv[i + 1]}" for i, op in enumerate(ops)]
        return "decide (" + " ∧ ".join(parts) + ")", "Bool"

    def boolop(self, e):
        sym = " && " if isinstance(e.op, ast.And) else " || "
        first = e.values[0]
        # `X is not None and <test reading X>`: the second operand sees the unwrapped value
        if (isinstance(e.op, ast.And) and len(e.values) == 2 and isinstance(first, ast.Compare) and len(first.ops) == 1
                and isinstance(first.ops[0], ast.IsNot) and isinstance(first.comparators[0], ast.Constant)
                and first.comparators[0].value is None):
            x, t = self.pure(first.left)
            if t == "OptPairK":
                key = ast.unparse(first.left)
                saved = self.env.get(key)
                self.env[key] = ("v", "PairK")
                try:
                    rest, tr = self.pure(e.values[1])
                finally:
                    if saved is None:
                        del self.env[key]
                    else:
                        self.env[key] = saved
                if tr != "Bool":
                    _fail(e, "non-boolean operand")
                return f"(match {x} with | some v => {rest} | none => false)", "Bool"
        out = []
        for k, v in enumerate(e.values):
            t, ty = (self.ex(v) if k == 0 else self.pure(v))  # later operands are short-circuited: must be pure
            if ty != "Bool":
                _fail(v, "non-boolean operand")
            out.append(_atom(t))
        return sym.join(out), "Bool"

    def ifexp(self, e):
        # `A if x is None else f(x)` with x Option-typed
        t = e.test
        if not (isinstance(t, ast.Compare) and len(t.ops) == 1 and isinstance(t.ops[0], (ast.Is, ast.IsNot))
                and isinstance(t.comparators[0], ast.Constant) and t.comparators[0].value is None and isinstance(t.left, ast.Name)):
            _fail(e, "conditional expression other than `A if x is None else B`")
        name = t.left.id
        x, tx = self.pure(t.left)
        inner = {"OptVecK": "VecK", "OptVecNat": "VecNat"}.get(tx)
        if inner is None:
            _fail(e, "conditional expression on a non-optional")
        none_e, some_e = (e.body, e.orelse) if isinstance(t.ops[0], ast.Is) else (e.orelse, e.body)
        a, ta = self.pure(none_e)
        saved = self.env[name]
        self.env[name] = ("v", inner)
        try:
            b, tb = self.pure(some_e)
        finally:
            self.env[name] = saved
        if ta != tb:
            _fail(e, f"branches of types {ta} and {tb}")
        return f"(match {x} with | none => {a} | some v => {b})", ta

    def pure_call(self, e):
        f = ast.unparse(e.func)
        kw = {k.arg: k.value for k in e.keywords}
        if f == "isinstance" and len(e.args) == 2 and not kw:
            x, t = self.pure(e.args[0])
            c = e.args[1]
            names = sorted(ast.unparse(v) for v in c.elts) if isinstance(c, ast.Tuple) else [ast.unparse(c)]
            if t == "RGrid" and names == ["OneDGrid"]:
                return f"{x}.isOneDGrid", "Bool"
            if t == "SeqArg" and names == ["list", "np.ndarray"]:
                return f"{x}.isSeq", "Bool"
            if t == "RotArg" and names == ["int", "np.integer"]:
                return f"{x}.isIntOrNpInteger", "Bool"
            if t == "RotArg" and names == ["int"]:
                return f"{x}.isInt", "Bool"
            _fail(e, "unsupported isinstance test")
        if f == "len" and len(e.args) == 1 and not kw:
            x, t = self.ex(e.args[0])
            if t in ("VecK", "VecNat"):
                return f"{x}.length", "Nat"
            if t == "NpArrNat":
                return f"(← {x}.len)", "Nat"
            if t == "SeqArg":
                return f"(← {x}.asList).length", "Nat"
            _fail(e, "len of an unsupported value")
        if f == "np.array" and len(e.args) == 1 and not kw:
            if isinstance(e.args[0], ast.ListComp):
                return self.listcomp(e.args[0])
            x, t = self.ex(e.args[0])
            if t == "VecK":
                return x, "VecK"
            if t == "OptVecNat":
                return f"npArrayOpt {_atom(x)}", "NpArrNat"
            _fail(e, "np.array of an unsupported value")
        if f == "np.asarray" and len(e.args) == 1 and {k: ast.unparse(v) for k, v in kw.items()} == {"dtype": "float"}:
            x, t = self.ex(e.args[0])
            if t == "VecK":
                return x, "VecK"
            _fail(e, "np.asarray of an unsupported value")
        if f == "np.zeros" and len(e.args) == 1 and {k: ast.unparse(v) for k, v in kw.items()} == {"dtype": "float"}:
            n, t = self.ex(e.args[0])
            return f"npZeros {self.coerce(n, t, 'Nat', e)}", "VecK"
        if f == "np.min" and len(e.args) == 1 and not kw:
            x, t = self.ex(e.args[0])
            if t == "VecK":
                return f"(← npMin {_atom(x)})", "K"
            _fail(e, "np.min of an unsupported value")
        if f == "np.sum" and len(e.args) == 1 and {k: ast.unparse(v) for k, v in kw.items()} == {"axis": "1"}:
            c = e.args[0]
            if (isinstance(c, ast.Compare) and len(c.ops) == 1 and type(c.ops[0]) in (ast.Gt, ast.GtE, ast.Lt, ast.LtE)
                    and isinstance(c.left, ast.Subscript) and isinstance(c.comparators[0], ast.Subscript)):
                a, ta = self.pure(c.left.value)
                b, tb = self.pure(c.comparators[0].value)
                if ast.unparse(c.left.slice) == "(:, None)" or ast.unparse(c.left) == ast.unparse(c.left.value) + "[:, None]":
                    if ast.unparse(c.comparators[0]) == ast.unparse(c.comparators[0].value) + "[None, :]" and ta == tb == "VecK":
                        return f"npCountAxis1 (fun x y => decide (x {CMP[type(c.ops[0])]} y)) {_atom(a)} {_atom(b)}", "VecNat"
            _fail(e, "np.sum of something else than `a[:, None] <cmp> b[None, :]` along axis 1")
        _fail(e, "unsupported call")

    def listcomp(self, lc):
        if len(lc.generators) != 1 or lc.generators[0].ifs or lc.generators[0].is_async or not isinstance(lc.generators[0].target, ast.Name):
            _fail(lc, "unsupported comprehension")
        g = lc.generators[0]
        xs, t = self.ex(g.iter)
        if t == "NpArrNat":
            xs = f"(← {xs}.iter)"
        elif t != "VecNat":
            _fail(lc, "comprehension over an unsupported value")
        var = g.target.id
        saved = self.env.get(var)
        self.env[var] = (var, "Nat")
        try:
            act = self.action(lc.elt)
        finally:
            if saved is None:
                del self.env[var]
            else:
                self.env[var] = saved
        if act is None or act[1] != "Nat" or "←" in act[0]:
            _fail(lc, "comprehension element is not a supported call returning an integer")
        return f"(← {xs}.mapM fun {var} => {act[0]})", "VecNat"

    # ---- calls with an effect -> (Except-valued lean term, result type) or None ----------
    def action(self, e):
        sub0 = False
        if isinstance(e, ast.Subscript):
            if not (isinstance(e.slice, ast.Constant) and e.slice.value == 0):
                _fail(e, "only `[0]` (the degree) of `_get_degree_and_size` is supported")
            e, sub0 = e.value, True
        if not isinstance(e, ast.Call):
            return None
        f = ast.unparse(e.func)
        kw = {k.arg: k.value for k in e.keywords}
        if None in kw or any(isinstance(a, ast.Starred) for a in e.args):
            _fail(e, "star arguments")
        if f == "AngularGrid._get_degree_and_size":
            if not sub0 or e.args or set(kw) != {"degree", "size", "method"} or not self.is_method_arg(kw["method"]):
                _fail(e, "`AngularGrid._get_degree_and_size(degree=…, size=…, method=method)[0]` expected")
            self.need_env(e)
            opts = []
            for k in ("degree", "size"):
                v = kw[k]
                if isinstance(v, ast.Constant) and v.value is None:
                    opts.append("none")
                else:
                    t, ty = self.pure(v)
                    opts.append(f"(some {self.coerce(t, ty, 'Nat', v)})")
            return f"getDegreeAndSize0 env {opts[0]} {opts[1]}", "Nat"
        if sub0:
            _fail(e, "subscript of a call")
        if f == "AngularGrid.convert_angular_sizes_to_degrees":
            args = list(e.args)
            m = kw.get("method", args[1] if len(args) == 2 else None)
            if len(args) not in (1, 2) or (len(args) == 2 and kw) or (len(args) == 1 and set(kw) != {"method"}) \
                    or m is None or not self.is_method_arg(m):
                _fail(e, "`convert_angular_sizes_to_degrees(sizes, method)` expected")
            self.need_env(e)
            x, t = self.ex(args[0])
            return f"convertAngularSizesToDegrees env {_atom(self.coerce(x, t, 'VecNat', e))}", "VecNat"
        # sibling methods / the constructor
        target = None
        if f in ("cls", "AtomGrid"):
            target = "__init__"
        elif isinstance(e.func, ast.Attribute) and isinstance(e.func.value, ast.Name) and e.func.value.id in ("cls", "self", "AtomGrid"):
            if e.func.attr in SIGS and e.func.attr != "__init__":
                target = e.func.attr
            elif e.func.attr == "_generate_atomic_grid":
                return self.generate_call(e, kw)
        if target is None:
            return None
        lean, _, params, ret = SIGS[target]
        names = [n for n, t in params if t is not None]
        star = [n for n, _ in params].index("*") if ("*", None) in params else len(params)
        positional = [n for n, _ in params[:star]]
        if len(e.args) > len(positional):
            _fail(e, "too many positional arguments")
        bound = dict(zip(positional, e.args))
        for k, v in kw.items():
            if k not in names or k in bound:
                _fail(e, f"unexpected / duplicate argument {k}")
            bound[k] = v
        out = []
        uses_env = any(t == "Method" for _, t in params if t)
        for n, t in params:
            if t is None:
                continue
            v = bound.get(n, self.defaults[target].get(n))
            if v is None:
                _fail(e, f"argument {n} missing and without default")
            if t == "Method":
                if n not in bound or not self.is_method_arg(v):
                    _fail(e, "the angular method is not passed through as `method`")
                self.need_env(e)
                continue
            out.append(self.arg(v, t))
        return f"{lean} " + ("env " if uses_env else "") + " ".join(out), ret

    def arg(self, v, want):
        """argument expression (or default value) for a parameter of type `want`"""
        if isinstance(v, ast.Constant) and v.value is None:
            if want == "SeqArg":
                return "SeqArg.none"
            if want in ("OptVecNat", "OptVecK"):
                return "none"
            _fail(v, f"None for a parameter of type {want}")
        if isinstance(v, ast.List) and want == "SeqArg" and all(isinstance(x, ast.Constant) and isinstance(x.value, int)
                                                                 and not isinstance(x.value, bool) and x.value >= 0 for x in v.elts):
            return "(SeqArg.seq [" + ", ".join(str(x.value) for x in v.elts) + "])"
        if isinstance(v, ast.Constant) and isinstance(v.value, int) and not isinstance(v.value, bool) and want == "RotArg":
            return f"(RotArg.int {v.value})"
        t, ty = self.ex(v)
        return _atom(self.coerce(t, ty, want, v))

    def generate_call(self, e, kw):
        """`self._generate_atomic_grid(self._rgrid, degrees, rotate=self._rot, method=method.lower())`"""
        if len(e.args) != 2 or set(kw) != {"rotate", "method"} or not self.is_method_arg(kw["method"]):
            _fail(e, "`_generate_atomic_grid(rgrid, degrees, rotate=…, method=…)` expected")
        self.need_env(e)
        rg, t1 = self.pure(e.args[0])
        dg, t2 = self.ex(e.args[1])
        rot, t3 = self.pure(kw["rotate"])
        if t1 != "RGrid" or t3 != "RotArg":
            _fail(e, "argument types of _generate_atomic_grid")
        if "self._center" not in self.env or self.env["self._center"][1] != "VecK":
            _fail(e, "self._center is not assigned before the grid is generated")
        return f"generateAtomicGrid env {rg} {_atom(self.coerce(dg, t2, 'VecNat', e))} {rot} {self.env['self._center'][0]}", "Grid"

    # ---- statements ---------------------------------------------------------------
    def block(self, stmts, ind, top=False):
        out = []
        for k, s in enumerate(stmts):
            if self.done:
                if not (top and self.pyname == "__init__" and ast.unparse(s) in INIT_TAIL):
                    _fail(s, "statement after the result was produced")
                continue
            out += self.stmt(s, ind, top)
        return out

    def stmt(self, s, ind, top):
        pad = "  " * ind
        com = f"{pad}-- {_unparse1(s)}"
        if isinstance(s, ast.Expr):
            if isinstance(s.value, ast.Constant) and isinstance(s.value.value, str):
                return []
            if isinstance(s.value, ast.Call) and ast.unparse(s.value.func) == "warnings.warn":
                return [f"{pad}-- warnings.warn(...)"]
            act = self.action(s.value) if isinstance(s.value, ast.Call) else None
            if act is None or act[1] != "Unit":
                _fail(s, "unsupported expression statement")
            return [com, f"{pad}{act[0]}"]
        if isinstance(s, ast.Raise):
            if not (isinstance(s.exc, ast.Call) and isinstance(s.exc.func, ast.Name) and s.exc.func.id in ERRS and s.cause is None):
                _fail(s, "unsupported raise")
            return [f"{pad}throw {ERRS[s.exc.func.id]}"]
        if isinstance(s, ast.Return):
            if not top or s.value is None:
                _fail(s, "return inside a branch / without a value")
            self.done = True
            if isinstance(s.value, ast.Call):
                act = self.action(s.value)
                if act is not None:
                    if act[1] != self.ret:
                        _fail(s, f"returns {act[1]}, expected {self.ret}")
                    return [com, f"{pad}{act[0]}"]
            t, ty = self.ex(s.value)
            return [com, f"{pad}return {self.coerce(t, ty, self.ret, s)}"]
        if isinstance(s, ast.Assign):
            if len(s.targets) != 1:
                _fail(s, "chained assignment")
            tg = s.targets[0]
            if isinstance(tg, ast.Tuple):
                if not (top and self.pyname == "__init__" and ast.unparse(tg) == "(self._points, self._weights, self._indices, self._degs)"):
                    _fail(s, "unsupported tuple assignment")
                act = self.action(s.value)
                if act is None or act[1] != "Grid":
                    _fail(s, "the attributes are not assigned from _generate_atomic_grid")
                self.done = True
                return [com, f"{pad}{act[0]}"]
            if isinstance(tg, ast.Attribute):
                key = ast.unparse(tg)
                if not (isinstance(tg.value, ast.Name) and tg.value.id == "self" and top):
                    _fail(s, "unsupported attribute assignment")
                if not isinstance(s.value, ast.Name):
                    _fail(s, "attribute assigned from something else than a local name")
                self.env[key] = self.ex(s.value)
                return [com]
            if not isinstance(tg, ast.Name):
                _fail(s, "unsupported assignment target")
            name = tg.id
            if isinstance(s.value, ast.Constant) and s.value.value is None and name not in self.env:
                return [com + "   (unused)"]  # `degree = None`
            t, ty = self.ex(s.value)
            if name in self.env and (not top or name in self.mut):
                # re-assignment of a mutable variable: the type must stay
                cur = self.env[name][1]
                if name not in self.mut:
                    _fail(s, "assignment to a name that was not declared mutable")
                return [com, f"{pad}{name} := {self.coerce(t, ty, cur, s)}"]
            if not top:
                _fail(s, "new local variable inside a branch")
            self.env[name] = (name, ty)
            return [com, f"{pad}let {name} := {t}"]
        if isinstance(s, ast.If):
            t, ty = self.ex(s.test)
            if ty != "Bool":
                _fail(s.test, "non-boolean test")
            out = [f"{pad}-- if {_unparse1(s.test)}:", f"{pad}if {t} then"]
            body = self.block(s.body, ind + 1)
            out += body if any(not ln.strip().startswith("--") for ln in body) else body + [f"{pad}  pure ()"]
            if s.orelse:
                out.append(f"{pad}else do")
                out += self.block(s.orelse, ind + 1)
            return out
        _fail(s, "unsupported statement")

    # ---- the whole function ---------------------------------------------------------
    def mutable_names(self):
        """names (parameters or locals) that are assigned inside a branch"""
        def walk(stmts, nested):
            for s in stmts:
                if isinstance(s, ast.Assign) and nested:
                    for tg in s.targets:
                        if isinstance(tg, ast.Name):
                            if not (isinstance(s.value, ast.Constant) and s.value.value is None and tg.id not in self.env):
                                self.mut.add(tg.id)
                elif isinstance(s, ast.If):
                    walk(s.body, True)
                    walk(s.orelse, True)
        walk(self.fn.body, False)

    def translate(self):
        self.mutable_names()
        ps = ["(env : Env K)"] if self.uses_env else []
        ps += [f"({n} : {LEAN_TYPE[t]})" for n, t in self.params if t not in (None, "Method")]
        head = f"def {self.lean} " + " ".join(ps) + f" : Except Err ({LEAN_TYPE[self.ret]}) := do"
        lines = []
        for n in sorted(self.mut):
            if n not in self.env:
                raise Untranslatable(f"AtomGrid.{self.pyname}: `{n}` is first assigned inside a branch")
            lines.append(f"  let mut {n} := {n}")
        lines += self.block(self.fn.body, 1, top=True)
        if not self.done:
            if self.ret != "Unit":
                raise Untranslatable(f"AtomGrid.{self.pyname}: no result produced")
        doc = f"/-- `AtomGrid.{self.pyname}` (atomgrid.py line {self.fn.lineno}) -/"
        return [doc, head] + lines


def _atom(t):
    t = t.strip()
    if t.startswith("(") and _balanced(t) or all(c.isalnum() or c in "._'" for c in t):
        return t
    return f"({t})"


def _balanced(t):
    depth = 0
    for k, c in enumerate(t):
        depth += c == "("
        depth -= c == ")"
        if depth == 0 and k < len(t) - 1:
            return False
    return depth == 0


def _check_signature(pyname, fn):
    lean, kind, params, ret = SIGS[pyname]
    decos = [ast.unparse(d) for d in fn.decorator_list]
    if kind in ("staticmethod", "classmethod") and decos != [kind] or kind == "method" and decos:
        raise Untranslatable(f"AtomGrid.{pyname}: decorators {decos}, expected {kind}")
    a = fn.args
    if a.vararg or a.kwarg or a.posonlyargs:
        raise Untranslatable(f"AtomGrid.{pyname}: star parameters")
    pos = [x.arg for x in a.args]
    if kind in ("method", "classmethod"):
        if pos[:1] != [{"method": "self", "classmethod": "cls"}[kind]]:
            raise Untranslatable(f"AtomGrid.{pyname}: first parameter")
        pos = pos[1:]
    got = [(n,) for n in pos] + ([("*",)] if a.kwonlyargs else []) + [(x.arg,) for x in a.kwonlyargs]
    want = [(n,) for n, _ in params]
    if got != want:
        raise Untranslatable(f"AtomGrid.{pyname}: parameters {[g[0] for g in got]}, expected {[w[0] for w in want]}")
    defaults = {}
    nd = len(a.defaults)
    for x, d in zip(a.args[len(a.args) - nd:], a.defaults):
        defaults[x.arg] = d
    for x, d in zip(a.kwonlyargs, a.kw_defaults):
        if d is not None:
            defaults[x.arg] = d
    return defaults


def translate():
    tree = ast.parse((SRC / "atomgrid.py").read_text())
    cls = next((n for n in tree.body if isinstance(n, ast.ClassDef) and n.name == "AtomGrid"), None)
    if cls is None:
        raise Untranslatable("class AtomGrid not found")
    fns, defaults = {}, {}
    for name in ORDER:
        found = [n for n in cls.body if isinstance(n, ast.FunctionDef) and n.name == name]
        if len(found) != 1:
            raise Untranslatable(f"AtomGrid.{name}: found {len(found)} definitions")
        fns[name] = found[0]
        defaults[name] = _check_signature(name, found[0])
    parts = []
    for name in ORDER:
        parts += Tr(name, fns[name], defaults).translate() + [""]
    return "\n".join(parts)


def generate():
    text = HEADER.format(name="atomgrid", source="src/grid/atomgrid.py (AtomGrid.__init__, from_pruned, _input_type_check, "
                                                 "_generate_degree_from_radius, _find_degrees_for_radial_points)")
    text += ("import GridVerif.Model.AtomGrid\n\nset_option linter.unusedVariables false\n\n"
             "namespace GridVerif.Gen.AtomGrid\nopen GridVerif.AtomGrid\n\nsection\n"
             "variable {K : Type} [Add K] [Sub K] [Mul K] [Div K] [NatCast K] [LT K] [LE K] [DecidableLT K] [DecidableLE K]\n\n")
    text += translate()
    text += "\nend\nend GridVerif.Gen.AtomGrid\n"
    return write_if_changed("AtomGrid.lean", text)


if __name__ == "__main__":
    print(translate())
